#!/usr/bin/env python3
"""usage: anchorcov.py <property id> <go coverage text profile> <evidence.json>
Adds coverage.anchor_coverage to the evidence file: statement coverage of the
property's anchored source files (properties.jsonl anchors.files) as executed by
the monitored workload of a cover-instrumented build of the same monitor."""
import json, os, sys, collections

pid, prof, evp = sys.argv[1:4]
root = os.path.dirname(os.path.dirname(os.path.abspath(__file__)))
anchors = None
for line in open(os.path.join(root, "properties.jsonl")):
    p = json.loads(line)
    if p["id"] == pid:
        anchors = p["anchors"]["files"]
if anchors is None:
    sys.exit("unknown property")
tot = collections.Counter(); cov = collections.Counter(); unc = collections.defaultdict(list)
seen = {}
for line in open(prof):
    if line.startswith("mode:"):
        continue
    loc, n, c = line.rsplit(" ", 2)
    f, span = loc.rsplit(":", 1)
    n, c = int(n), int(c)
    key = (f, span)
    if key in seen:  # several counter files: take the max
        if c > 0 and seen[key] == 0:
            cov[f] += n
            seen[key] = c
        continue
    seen[key] = c
    tot[f] += n
    if c > 0:
        cov[f] += n
for (f, span), c in seen.items():
    if c == 0:
        unc[f].append(span.split(",")[0].split(".")[0])
out = {}
for a in anchors:
    full = "go.lstv.dev/util/" + a
    if tot[full]:
        lines = sorted(set(int(x) for x in unc[full]))
        out[a] = {"statements": tot[full], "covered": cov[full], "percent": round(100.0 * cov[full] / tot[full], 1), "uncovered_block_start_lines": lines[:40]}
    else:
        out[a] = {"statements": 0, "covered": 0, "percent": None, "note": "no executable statements or file not in profile"}
ev = json.load(open(evp))
s = sum(v["statements"] for v in out.values()); c = sum(v["covered"] for v in out.values())
ev["coverage"]["anchor_coverage"] = {
    "how": "go build -cover -coverpkg=go.lstv.dev/util/... of the same monitor, run once on this property's quick-size workload (same generators and seed; the thorough workload is a superset), go tool covdata textfmt",
    "anchored_statements": s, "anchored_statements_executed": c, "percent": round(100.0 * c / s, 1) if s else None,
    "files": out,
}
json.dump(ev, open(evp, "w"), indent=1)
print("anchor coverage %s: %d/%d statements (%.1f%%)" % (pid, c, s, 100.0 * c / s if s else 0))
