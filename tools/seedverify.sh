#!/bin/bash
# usage: seedverify.sh <staged-dir> <seed-id> <tier> <Cxx> [Cyy ...]
# Confirms a sub-agent's seeded change independently and records it under /verif/seeded/<seed-id>/:
#   1. scratch copy of /repo (outside /repo and /verif), patch applies
#   2. go build + the unedited repository suite pass WITH the change
#   3. the demonstration test FAILS with the change
#   4. the demonstration test PASSES without it (pristine scratch copy)
#   5. the listed checks are run against the changed copy (VERIF_REPO) and their verdicts recorded
# The scratch copy and its build output are removed afterwards.
set -u
src="$(readlink -f "$1")"; id="$2"; tier="$3"; shift 3
ROOT="$(cd "$(dirname "$0")/.." && pwd)"
export GOFLAGS=-mod=mod GOPROXY=off GOSUMDB=off GOTOOLCHAIN=local
dst="$ROOT/seeded/$id"; mkdir -p "$dst"
cp "$src/patch.diff" "$dst/patch.diff"
cp "$src/demo_test.go" "$dst/demo_test.go"
cp "$src/meta.json" "$dst/agent_meta.json" 2>/dev/null
pkg=$(grep -m1 -E '^package ' "$src/demo_test.go" | awk '{print $2}' | sed 's/_test$//')
scratch="$(mktemp -d /tmp/seedv.XXXXXX)"
rsync -a --exclude .git /repo/ "$scratch/"
applies=false; suite=false; demo_fails=false; demo_passes=false
if (cd "$scratch" && patch -p1 -s --no-backup-if-mismatch < "$dst/patch.diff"); then applies=true; fi
if $applies; then
  if (cd "$scratch" && go build ./... && go test -vet=off -count=1 ./... ) > "$scratch/_suite.log" 2>&1; then suite=true; fi
  cp "$dst/demo_test.go" "$scratch/$pkg/zz_demo_seeded_test.go"
  # DEMO_FLAGS: extra go test flags a demonstration needs (e.g. "-tags roman_noregexp", "-race")
  if ! (cd "$scratch" && go test -vet=off -count=1 ${DEMO_FLAGS:-} -run 'TestDemoSeeded' ./$pkg/ ) > "$scratch/_demo_with.log" 2>&1; then demo_fails=true; fi
  # pristine
  rm -rf "$scratch.p"; mkdir "$scratch.p"; rsync -a --exclude .git /repo/ "$scratch.p/"
  cp "$dst/demo_test.go" "$scratch.p/$pkg/zz_demo_seeded_test.go"
  if (cd "$scratch.p" && go test -vet=off -count=1 ${DEMO_FLAGS:-} -run 'TestDemoSeeded' ./$pkg/ ) > "$scratch/_demo_without.log" 2>&1; then demo_passes=true; fi
  rm -rf "$scratch.p"
  rm -f "$scratch/$pkg/zz_demo_seeded_test.go"
fi
results="["
first=1
for p in "$@"; do
  out="$(VERIF_REPO="$scratch" VERIF_OUT="$scratch/_verifout" "$ROOT/run.sh" "$p" "$tier" 2>&1)"; rc=$?
  key=$(echo "$out" | grep -m1 -E '^witness 1' | sed -E 's/^witness 1: key=([^ ]+).*/\1/')
  [ $first -eq 0 ] && results+=","
  first=0
  results+="{\"check\":\"$p\",\"tier\":\"$tier\",\"exit\":$rc,\"first_witness_key\":$(printf '%s' "$key" | python3 -c 'import json,sys; print(json.dumps(sys.stdin.read()))')}"
  echo "  $id $p rc=$rc key=$key"
done
results+="]"
python3 - "$dst" "$id" "$applies" "$suite" "$demo_fails" "$demo_passes" "$results" "$pkg" <<'EOF'
import json,sys,os
dst,id_,applies,suite,df,dp,results,pkg=sys.argv[1:9]
am={}
try: am=json.load(open(os.path.join(dst,'agent_meta.json')))
except Exception: pass
meta={
 "seed_id": id_,
 "property": am.get("property", id_.split('-')[0]),
 "files_changed": am.get("files_changed"),
 "what_changed": am.get("what_changed"),
 "why_it_breaks_the_property": am.get("why_it_breaks_the_property"),
 "needs_to_manifest": am.get("needs_to_manifest"),
 "origin": "independent sub-agent given only the property text and a scratch worktree of /repo",
 "confirmed_by_me": {
   "patch_applies_to_repo_head": applies=="true",
   "builds_and_unedited_suite_passes_with_change": suite=="true",
   "demo_fails_with_change": df=="true",
   "demo_passes_without_change": dp=="true",
   "commands": ["patch -p1 < patch.diff (scratch copy of /repo)", "go build ./... && go test -vet=off -count=1 ./...", "go test -vet=off -count=1 %s -run TestDemoSeeded ./%s/ (with and without the change)"%(os.environ.get("DEMO_FLAGS",""),pkg)],
 },
 "checks_run_against_change": json.loads(results),
}
json.dump(meta,open(os.path.join(dst,'meta.json'),'w'),indent=1)
if os.path.exists(os.path.join(dst,'agent_meta.json')): os.remove(os.path.join(dst,'agent_meta.json'))
print("  %s applies=%s suite=%s demo_fails=%s demo_passes=%s"%(id_,applies,suite,df,dp))
EOF
rm -rf "$scratch"
