#!/usr/bin/env python3
"""Generates /verif/MANIFEST.json from the table below (kept in one place so the
manifest stays valid while checks are added). Properties without an entry in
CHECKS are listed under not_applicable with the reason given in NOT_CLAIMED."""
import json, os, sys

ROOT = os.path.dirname(os.path.dirname(os.path.abspath(__file__)))


# id -> what the later rounds added to the workload (appended to the level text; DESIGN.md section 8)
COMMON = " The same workload also runs under 19 hostile local time zones where dates are involved, in freshly started child processes under hostile locale/zone environments and four kinds of standard streams where listed in DESIGN 8, on GOARCH=386, under every build tag named in the source tree, once more with every environment variable set that the tree under test is seen to look up (names discovered at run time through the Go test log of a probe that calls every entry point; none on the pinned tree), compiled as a test binary where the tree asks whether it runs under go test (it does not on the pinned tree), and (thorough) under the race detector; a panic of the library inside any monitored call is a violation."
EXTRA = {
    "C01": " Also: caller buffers of many spare capacities and contents, sub-slices with guard bytes, results' spare capacity filled before later results are compared, every one-letter fmt verb, JSON/XML alternative spellings (\\u escapes, CDATA, character references, comments) in every container position, one buffer refilled with equal-length documents (refill histories), weak-checksum collision histories. AppendText/AppendBinary-style methods a tree may grow are compared with MarshalText behind nine kinds of prefix; prefixes that contain fmt directives, fmt diagnostics, template syntax or multi-byte text. A program that links this package alone (no sibling package of the library) runs a compact sweep against the reference models. Results kept by the caller are compared again after garbage collections, finalizer runs and later calls. Caller buffers with 0..19 bytes to spare, rotating over the dates, for both formats.",
    "C02": " Also: every thousands count to 2100 with the limit disabled, numbers beyond 2^32 (multi-megabyte numerals), named types with String/Error/Format methods, refill histories, every one-letter verb, a failing Formatter variable. Appender methods judged against MarshalText. A program that links this package alone (no sibling package of the library) runs a compact sweep against the reference models. Results kept by the caller are compared again after garbage collections, finalizer runs and later calls. Every numeral is also parsed back under RuleDisableEmptyAsZero. One number rendered repeatedly while DefaultFormat is switched back and forth.",
    "C03": " Also: components at every power of ten and two with neighbours, MarshalText/StringTag/every one-letter verb, decorated spellings of valid texts, named types with display methods, inputs bordering inaccessible memory pages, refill histories, a vocabulary of common words. Appender methods judged against MarshalText; refusals repeated after the caller edited the exported fields of the returned error. A program that links this package alone (no sibling package of the library) runs a compact sweep against the reference models. Results kept by the caller are compared again after garbage collections, finalizer runs and later calls. The nine two-argument helpers on every tag/plain combination of both operands.",
    "C04": " Also: marshalled documents re-indented and re-spaced before reading, texts written under each switch combination read under each other one, refused inputs of 18 kinds immediately before the round trips, decimal-structure values (digit groups of zeros and nines). A program that links this package alone (no sibling package of the library) runs a compact sweep against the reference models. 4.8 million refused inputs (over-long, malformed) before a set of round trips.",
    "C05": " Also: ID.UnmarshalText on every input, ~130 decorated spellings of valid texts, every one-letter verb, named types with display methods, inputs bordering inaccessible pages, refill histories, separator-pair substitutions (exhaustive). Prefixes with fmt directives/diagnostics and multi-byte text under both formats; refusals repeated after the caller edited the returned error. A program that links this package alone (no sibling package of the library) runs a compact sweep against the reference models. Results kept by the caller are compared again after garbage collections, finalizer runs and later calls. 1..32 invalid digits at once. 4,000+ random single-threaded call histories of length 24-32 that dwell on a few steps. Formatter and Parser hooks that call the library themselves, on one goroutine (a call parked for good on a lock inside the library is detected by its goroutine state) and from all workers at once.",
    "C06": " Also: pre-release strings sharing memory (prefix/suffix slices, versions parsed from one buffer), the tag letter inside identifiers, 20+ digit numerics, long common prefixes. A program that links this package alone (no sibling package of the library) runs a compact sweep against the reference models. Pairs each within the input limit and together beyond it.",
    "C07": " Also: every day of years -1300..0 and 9999..10400, a far-year boundary set to +-999,999,999, Add with day/month/year counts to 2^31-1, LMT-style zone offsets with seconds, date.Today under every zone. Fixed zones named UTC, GMT, Local or nothing at all with arbitrary offsets. Years that agree modulo 2^3..2^29 visited one after the other on a single goroutine.",
    "C08": " Also: decorated spellings, inputs bordering inaccessible pages, refill histories, cold-start children. The same text as json.Number, json.RawMessage, sql.RawBytes and named types under three rules; number literals with fractions and exponents around 2^53 and 2^64; a Scan method, if the tree has one, judged on int64 and float64 sources against exact arithmetic. A program that links this package alone (no sibling package of the library) runs a compact sweep against the reference models. 18 units x 8 numbers in nine written forms (New, text, JSON string and object forms, Unmarshal*, encoding/json). Floats one ulp, 1e-10 and 1e-9 away from whole numbers; object documents whose ignored members hold null and decoy value/unit members.",
    "C09": " Also: Feb 28/29/30 of every year to 1,000,000 and every century year to 999,999,900, decorated spellings, named types with display methods, inputs bordering inaccessible pages, year-aliasing and checksum-collision histories. Refusals repeated after the caller edited the exported fields of the returned error (an error object kept and handed out again). A program that links this package alone (no sibling package of the library) runs a compact sweep against the reference models. 4,000+ random single-threaded call histories of length 24-32 that dwell on a few steps. The Parser variable assigned twice through one non-inlined helper with another rule captured.",
    "C10": " Also: decorated spellings, named types with display methods, inputs bordering inaccessible pages, build-tag variants of the matcher. The Parser variable replaced by one that adds RuleDisableEmptyAsZero, with nil, empty, empty-with-capacity data and empty XML/JSON texts through UnmarshalText; refusals repeated after the caller edited the returned error. A program that links this package alone (no sibling package of the library) runs a compact sweep against the reference models. 4,000+ random single-threaded call histories of length 24-32 that dwell on a few steps.",
    "C11": " Also: Feb 28/29/30 payloads of every year within +-1,000,000 and every century year within +-999,999,999; payloads decoded into receivers of every kind (zero, same date, same month-day in a leap year, neighbour). AppendBinary, if the tree has it, must return prefix ++ MarshalBinary for nine kinds of prefix x five spare capacities. Results kept by the caller are compared again after garbage collections, finalizer runs and later calls. Records placed at every offset of an 8-byte word and receivers at both alignments of a 4-byte-aligned struct; the 386 platform pass runs in the quick tier too.",
    "C12": " Also: non-JSON bytes (BOMs, comments, separators) around documents, keys colliding with value/unit under 11 cheap hash functions (offline exhaustive search, re-verified at start-up) and near-miss keys, every JSON string escape in every position, whole numbers beyond 2^53 with fraction/exponent, nesting depths to 9999, refill histories, inputs bordering inaccessible pages. Refusals repeated after the caller edited the returned error. 4,000+ random single-threaded call histories of length 24-32 that dwell on a few steps.",
    "C13": " Also: decimal-structure values (digit groups of zeros/nines under 30 heads, as byte counts and as shortened values of every unit), refused parses between renderings, caller buffers with the formatter's own output as prefix. Sizes constructed just before they are rendered (New with a non-maximal unit in three numeric kinds, text and JSON parsers), on one goroutine. A program that links this package alone (no sibling package of the library) runs a compact sweep against the reference models. Prefixes holding commas and every other separator a grouping routine may use as a placeholder.",
    "C14": " Also: all ordered pairs of 1463 identifier lists over identifiers that rank equal but differ in length, pre-release strings sharing memory, a caller-supplied ComparePreRelease. Latest is judged by the reference order as well as by the library's own Compare.",
    "C15": " Also: calendar-aligned bounds (first of every month x last three days of every month over 27 years x 6 spans) probed on both sides of every unit boundary, far years, probe histories, one variable passed as both bounds. Bounds and probes whose years lie more than 2^31 apart.",
    "C16": " Also: prefixes of every size class from 64 bytes to 70 KiB, spare capacities to 4096, nil-buffer results' capacity filled before later results are compared, formatter panics reported with the case. Prefixes containing fmt directives, fmt diagnostics ((MISSING), %!(EXTRA), template/regexp replacement syntax, multi-byte text in front of the formatter's own letters. Caller arrays outgrown by a result are compared again after hundreds of later formatting calls. 4,000+ random single-threaded call histories of length 24-32 that dwell on a few steps. Prefixes of a megabyte and more for every formatter.",
    "C17": " Also: buffers shared read-only with watcher goroutines, refill histories for all five types, hostile Scan sources (typed nil pointers, Valuers), inputs bordering inaccessible pages. The 14 generic entry points also at json.RawMessage, json.Number and sql.RawBytes; JSON documents that are almost one value; failing inputs of 250..70,000 bytes with the limits raised, printed (Error()) before the buffers are compared. The two-argument helpers at seven mixes of argument types; a string allocated at the address of a collected, parsed string of the same length. Documents with several unknown keys, repeated; for every UnmarshalJSON found at run time, objects built from the type's own field names in which a later member is mistyped. Separators at every byte position of number-and-unit texts through every string/bytes pair.",
    "C18": " Also: input-too-long errors re-read after the limit was changed, hostile Scan sources, hostile inputs bordering inaccessible pages (faults reported with the input), five coverage-guided fuzz targets in thorough. Scan sources that contain themselves (maps, slices, structs, pointers); allocation measured on inputs of tens of thousands of digit groups, identifiers, repeated prefixes and JSON members. JSON frames filled with invalid UTF-8 (each byte decodes to three) at every length around the limit.",
    "C19": " Also: bursts of 512/2048/4000 goroutines, a child that draws, stays silent for 35 s (thorough to 310 s) and is then used by goroutines not ordered after the first draw, a garbage-collector churn child (120,000 / 320,000 rounds of two IDs and two collections), an uninstrumented long run of 6.4*10^8 / 3.2*10^9 draws with exact and value-sampled duplicate detection, one child pinned to a single CPU, the global math/rand source reseeded while drawing. GOMAXPROCS 24..100 on 16 cores; a child stopped with SIGSTOP for 1.3 s, 2.5 s and 6 s while 600 goroutines draw (all IDs kept). 42 children that draw exactly 2^k-1, 2^k, 2^k+1 IDs, stay silent for 31 s and draw again, under both timer-channel settings.",
    "C20": " Also: a type whose own Equal/Compare/String are looser than deep equality, values differing in one field only, non-nil errors holding nil pointers, wrapped errors, hooks that rewrite the case, panic values whose methods panic, T instantiated as an interface type. A hand-written predicate that is content with any outcome (optional error). Predicate values shared by all cases, lists and helper calls of the process. Refused unmarshals that leave an empty map or slice that is not nil behind. Before hooks that supply the data of the case.",
}

# id -> (technique, level text, level note, design ref)
CHECKS = {
    "C01": ("runtime reference-model monitor over an exhaustive calendar enumeration (every output path x every input path), independent ISO 8601/Gregorian model",
            "Exploration: all 3,652,425 dates of years 0000-9999 x both layouts are executed through the real output and input paths and each observed text/date is compared online with an independent calendar model; 5-9 digit years are sampled under six MaxInputLength settings; outputs are retained and re-read after later calls. Held-on-observed, exhaustive for the 4-digit-year sub-space only.",
            "Trusted: Go runtime, fmt, encoding/json, encoding/xml, the reference calendar in harness/ref/civil.go (cross-checked against package time for every ordinal at run time).",
            "DESIGN.md section 4 C01"),
    "C02": ("runtime reference-model monitor, exhaustive over (n, flag set): formatter output vs independently constructed canonical numeral, then parse/validate back",
            "Exploration: every n in [0,130000] x all 128 flag subsets executed (exhaustive for that space) plus marshal/String/verb paths under each of the 128 DefaultFormat values; each observed numeral and parsed value compared with an independent digit-construction model.",
            "Trusted: Go runtime, fmt; canonical numerals from harness/ref/roman.go.",
            "DESIGN.md section 4 C02"),
    "C03": ("runtime reference-model monitor: exhaustive small-alphabet string enumeration + grammar-generated and mutated texts through 11 parser entry points, judged by an independent recursive-descent SemVer 2.0.0 recogniser with big.Int numerics",
            "Exploration: tens of millions of texts (three exhaustive bounded families, generated versions biased to the 2^64 boundary, all single-byte mutations of valid texts) executed through every parser entry point; acceptance, fields, byte-for-byte re-formatting, typed zero-valued rejections and the Valid <=> round-trip link are checked online.",
            "Trusted: Go runtime, math/big, the BNF recogniser in harness/ref/semver.go (self-tested on the semver.org valid/invalid example lists).",
            "DESIGN.md section 4 C03"),
    "C05": ("runtime reference-model monitor: exhaustive single-position sweeps (128 bits, 32 hex positions x 22 digit characters), all 256-value single-byte mutations of valid texts, random IDs; RFC 4122 layout model",
            "Exploration: every output path and the parser under all four rule combinations are executed on exhaustive single-position sweeps and seeded IDs/mutations; each observed text, ID, error type and version/variant is compared with an independent layout model.",
            "Trusted: Go runtime, fmt; harness/ref/uuid.go.",
            "DESIGN.md section 4 C05"),
    "C06": ("runtime reference-model monitor: all ordered pairs of a bounded universe of valid pre-release strings + boundary cores + long random identifier lists through 12 comparison entry points, judged by an independent SemVer section 11 comparator",
            "Exploration: every ordered pair of U_3 (quick) / U_4 (thorough) through all entry points, U_4 pairs through the value comparators, millions of seeded long-identifier pairs; the documented departure (digit-suffix of alphanumeric identifiers) is counted as don't-care.",
            "Trusted: Go runtime, math/big; comparator in harness/ref/semver.go (self-tested on the specification's example chain).",
            "DESIGN.md section 4 C06"),
    "C07": ("runtime reference-model monitor: exhaustive adjacent-pair sweep of the calendar + all pairs of a boundary set + Add/AddDuration/FromTime grids, judged on independent day ordinals",
            "Exploration: all 3.65M adjacent/identical pairs, all ordered pairs of a ~1,900-date boundary set, Add over a (years, months, days) grid with overflowing values, AddDuration around multiples of 24h, FromTime/Scan over 53 fixed-offset zones near local and UTC midnight; every result compared with the day-ordinal model.",
            "Trusted: Go runtime; package time only as carrier of inputs/results; harness/ref/civil.go.",
            "DESIGN.md section 4 C07"),
    "C09": ("runtime reference-model monitor: exhaustive (year, MM, DD, layout) grid x rule x limit configurations + exhaustive small-alphabet strings + all single-byte mutations, judged by an independent calendar recogniser",
            "Exploration: 60 years x 10,000 month/day texts x 4 layouts x 8 configurations x 3 entry points, every string over {0,1,2,3,9,-} up to length 9/10, and mutations of valid texts; acceptance, components, typed zero-valued rejection and dedicated errors are checked online.",
            "Trusted: Go runtime; harness/ref/civil.go (does not use package time).",
            "DESIGN.md section 4 C09"),
    "C10": ("runtime reference-model monitor: exhaustive enumeration of all strings over the seven letters up to length 7/8 in four case renderings + foreign-byte mutations, judged by an independent group-table evaluator",
            "Exploration: every string over {I,V,X,L,C,D,M} up to the bound x 4 case variants x 5 entry points, all 256 byte substitutions and multi-byte look-alikes at each position of valid numerals, M-runs around the limit; membership, value, Valid==parser agreement and typed zero-valued rejection are checked online.",
            "Trusted: Go runtime; harness/ref/roman.go (all splits tried, uniqueness asserted).",
            "DESIGN.md section 4 C10"),
    "C11": ("runtime reference-model monitor: exhaustive calendar round trip against an independent encoder + exhaustive (month byte, day byte) grids, version and length sweeps, random payloads",
            "Exploration: all dates of years -400..9999 and seeded dates to +-999,999,999 (layout and round trip); for 12 years all 65,536 month/day byte pairs, all 256 version bytes, all lengths 0..16, random 7-byte payloads; a nil error must leave a real calendar date, an error must leave the receiver unchanged.",
            "Trusted: Go runtime; independent encoder in the harness; harness/ref/civil.go.",
            "DESIGN.md section 4 C11"),
    "C13": ("runtime reference-model monitor: stratified + exhaustive-below-2^20 size set through Shorten and all renderings, judged with math/big shortening and an independent grouping routine",
            "Exploration: all sizes below 2^20, odd x 2^k for every k, every decimal length, neighbours of 1024^k/1000^k, millions of seeded values x 4 format values and 5 rendering entry points; exactness, maximality and full string equality of the renderings are checked online.",
            "Trusted: Go runtime, math/big, strconv; harness/ref/size.go.",
            "DESIGN.md section 4 C13"),
    "C14": ("runtime law monitor: order laws (range, reflexivity, antisymmetry, build independence, Latest, Next*, helper == parsed compare) over all ordered pairs of a bounded universe including mixed identifiers, boundary cores and seeded versions",
            "Exploration: every ordered pair of the universe under 16 build-metadata combinations, seeded versions with full-range components (including components >= 2^63 apart), Next* at 0 / 2^64-2 / 2^64-1 in each position, six string helpers over a pool of valid and invalid texts.",
            "Trusted: Go runtime; helper validity from harness/ref/semver.go; the laws need no external order.",
            "DESIGN.md section 4 C14"),
    "C15": ("runtime reference-model monitor: exhaustive (from, to, probe) triples over a boundary window x nil combinations + seeded triples, judged on day ordinals, with caller-variable mutation after construction",
            "Exploration: all triples of a 50+ date window spanning day/month/year/leap boundaries x 4 nil combinations, a million seeded triples with near-bound probes; every filter is probed before and after the caller's variables are overwritten.",
            "Trusted: Go runtime; harness/ref/civil.go.",
            "DESIGN.md section 4 C15"),
    "C16": ("runtime monitor on carved buffers: prefix/capacity/guard-byte snapshots around every formatter call, result compared with prefix ++ format(nil), earlier results re-read after later calls",
            "Exploration: five formatters x boundary values x every flag subset x ~300 prefixes (every single byte, the formatter's own alphabet, seeded binary) x spare capacities 0..64; in-place edits, wrong results, writes past capacity and scratch-buffer aliasing are all observable.",
            "Trusted: Go runtime; format(nil, ...) as reference for format(prefix, ...), itself checked by C01/C02/C05/C13.",
            "DESIGN.md section 4 C16"),
    "C04": ("runtime round-trip monitor under all 8 marshalling-switch combinations (barrier per combination): marshalled form read back through the real unmarshalers and through encoding/json containers, form kind checked with an independent JSON tree reader",
            "Exploration: all sizes below 2^20 plus a stratified/seeded 64-bit set x 8 switch combinations x text, JSON, rendering and encoding/json document paths (struct field, pointer, slice, map value, nested pointer slice, map key); decoded value must equal the original and the form must be the one the switches select.",
            "Trusted: Go runtime, encoding/json, math/big; harness/ref/jsontree.go and size.go.",
            "DESIGN.md section 4 C04"),
    "C08": ("runtime reference-model monitor: +-1000 neighbourhoods of every unit's overflow boundary, all numeric kinds and derived types at their edges, grammar-generated separator texts, Bytes[N] at representability boundaries, judged with math/big",
            "Exploration: for each of 19 units every value within +-1000 of floor((2^64-1)/multiplier), all 2^k/10^k, wrap candidates, seeded values through New and the text parser; one value through 24 numeric types; hundreds of thousands of generated texts with every separator kind; Bytes over 18 types; constraint helpers against math constants.",
            "Trusted: Go runtime, math/big, reflect; harness/ref/size.go (multipliers derived as 1000^k/1024^k).",
            "DESIGN.md section 4 C08"),
    "C12": ("runtime reference-model monitor: AST-generated JSON documents, all member permutations, every truncation point and trailing suffixes, across all 16 rule subsets x 5 MaxObjectKeys values, judged by an order-independent oracle built on encoding/json's tokenizer and json.Valid",
            "Exploration: tens of millions of (document, rules, limit) events; acceptance, value, single-cause sentinel errors (errors.Is), typed zero-valued rejection, order independence over permutations and rejection of everything that is not exactly one JSON value are checked online.",
            "Trusted: Go runtime, encoding/json tokenizer and json.Valid, math/big; harness/ref/jsontree.go, size.go.",
            "DESIGN.md section 4 C12"),
    "C17": ("runtime history monitor: per-type state machine stepped by recorded Unmarshal*/Scan calls on one receiver, inputs carved from guarded arrays (snapshot/compare/scribble), plus four-instantiation agreement of every generic parser",
            "Exploration: 20,000 (quick) / 600,000 (thorough) seeded 40-step histories per type with failures forced right after successful non-zero decodes; receiver compared with a deep-copied model after every step and after the input buffer is overwritten; 14 generic entry points compared across string, []byte and named types.",
            "Trusted: Go runtime; the receiver's value observed through exported accessors/fields.",
            "DESIGN.md section 4 C17"),
    "C18": ("runtime totality/limit monitor in a child process with a memory-mapped in-flight recorder: 117 entry points x hostile inputs x four MaxInputLength settings, panic capture, result-shape and limit-contract checks, allocation monitor via runtime/metrics",
            "Exploration: millions of seeded hostile calls (invalid UTF-8, multi-byte runes at every offset, NUL, equal-byte-length/different-rune-count pairs, 10x-1000x over-long runs with the limit disabled, deep JSON nesting); a recovered panic, a fatal death of the child (attributed through the in-flight recorder), a wrong limit decision, an echoed input or a runaway allocation is a violation; a hang is inconclusive.",
            "Trusted: Go runtime; wall clock used only by the inconclusive watchdog.",
            "DESIGN.md section 4 C18"),
    "C19": ("Go race detector (-race build, GORACE halt_on_error=0 log_path, reports counted and attributed by stack) over concurrent RandomID workloads in child processes, with a positive-control race, plus per-ID version/variant, per-bit frequency and exact duplicate monitors",
            "Exploration: G in {1,2,8,64} goroutines x GOMAXPROCS in {1,2,4,16} x repetitions, 200,000 (quick) / 2,000,000 (thorough) draws per run with seeded yields between calls; observed hand-offs, run lengths and goroutine mix per 64-ticket window are recorded as evidence of the interleavings actually seen.",
            "Trusted: the Go race detector (reports races on executed accesses only; schedules are sampled, not enumerated).",
            "DESIGN.md section 4 C19"),
    "C20": ("runtime reference-model monitor over generated programs: scripted marshaler/unmarshaler types x generated case lists through all six helpers with a recording TestingT inside a panic guard, judged per list and per case by an independent pass/fail oracle",
            "Exploration: 60,000 (quick) / 3,000,000 (thorough) seeded case lists x 6 helpers x 3 scripted types, whole and case by case; failure reported <=> some applicable case unmet; no escaping panic. One known finding (ErrorMatch with a valid non-matching pattern) is listed in KNOWN_FINDINGS.txt by its monitor key.",
            "Trusted: Go runtime; the oracle in harness/cmd/mon/c20.go; payloads never empty so testify's nil-vs-empty distinction is not exercised.",
            "DESIGN.md section 4 C20"),

}

NOT_CLAIMED = {}

def main():
    props = [json.loads(l) for l in open(os.path.join(ROOT, "properties.jsonl"))]
    checks = []
    na = []
    for p in props:
        pid = p["id"]
        if pid in CHECKS:
            tech, text, note, ref = CHECKS[pid]
            checks.append({
                "property_id": pid,
                "quick_cmd": "./run.sh %s quick" % pid,
                "thorough_cmd": "./run.sh %s thorough" % pid,
                "evidence_file": "/verif/evidence/%s.json" % pid,
                "replay_cmd_template": "./run.sh --replay {path}",
                "engine": "mon",
                "level_claimed": {"category": "exploration", "text": text + EXTRA.get(pid, "") + COMMON, "design_ref": ref + "; section 8 (as built)"},
                "level_note": note,
                "technique": tech,
            })
        else:
            na.append({"property_id": pid, "reason": NOT_CLAIMED.get(pid, "check not built yet in this round; see DESIGN.md section 4 for the planned monitor")})
    m = {
        "version": 1,
        "setup_cmd": "./run.sh --build",
        "hooks": {
            "guard": "verif",
            "enable": "no hooks are needed: every refuting event is observable at the exported API; checks build /repo as it is (go build in /verif/harness with replace go.lstv.dev/util => /repo)",
            "baseline_off_cmd": "cd /repo && GOFLAGS=-mod=mod GOPROXY=off GOSUMDB=off GOTOOLCHAIN=local go test -vet=off -count=1 ./...",
            "source_commits": [],
            "add_only": True,
        },
        "engines": [
            {"name": "mon", "path": "/verif/harness", "serves_properties": sorted(CHECKS.keys()),
             "kind_free_text": "Go runtime monitors: real library code driven by exhaustive/stratified/seeded hostile workloads, every call observed at the API boundary and judged online by independent reference models (harness/ref); C19 additionally under the Go race detector"},
        ],
        "checks": checks,
        "notes": "All verdicts are 'held on the executions observed'. Exit 2 (inconclusive) is used for build failures, watchdog expiry and monitors that observed too little; it is never folded into 0 or 1. Known findings: /verif/KNOWN_FINDINGS.txt.",
        "not_applicable": na,
    }
    json.dump(m, open(os.path.join(ROOT, "MANIFEST.json"), "w"), indent=1)
    print("wrote MANIFEST.json with %d checks, %d not claimed" % (len(checks), len(na)))

if __name__ == "__main__":
    main()
