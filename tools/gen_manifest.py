#!/usr/bin/env python3
"""Generates /verif/MANIFEST.json from the table below (kept in one place so the
manifest stays valid while checks are added). Properties without an entry in
CHECKS are listed under not_applicable with the reason given in NOT_CLAIMED."""
import json, os, sys

ROOT = os.path.dirname(os.path.dirname(os.path.abspath(__file__)))

# id -> (technique, level text, level note, design ref)
CHECKS = {
    "C01": ("runtime reference-model monitor over an exhaustive calendar enumeration (every output path x every input path), independent ISO 8601/Gregorian model",
            "Exploration: all 3,652,425 dates of years 0000-9999 x both layouts are executed through the real output and input paths and each observed text/date is compared online with an independent calendar model; 5-9 digit years are sampled under six MaxInputLength settings. Held-on-observed, exhaustive for the 4-digit-year sub-space only.",
            "Trusted: Go runtime, fmt, encoding/json, encoding/xml, the reference calendar in harness/ref/civil.go (cross-checked against package time for every ordinal at run time).",
            "DESIGN.md section 4 C01"),
}

NOT_CLAIMED = {}

def main():
    props = [json.loads(l) for l in open(os.path.join(ROOT, "properties.jsonl"))]
    checks = []
    na = []
    for p in props:
        pid = p["id"]
        if pid in CHECKS:
            tech, text, note, ref = CHECKS[pid]
            checks.append({
                "property_id": pid,
                "quick_cmd": "./run.sh %s quick" % pid,
                "thorough_cmd": "./run.sh %s thorough" % pid,
                "evidence_file": "/verif/evidence/%s.json" % pid,
                "replay_cmd_template": "./run.sh --replay {path}",
                "engine": "mon",
                "level_claimed": {"category": "exploration", "text": text, "design_ref": ref},
                "level_note": note,
                "technique": tech,
            })
        else:
            na.append({"property_id": pid, "reason": NOT_CLAIMED.get(pid, "check not built yet in this round; see DESIGN.md section 4 for the planned monitor")})
    m = {
        "version": 1,
        "setup_cmd": "./run.sh --build",
        "hooks": {
            "guard": "verif",
            "enable": "no hooks are needed: every refuting event is observable at the exported API; checks build /repo as it is (go build in /verif/harness with replace go.lstv.dev/util => /repo)",
            "baseline_off_cmd": "cd /repo && GOFLAGS=-mod=mod GOPROXY=off GOSUMDB=off GOTOOLCHAIN=local go test -vet=off -count=1 ./...",
            "source_commits": [],
            "add_only": True,
        },
        "engines": [
            {"name": "mon", "path": "/verif/harness", "serves_properties": sorted(CHECKS.keys()),
             "kind_free_text": "Go runtime monitors: real library code driven by exhaustive/stratified/seeded hostile workloads, every call observed at the API boundary and judged online by independent reference models (harness/ref); C19 additionally under the Go race detector"},
        ],
        "checks": checks,
        "notes": "All verdicts are 'held on the executions observed'. Exit 2 (inconclusive) is used for build failures, watchdog expiry and monitors that observed too little; it is never folded into 0 or 1. Known findings: /verif/KNOWN_FINDINGS.txt.",
        "not_applicable": na,
    }
    json.dump(m, open(os.path.join(ROOT, "MANIFEST.json"), "w"), indent=1)
    print("wrote MANIFEST.json with %d checks, %d not claimed" % (len(checks), len(na)))

if __name__ == "__main__":
    main()
