#!/bin/bash
# usage: runall.sh <tier> [seed]  — runs every check once, one line per check
tier="${1:-quick}"; seed="${2:-1}"
cd "$(dirname "$0")/.."
# the extra passes need the monitor to build for 386 and with -race: say so loudly if it does not
(cd harness && GOFLAGS=-mod=mod GOPROXY=off GOSUMDB=off GOTOOLCHAIN=local GOARCH=386 go build -o /dev/null ./cmd/mon) >/dev/null 2>&1 || echo "WARNING: the monitor does not build for GOARCH=386 - the platform pass will be skipped"
for i in $(seq -w 1 20); do
  p="C$i"; s=$(date +%s)
  out=$(VERIF_SEED=$seed ./run.sh $p $tier 2>&1); rc=$?
  echo "$p rc=$rc $(( $(date +%s)-s ))s :: $(echo "$out" | grep -E '^(VIOLATION|HELD|INCONCLUSIVE)' | head -2 | cut -c1-200 | tr '\n' ' ')"
done
