#!/bin/bash
# usage: runall.sh <tier> [seed]  — runs every check once, one line per check
tier="${1:-quick}"; seed="${2:-1}"
cd "$(dirname "$0")/.."
for i in $(seq -w 1 20); do
  p="C$i"; s=$(date +%s)
  out=$(VERIF_SEED=$seed ./run.sh $p $tier 2>&1); rc=$?
  echo "$p rc=$rc $(( $(date +%s)-s ))s :: $(echo "$out" | grep -E '^(VIOLATION|HELD|INCONCLUSIVE)' | head -2 | cut -c1-200 | tr '\n' ' ')"
done
