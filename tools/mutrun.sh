#!/bin/bash
# usage: mutrun.sh <patch.diff> <tier> <Cxx> [Cyy ...]
# Applies the patch to a scratch copy of /repo (outside /repo and /verif), runs the
# listed checks against it via VERIF_REPO, prints one line per check, removes the copy.
set -u
patch="$(readlink -f "$1")"; tier="$2"; shift 2
ROOT="$(cd "$(dirname "$0")/.." && pwd)"
scratch="$(mktemp -d /tmp/mut.XXXXXX)"
rsync -a --exclude .git /repo/ "$scratch/"
if ! (cd "$scratch" && git apply --unsafe-paths -p1 "$patch" 2>/dev/null || patch -p1 -s < "$patch"); then
  echo "PATCH-FAILED $patch"; rm -rf "$scratch"; exit 3
fi
for p in "$@"; do
  out="$(VERIF_REPO="$scratch" VERIF_OUT="$scratch/_verifout" "$ROOT/run.sh" "$p" "$tier" 2>&1)"; rc=$?
  echo "== $p rc=$rc :: $(echo "$out" | grep -E '^(VIOLATION|HELD|INCONCLUSIVE|KNOWN-FINDING)' | head -3 | tr '\n' ' ')"
  echo "$out" | grep -E '^witness 1' | cut -c1-600
done
rm -rf "$scratch"
