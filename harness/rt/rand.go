package rt

import "hash/fnv"

// Rand is a splitmix64 stream keyed by (seed, stream name, shard): the case list
// of every workload is a pure function of VERIF_SEED and the tier.
type Rand struct{ s uint64 }

// NewRand derives an independent stream.
func NewRand(seed int64, stream string, shard uint64) *Rand {
	h := fnv.New64a()
	h.Write([]byte(stream))
	r := &Rand{s: uint64(seed)*0x9E3779B97F4A7C15 ^ h.Sum64() ^ (shard+1)*0xBF58476D1CE4E5B9}
	r.U64()
	r.U64()
	return r
}

// U64 returns the next 64 random bits.
func (r *Rand) U64() uint64 {
	r.s += 0x9E3779B97F4A7C15
	z := r.s
	z = (z ^ (z >> 30)) * 0xBF58476D1CE4E5B9
	z = (z ^ (z >> 27)) * 0x94D049BB133111EB
	return z ^ (z >> 31)
}

// Intn returns a value in [0, n).
func (r *Rand) Intn(n int) int {
	if n <= 1 {
		return 0
	}
	return int(r.U64() % uint64(n))
}

// Range returns a value in [lo, hi].
func (r *Rand) Range(lo, hi int) int { return lo + r.Intn(hi-lo+1) }

// Bool returns a fair coin.
func (r *Rand) Bool() bool { return r.U64()&1 == 1 }

// Chance returns true with probability num/den.
func (r *Rand) Chance(num, den int) bool { return r.Intn(den) < num }

// Bytes returns n random bytes.
func (r *Rand) Bytes(n int) []byte {
	b := make([]byte, n)
	for i := range b {
		b[i] = byte(r.U64())
	}
	return b
}

// From picks one byte of the alphabet.
func (r *Rand) From(alphabet string) byte { return alphabet[r.Intn(len(alphabet))] }

// StringFrom returns a string of n bytes drawn from the alphabet.
func (r *Rand) StringFrom(alphabet string, n int) string {
	b := make([]byte, n)
	for i := range b {
		b[i] = alphabet[r.Intn(len(alphabet))]
	}
	return string(b)
}

// Hash64 is FNV-1a over the parts, used for distinct counting of random cases.
func Hash64(parts ...string) uint64 {
	h := fnv.New64a()
	for _, p := range parts {
		h.Write([]byte(p))
		h.Write([]byte{0xff})
	}
	return h.Sum64()
}

// HashU folds integers into a 64-bit hash.
func HashU(vs ...uint64) uint64 {
	x := uint64(0xcbf29ce484222325)
	for _, v := range vs {
		x ^= v
		x *= 0x100000001b3
		x ^= x >> 29
		x *= 0xBF58476D1CE4E5B9
	}
	return x
}
