// Package rt is the monitor kit shared by all property programs: deterministic
// PRNG, sharded workers with local counters, panic containment, violation
// recording with known-finding keys, replay files, class/reach accounting and the
// evidence writer. It contains no knowledge of the code under test.
package rt

import (
	"crypto/sha1"
	"encoding/hex"
	"encoding/json"
	"fmt"
	"os"
	"path/filepath"
	"runtime"
	"runtime/debug"
	"sort"
	"strconv"
	"strings"
	"sync"
	"time"
)

// Exit codes of a property program.
const (
	ExitHeld         = 0
	ExitViolation    = 1
	ExitInconclusive = 2
)

const maxWitnesses = 20
const distinctCap = 1 << 22

// Ctx is the per-process monitor context of one property.
type Ctx struct {
	Prop  string
	Tier  string
	Seed  int64
	Root  string // /verif
	Out   string // where evidence/ and replays/ are written (Root unless VERIF_OUT is set)
	start time.Time

	mu          sync.Mutex
	evals       int64
	nontrivial  int64
	classes     map[string]int64
	dontcare    map[string]int64
	samples     map[string][]any
	sampleOrder []string
	hashes      map[uint64]struct{}
	hashNT      int64
	hashCapHit  bool
	required    map[string]int64
	violations  []Violation
	nviol       int64
	vkeys       map[string]int64
	known       map[string]string // key -> text (from KNOWN_FINDINGS.txt)
	knownSeen   map[string]int64
	knownFirst  map[string]Violation
	selftests   []string
	selfFail    []string
	incon       []string
	exhaustive  map[string]bool
	extra       map[string]any
	rule        string
	assume      []string
	replayDir   string
	firstReplay string
	noFiles     bool
	// BeforeExit, when set, is called by Finish with the exit code right before os.Exit.
	BeforeExit func(code int)
}

// Violation is one refuting event.
type Violation struct {
	Property string         `json:"property"`
	Key      string         `json:"key"`
	Op       string         `json:"op"`
	Args     map[string]any `json:"args"`
	Observed string         `json:"observed"`
	Expected string         `json:"expected"`
	Reason   string         `json:"reason"`
	Seed     int64          `json:"seed"`
	Tier     string         `json:"tier"`
}

// New creates the context from the environment (VERIF_TIER, VERIF_SEED, VERIF_ROOT).
func New(prop string) *Ctx {
	tier := os.Getenv("VERIF_TIER")
	if tier != "thorough" {
		tier = "quick"
	}
	seed := int64(1)
	if s := os.Getenv("VERIF_SEED"); s != "" {
		if v, err := strconv.ParseInt(s, 10, 64); err == nil {
			seed = v
		}
	}
	root := os.Getenv("VERIF_ROOT")
	if root == "" {
		root = "/verif"
	}
	c := &Ctx{
		Prop: prop, Tier: tier, Seed: seed, Root: root, start: time.Now(),
		classes: map[string]int64{}, dontcare: map[string]int64{}, samples: map[string][]any{},
		hashes: map[uint64]struct{}{}, required: map[string]int64{}, known: map[string]string{},
		knownSeen: map[string]int64{}, knownFirst: map[string]Violation{}, exhaustive: map[string]bool{},
		extra: map[string]any{}, vkeys: map[string]int64{},
	}
	c.Out = root
	if o := os.Getenv("VERIF_OUT"); o != "" {
		c.Out = o // calibration runs against scratch copies must not overwrite the real evidence
	}
	c.replayDir = filepath.Join(c.Out, "replays")
	c.loadKnown()
	return c
}

// Quick reports whether this is the quick tier.
func (c *Ctx) Quick() bool { return c.Tier != "thorough" }

// Pick returns q in the quick tier and t in the thorough tier.
func (c *Ctx) Pick(q, t int) int {
	if c.Quick() {
		return q
	}
	return t
}

func (c *Ctx) loadKnown() {
	b, err := os.ReadFile(filepath.Join(c.Root, "KNOWN_FINDINGS.txt"))
	if err != nil {
		return
	}
	for _, line := range strings.Split(string(b), "\n") {
		line = strings.TrimSpace(line)
		if !strings.HasPrefix(line, "finding:") {
			continue
		}
		rest := strings.TrimSpace(strings.TrimPrefix(line, "finding:"))
		f := strings.Fields(rest)
		if len(f) < 2 || f[0] != "property="+c.Prop || !strings.HasPrefix(f[1], "key=") {
			continue
		}
		key := strings.TrimPrefix(f[1], "key=")
		c.known[key] = strings.TrimSpace(strings.Join(f[2:], " "))
	}
}

// SetRule states how cases are generated and what counts as distinct non-trivial.
func (c *Ctx) SetRule(r string) { c.rule = r }

// Assume records a trusted-base statement for the evidence file.
func (c *Ctx) Assume(a string) { c.assume = append(c.assume, a) }

// Require declares a minimum count for a class; below it the run is inconclusive.
func (c *Ctx) Require(class string, min int64) {
	c.mu.Lock()
	c.required[class] = min
	c.mu.Unlock()
}

// Exhaustive marks a named sub-space as completely enumerated by this run.
func (c *Ctx) Exhaustive(space string) {
	c.mu.Lock()
	c.exhaustive[space] = true
	c.mu.Unlock()
}

// Extra stores an additional measured value in the evidence coverage object.
func (c *Ctx) Extra(key string, v any) {
	c.mu.Lock()
	c.extra[key] = v
	c.mu.Unlock()
}

// Inconclusive marks the run inconclusive (never folded into held/violated).
func (c *Ctx) Inconclusive(reason string) {
	c.mu.Lock()
	c.incon = append(c.incon, reason)
	c.mu.Unlock()
}

// SelfTest runs an oracle self-test: f must return true (the synthetic wrong event
// was flagged / the specification vector passed). A failing self-test makes the
// run inconclusive: a monitor that cannot fire proves nothing.
func (c *Ctx) SelfTest(name string, ok bool) {
	c.mu.Lock()
	defer c.mu.Unlock()
	if ok {
		c.selftests = append(c.selftests, name)
	} else {
		c.selfFail = append(c.selfFail, name)
	}
}

// W is a worker-local recorder. It is not safe for concurrent use; each shard
// owns one and merges it into the context when done.
type W struct {
	C          *Ctx
	Shard      int
	NShards    int
	Rng        *Rand
	evals      int64
	nontrivial int64
	classes    map[string]int64
	dontcare   map[string]int64
	samples    map[string][]any
	hashes     map[uint64]struct{}
	hashNT     int64
}

// NewW creates a worker recorder with its own PRNG stream.
func (c *Ctx) NewW(shard, nshards int, stream string) *W {
	return &W{C: c, Shard: shard, NShards: nshards, Rng: NewRand(c.Seed, c.Prop+"/"+stream, uint64(shard)),
		classes: map[string]int64{}, dontcare: map[string]int64{}, samples: map[string][]any{}, hashes: map[uint64]struct{}{}}
}

// Eval counts n monitored executions.
func (w *W) Eval(n int64) { w.evals += n }

// NT counts n distinct non-trivial cases; the caller guarantees distinctness
// (enumeration visits each case once).
func (w *W) NT(n int64) { w.nontrivial += n }

// NTHash counts a non-trivial case whose distinctness is not guaranteed by
// construction (random generation): it is counted once per distinct 64-bit hash.
func (w *W) NTHash(h uint64) {
	if len(w.hashes) >= distinctCap/16 {
		return
	}
	w.hashes[h] = struct{}{}
}

// Class counts an event of the class and reports whether a sample is still wanted.
func (w *W) Class(name string) bool {
	n := w.classes[name]
	w.classes[name] = n + 1
	return n < 1 && w.Shard < 4
}

// ClassN adds n to a class counter.
func (w *W) ClassN(name string, n int64) { w.classes[name] += n }

// Sample stores a real event of this run for the evidence file.
func (w *W) Sample(class string, v any) {
	if len(w.samples[class]) < 2 {
		w.samples[class] = append(w.samples[class], v)
	}
}

// DontCare counts an event in a zone where the property fixes no behaviour.
func (w *W) DontCare(reason string) { w.dontcare[reason]++ }

// Done merges the worker into the context.
func (w *W) Done() {
	c := w.C
	c.mu.Lock()
	defer c.mu.Unlock()
	c.evals += w.evals
	c.nontrivial += w.nontrivial
	for k, v := range w.classes {
		c.classes[k] += v
	}
	for k, v := range w.dontcare {
		c.dontcare[k] += v
	}
	for k, v := range w.samples {
		if _, ok := c.samples[k]; !ok {
			c.sampleOrder = append(c.sampleOrder, k)
		}
		for _, s := range v {
			if len(c.samples[k]) < 2 {
				c.samples[k] = append(c.samples[k], s)
			}
		}
	}
	for h := range w.hashes {
		if len(c.hashes) >= distinctCap {
			c.hashCapHit = true
			break
		}
		c.hashes[h] = struct{}{}
	}
	w.evals, w.nontrivial = 0, 0
	w.classes, w.dontcare, w.samples, w.hashes = map[string]int64{}, map[string]int64{}, map[string][]any{}, map[uint64]struct{}{}
}

// Fail records a refuting event. key is the canonical known-finding key of the
// event (a class of failure with the concrete input embedded where the finding is
// input-specific); events whose key is listed in KNOWN_FINDINGS.txt are reported
// as KNOWN-FINDING, everything else is a VIOLATION.
func (w *W) Fail(key, op string, args map[string]any, observed, expected, reason string) {
	w.C.fail(Violation{Property: w.C.Prop, Key: key, Op: op, Args: args, Observed: observed, Expected: expected, Reason: reason, Seed: w.C.Seed, Tier: w.C.Tier})
}

// Fail on the context itself (single-threaded sections).
func (c *Ctx) Fail(key, op string, args map[string]any, observed, expected, reason string) {
	c.fail(Violation{Property: c.Prop, Key: key, Op: op, Args: args, Observed: observed, Expected: expected, Reason: reason, Seed: c.Seed, Tier: c.Tier})
}

func (c *Ctx) fail(v Violation) {
	c.mu.Lock()
	defer c.mu.Unlock()
	if _, ok := c.known[v.Key]; ok {
		if c.knownSeen[v.Key] == 0 {
			c.knownFirst[v.Key] = v
		}
		c.knownSeen[v.Key]++
		return
	}
	c.nviol++
	c.vkeys[v.Key]++
	// keep the first witnesses, but at most 3 per key so that different failure
	// classes stay visible when one class floods
	if len(c.violations) < maxWitnesses && c.vkeys[v.Key] <= 3 {
		c.violations = append(c.violations, v)
		p := c.writeReplay(v)
		if c.firstReplay == "" {
			c.firstReplay = p
		}
	}
}

// Violations returns the number of non-suppressed violations so far.
func (c *Ctx) Violations() int64 {
	c.mu.Lock()
	defer c.mu.Unlock()
	return c.nviol
}

func (c *Ctx) writeReplay(v Violation) string {
	if c.noFiles {
		return ""
	}
	b, _ := json.MarshalIndent(v, "", " ")
	sum := sha1.Sum(b)
	_ = os.MkdirAll(c.replayDir, 0o755)
	p := filepath.Join(c.replayDir, c.Prop+"-"+hex.EncodeToString(sum[:6])+".json")
	_ = os.WriteFile(p, append(b, '\n'), 0o644)
	return p
}

// Parallel runs f on n shards (n = GOMAXPROCS when n <= 0), each with its own W,
// and merges them. Configuration globals of the code under test must be set
// before the call and not touched inside it (barrier discipline).
func (c *Ctx) Parallel(stream string, n int, f func(w *W)) {
	if n <= 0 {
		n = runtime.GOMAXPROCS(0)
	}
	var wg sync.WaitGroup
	for i := 0; i < n; i++ {
		wg.Add(1)
		go func(i int) {
			defer wg.Done()
			w := c.NewW(i, n, stream)
			defer w.Done()
			defer func() {
				if r := recover(); r != nil {
					c.Panicked(fmt.Sprintf("stream %s shard %d", stream, i), r, debug.Stack())
				}
			}()
			f(w)
		}(i)
	}
	wg.Wait()
}

// LibraryPrefix is the import-path prefix of the code under test.
const LibraryPrefix = "go.lstv.dev/util/"

// PanicOrigin returns the first function below the panic call in a debug.Stack dump
// that belongs to the code under test or to the harness (runtime and standard-library
// frames in between are skipped: a bytes.Buffer misuse is attributed to its caller).
func PanicOrigin(stack []byte) (fn string, library bool) {
	lines := strings.Split(string(stack), "\n")
	start := -1
	for i, l := range lines {
		if strings.HasPrefix(l, "panic(") {
			start = i
		}
	}
	for i := start + 1; start >= 0 && i < len(lines); i++ {
		l := lines[i]
		if l == "" || l[0] == '\t' {
			continue
		}
		if strings.HasPrefix(l, LibraryPrefix) {
			if j := strings.LastIndexByte(l, '('); j > 0 {
				l = l[:j]
			}
			return l, true
		}
		if strings.HasPrefix(l, "verif/") || strings.HasPrefix(l, "main.") {
			return l, false
		}
	}
	return "", false
}

// Panicked records a panic that escaped a workload. When the panicking frame belongs to
// the code under test the call did not return what the property demands: a violation
// (the replay re-runs the property at the recorded tier and seed). A panic raised by
// the harness itself proves nothing: inconclusive.
func (c *Ctx) Panicked(where string, r any, stack []byte) {
	if fn, lib := PanicOrigin(stack); lib {
		st := string(stack)
		if i := strings.LastIndex(st, "\npanic("); i >= 0 {
			st = st[i+1:]
		}
		if len(st) > 1500 {
			st = st[:1500]
		}
		c.Fail("library-panic:"+fn, "library-panic", Args("where", where, "function", fn), fmt.Sprintf("panic: %v\n%s", r, st), "the call returns",
			"the code under test panicked inside a call the property requires to return a result")
		return
	}
	c.Inconclusive(fmt.Sprintf("harness panic in %s: %v\n%s", where, r, stack))
}

// Serial runs f with a single worker recorder.
func (c *Ctx) Serial(stream string, f func(w *W)) {
	w := c.NewW(0, 1, stream)
	defer w.Done()
	f(w)
}

// Call runs f, converting a panic into (true, message+stack).
func Call(f func()) (panicked bool, msg string) {
	defer func() {
		if r := recover(); r != nil {
			panicked = true
			msg = fmt.Sprintf("%v\n%s", r, debug.Stack())
		}
	}()
	f()
	return false, ""
}

// Finish writes the evidence file, prints the verdict lines and exits.
func (c *Ctx) Finish() {
	c.mu.Lock()
	for cls, min := range c.required {
		if c.classes[cls] < min {
			c.incon = append(c.incon, fmt.Sprintf("class %q observed %d < required %d", cls, c.classes[cls], min))
		}
	}
	for _, s := range c.selfFail {
		c.incon = append(c.incon, "oracle self-test failed: "+s)
	}
	distinct := c.nontrivial + int64(len(c.hashes))
	wall := time.Since(c.start).Seconds()

	var samples []any
	keys := append([]string(nil), c.sampleOrder...)
	sort.Strings(keys)
	for _, k := range keys {
		for _, s := range c.samples[k] {
			samples = append(samples, map[string]any{"class": k, "event": s})
		}
	}
	if len(samples) == 0 {
		samples = append(samples, "no sample recorded")
	}
	if len(samples) > 120 {
		samples = samples[:120]
	}
	exh := []string{}
	for k := range c.exhaustive {
		exh = append(exh, k)
	}
	sort.Strings(exh)
	var kf []map[string]any
	kkeys := []string{}
	for k := range c.knownSeen {
		kkeys = append(kkeys, k)
	}
	sort.Strings(kkeys)
	for _, k := range kkeys {
		kf = append(kf, map[string]any{"key": k, "events": c.knownSeen[k], "first": c.knownFirst[k]})
	}
	rule := c.rule
	if c.hashCapHit {
		rule += " (distinct-hash set reached its cap; distinct_nontrivial is a lower bound)"
	}
	cov := map[string]any{
		"evaluations":             c.evals,
		"distinct_nontrivial":     distinct,
		"rule":                    rule,
		"samples":                 samples,
		"classes":                 c.classes,
		"dontcare":                c.dontcare,
		"exhaustive_subspaces":    exh,
		"exhaustive":              false,
		"oracle_selftests_passed": c.selftests,
		"known_findings_observed": kf,
		"inconclusive_reasons":    c.incon,
		"witnesses":               c.violations,
		"violation_keys":          c.vkeys,
	}
	for k, v := range c.extra {
		cov[k] = v
	}
	ev := map[string]any{
		"property_id": c.Prop,
		"tier":        c.Tier,
		"seed":        c.Seed,
		"level":       "exploration",
		"coverage":    cov,
		"assumptions": c.assume,
		"wall_s":      wall,
		"violations":  c.nviol,
	}
	b, _ := json.MarshalIndent(ev, "", " ")
	_ = os.MkdirAll(filepath.Join(c.Out, "evidence"), 0o755)
	_ = os.WriteFile(filepath.Join(c.Out, "evidence", c.Prop+".json"), append(b, '\n'), 0o644)

	for _, k := range kkeys {
		fmt.Printf("KNOWN-FINDING: property=%s key=%s events=%d %s\n", c.Prop, k, c.knownSeen[k], clip(c.known[k]))
	}
	code := ExitHeld
	switch {
	case c.nviol > 0:
		for i, v := range c.violations {
			if i >= 5 {
				break
			}
			fmt.Printf("witness %d: key=%s op=%s args=%s observed=%s expected=%s reason=%s\n", i+1, v.Key, v.Op, compact(v.Args), clip(v.Observed), clip(v.Expected), v.Reason)
		}
		fmt.Printf("VIOLATION property=%s replay=%s\n", c.Prop, c.firstReplay)
		fmt.Printf("violations=%d (first %d kept) events=%d keys=%v\n", c.nviol, len(c.violations), c.evals, c.vkeys)
		code = ExitViolation
	case len(c.incon) > 0:
		for _, r := range c.incon {
			fmt.Printf("INCONCLUSIVE property=%s reason=%s\n", c.Prop, r)
		}
		code = ExitInconclusive
	default:
		fmt.Printf("HELD property=%s tier=%s seed=%d events=%d distinct_nontrivial=%d classes=%d dontcare=%d wall_s=%.1f\n",
			c.Prop, c.Tier, c.Seed, c.evals, distinct, len(c.classes), sumMap(c.dontcare), wall)
	}
	c.mu.Unlock()
	if c.BeforeExit != nil {
		c.BeforeExit(code)
	}
	os.Exit(code)
}

func sumMap(m map[string]int64) int64 {
	var s int64
	for _, v := range m {
		s += v
	}
	return s
}

func compact(m map[string]any) string {
	b, _ := json.Marshal(m)
	return clip(string(b))
}

func clip(s string) string {
	if len(s) > 300 {
		return s[:300] + "…"
	}
	return s
}

// Args is a convenience constructor for violation arguments.
func Args(kv ...any) map[string]any {
	m := map[string]any{}
	for i := 0; i+1 < len(kv); i += 2 {
		k := fmt.Sprint(kv[i])
		switch v := kv[i+1].(type) {
		case []byte:
			m[k+"_hex"] = hex.EncodeToString(v)
			m[k] = strconv.Quote(string(v))
		case string:
			m[k] = v
			if !isPrintable(v) {
				m[k+"_hex"] = hex.EncodeToString([]byte(v))
			}
		default:
			m[k] = v
		}
	}
	return m
}

func isPrintable(s string) bool {
	for i := 0; i < len(s); i++ {
		if s[i] < 0x20 || s[i] > 0x7e {
			return false
		}
	}
	return true
}

// ReadReplay loads a replay file.
func ReadReplay(path string) (Violation, error) {
	var v Violation
	b, err := os.ReadFile(path)
	if err != nil {
		return v, err
	}
	err = json.Unmarshal(b, &v)
	return v, err
}

// ArgString fetches a string argument from a replay record, preferring the hex form.
func ArgString(v Violation, k string) string {
	if h, ok := v.Args[k+"_hex"].(string); ok {
		b, err := hex.DecodeString(h)
		if err == nil {
			return string(b)
		}
	}
	s, _ := v.Args[k].(string)
	return s
}

// ArgInt fetches an integer argument from a replay record.
func ArgInt(v Violation, k string) int64 {
	switch x := v.Args[k].(type) {
	case float64:
		return int64(x)
	case string:
		n, _ := strconv.ParseInt(x, 10, 64)
		return n
	}
	return 0
}

// ArgUint fetches an unsigned argument (stored as decimal string to stay exact).
func ArgUint(v Violation, k string) uint64 {
	switch x := v.Args[k].(type) {
	case float64:
		return uint64(x)
	case string:
		n, _ := strconv.ParseUint(x, 10, 64)
		return n
	}
	return 0
}

// ExportViolations returns the recorded witnesses (used by cold-start children to hand them to the parent).
func (c *Ctx) ExportViolations() ([]Violation, int64, int64) {
	c.mu.Lock()
	defer c.mu.Unlock()
	return append([]Violation(nil), c.violations...), c.nviol, c.evals
}

// ImportViolation records a violation observed in a child process.
func (c *Ctx) ImportViolation(v Violation) { v.Seed, v.Tier = c.Seed, c.Tier; c.fail(v) }

// AddEvals adds executions performed in child processes.
func (c *Ctx) AddEvals(n int64) {
	c.mu.Lock()
	c.evals += n
	c.mu.Unlock()
}

// ReplayCtx returns a context that records violations in memory only; replayers
// re-run one case through the normal monitor and print Report.
func ReplayCtx(prop string) *Ctx {
	c := New(prop)
	c.noFiles = true
	c.known = map[string]string{}
	return c
}

// Report summarises what a replay context observed.
func (c *Ctx) Report() string {
	c.mu.Lock()
	defer c.mu.Unlock()
	if c.nviol == 0 {
		return fmt.Sprintf("no violation reproduced on the current tree (%d executions)", c.evals)
	}
	var sb strings.Builder
	fmt.Fprintf(&sb, "REPRODUCED %d violation(s):", c.nviol)
	for _, v := range c.violations {
		fmt.Fprintf(&sb, "\n  key=%s op=%s args=%s observed=%s expected=%s reason=%s", v.Key, v.Op, compact(v.Args), clip(v.Observed), clip(v.Expected), v.Reason)
	}
	return sb.String()
}
