// Package ref holds reference models written from the specifications (proleptic
// Gregorian calendar, SemVer 2.0.0, RFC 4122, IEC/SI units), never from the code
// under test. Nothing here imports go.lstv.dev/util, and civil does not use package time.
package ref

// IsLeap is the Gregorian leap rule.
func IsLeap(y int64) bool { return y%4 == 0 && (y%100 != 0 || y%400 == 0) }

// DaysIn returns the length of month m (1..12) in year y.
func DaysIn(y int64, m int) int {
	switch m {
	case 1, 3, 5, 7, 8, 10, 12:
		return 31
	case 4, 6, 9, 11:
		return 30
	case 2:
		if IsLeap(y) {
			return 29
		}
		return 28
	}
	return 0
}

// ValidYMD reports whether (y, m, d) names an existing day.
func ValidYMD(y int64, m, d int) bool { return m >= 1 && m <= 12 && d >= 1 && d <= DaysIn(y, m) }

func floorDiv(a, b int64) int64 {
	q := a / b
	if (a%b != 0) && ((a < 0) != (b < 0)) {
		q--
	}
	return q
}

// Ordinal returns the number of days from 1970-01-01 to y-m-d (Hinnant's
// days_from_civil), valid for any int64 year in a wide range. m may be 1..12, d any
// day number (the result is linear in d).
func Ordinal(y int64, m, d int) int64 {
	if m <= 2 {
		y--
	}
	era := floorDiv(y, 400)
	yoe := y - era*400
	mp := int64((m + 9) % 12)
	doy := (153*mp+2)/5 + int64(d) - 1
	doe := yoe*365 + yoe/4 - yoe/100 + doy
	return era*146097 + doe - 719468
}

// Civil is the inverse of Ordinal (Hinnant's civil_from_days).
func Civil(z int64) (y int64, m, d int) {
	z += 719468
	era := floorDiv(z, 146097)
	doe := z - era*146097
	yoe := (doe - doe/1460 + doe/36524 - doe/146096) / 365
	y = yoe + era*400
	doy := doe - (365*yoe + yoe/4 - yoe/100)
	mp := (5*doy + 2) / 153
	d = int(doy - (153*mp+2)/5 + 1)
	if mp < 10 {
		m = int(mp + 3)
	} else {
		m = int(mp - 9)
	}
	if m <= 2 {
		y++
	}
	return
}

// AddDate is the time.AddDate-style normalisation re-implemented on ordinals:
// months overflow into years (floor division), then the day number is applied
// linearly on top of the first of the resulting month.
func AddDate(y int64, m, d int, years, months, days int64) (int64, int, int) {
	yy := y + years
	mm := int64(m-1) + months
	yy += floorDiv(mm, 12)
	mm -= floorDiv(mm, 12) * 12
	o := Ordinal(yy, int(mm)+1, 1) + int64(d-1) + days
	return Civil(o)
}

// pad writes v with at least w digits (no sign handling: v >= 0).
func pad(b []byte, v int64, w int) []byte {
	var tmp [24]byte
	i := len(tmp)
	if v == 0 {
		i--
		tmp[i] = '0'
	}
	for v > 0 {
		i--
		tmp[i] = byte('0' + v%10)
		v /= 10
	}
	for len(tmp)-i < w {
		i--
		tmp[i] = '0'
	}
	return append(b, tmp[i:]...)
}

// DateText is the ISO 8601 rendering: YYYY-MM-DD or YYYYMMDD with the year
// zero-padded to at least four digits (y >= 0).
func DateText(y int64, m, d int, basic bool) string {
	b := make([]byte, 0, 16)
	b = pad(b, y, 4)
	if !basic {
		b = append(b, '-')
	}
	b = pad(b, int64(m), 2)
	if !basic {
		b = append(b, '-')
	}
	b = pad(b, int64(d), 2)
	return string(b)
}

// DateRec is the result of the independent date recogniser.
type DateRec struct {
	OK     bool // text is a real calendar date in one of the two layouts
	Shaped bool // text has the Y{4,9}-MM-DD / Y{4,9}MMDD shape (digits and separators in place)
	Basic  bool // the layout without separators
	Y      int64
	M, D   int
}

// RecogniseDate is the independent recogniser of C09: ASCII Y{4,9}-MM-DD or
// Y{4,9}MMDD naming an existing day.
func RecogniseDate(s string) DateRec {
	n := len(s)
	var r DateRec
	var ys, ms, ds string
	switch {
	case n >= 10 && s[n-3] == '-' && s[n-6] == '-':
		ys, ms, ds = s[:n-6], s[n-5:n-3], s[n-2:]
	case n >= 8:
		ys, ms, ds = s[:n-4], s[n-4:n-2], s[n-2:]
		r.Basic = true
	default:
		return DateRec{}
	}
	if len(ys) < 4 || len(ys) > 9 {
		return DateRec{}
	}
	num := func(t string) (int64, bool) {
		var v int64
		for i := 0; i < len(t); i++ {
			if t[i] < '0' || t[i] > '9' {
				return 0, false
			}
			v = v*10 + int64(t[i]-'0')
		}
		return v, true
	}
	yv, ok1 := num(ys)
	mv, ok2 := num(ms)
	dv, ok3 := num(ds)
	if !ok1 || !ok2 || !ok3 {
		return DateRec{}
	}
	r.Shaped = true
	r.Y, r.M, r.D = yv, int(mv), int(dv)
	r.OK = ValidYMD(yv, int(mv), int(dv))
	return r
}
