package ref

import "strings"

// Roman format flags, defined by the documented meaning (bit positions are mapped
// by the caller from the library's exported constants, not assumed here).
type RomanFlags struct {
	Long4, Long40, Long400 bool
	Long9, Long90, Long900 bool
	Lower                  bool
}

// romanDigit builds one decimal digit from its (one, five, ten) symbols: the
// subtractive form for 4 and 9 unless the matching long flag asks for the additive one.
func romanDigit(v int, one, five, ten string, long4, long9 bool) string {
	switch {
	case v == 4 && !long4:
		return one + five
	case v == 9 && !long9:
		return one + ten
	case v >= 5:
		return five + strings.Repeat(one, v-5)
	default:
		return strings.Repeat(one, v)
	}
}

// RomanFormat is the canonical numeral of n under the flags (zero is "").
func RomanFormat(n uint64, f RomanFlags) string {
	var sb strings.Builder
	for i := uint64(0); i < n/1000; i++ {
		sb.WriteByte('M')
	}
	r := int(n % 1000)
	sb.WriteString(romanDigit(r/100, "C", "D", "M", f.Long400, f.Long900))
	sb.WriteString(romanDigit(r/10%10, "X", "L", "C", f.Long40, f.Long90))
	sb.WriteString(romanDigit(r%10, "I", "V", "X", f.Long4, f.Long9))
	s := sb.String()
	if f.Lower {
		s = strings.ToLower(s)
	}
	return s
}

// groupTable lists every admissible text of one group with its value: additive
// (optional five-symbol, then 0..4 one-symbols) or subtractive (four / nine form).
func groupTable(one, five, ten byte, unit uint64) map[string]uint64 {
	t := map[string]uint64{}
	for f := 0; f <= 1; f++ {
		for k := 0; k <= 4; k++ {
			s := ""
			if f == 1 {
				s = string(five)
			}
			s += strings.Repeat(string(one), k)
			t[s] = (uint64(f)*5 + uint64(k)) * unit
		}
	}
	t[string(one)+string(five)] = 4 * unit
	t[string(one)+string(ten)] = 9 * unit
	return t
}

var (
	romanH = groupTable('C', 'D', 'M', 100)
	romanT = groupTable('X', 'L', 'C', 10)
	romanU = groupTable('I', 'V', 'X', 1)
)

func asciiUpper(s string) (string, bool) {
	b := []byte(s)
	for i, c := range b {
		switch {
		case c >= 'a' && c <= 'z':
			b[i] = c - 32
		case c >= 0x80:
			return "", false
		}
	}
	return string(b), true
}

// RomanEval decides membership in the documented language (case-insensitive
// M* H T U with H, T, U from the group tables) by trying every split, and returns
// the value. ambiguous is true when two different splits give different values
// (must never happen; it is asserted by the self-test).
func RomanEval(s string) (value uint64, ok bool, ambiguous bool) {
	up, asc := asciiUpper(s)
	if !asc {
		return 0, false, false
	}
	n := len(up)
	found := false
	for k := 0; k <= n; k++ { // number of leading M taken as thousands
		if k > 0 && up[k-1] != 'M' {
			break
		}
		rest := up[k:]
		for a := 0; a <= len(rest) && a <= 5; a++ {
			hv, okH := romanH[rest[:a]]
			if !okH {
				continue
			}
			r2 := rest[a:]
			for b := 0; b <= len(r2) && b <= 5; b++ {
				tv, okT := romanT[r2[:b]]
				if !okT {
					continue
				}
				uv, okU := romanU[r2[b:]]
				if !okU {
					continue
				}
				v := uint64(k)*1000 + hv + tv + uv
				if found && v != value {
					ambiguous = true
				}
				found, value = true, v
			}
		}
	}
	return value, found, ambiguous
}
