package ref

import (
	"math/big"
	"strings"
)

// SemVer is the parse result of the reference recogniser.
type SemVer struct {
	Major, Minor, Patch *big.Int
	Pre, Build          string
}

func isDigit(c byte) bool  { return c >= '0' && c <= '9' }
func isLetter(c byte) bool { return (c >= 'a' && c <= 'z') || (c >= 'A' && c <= 'Z') }
func isIdentCh(c byte) bool {
	return isDigit(c) || isLetter(c) || c == '-'
}

// numericIdent: "0" | positive digit digits*
func numericIdent(s string) bool {
	if s == "" {
		return false
	}
	for i := 0; i < len(s); i++ {
		if !isDigit(s[i]) {
			return false
		}
	}
	return s == "0" || s[0] != '0'
}

func allDigits(s string) bool {
	if s == "" {
		return false
	}
	for i := 0; i < len(s); i++ {
		if !isDigit(s[i]) {
			return false
		}
	}
	return true
}

// alnumIdent: identifier characters with at least one non-digit.
func alnumIdent(s string) bool {
	if s == "" {
		return false
	}
	nd := false
	for i := 0; i < len(s); i++ {
		if !isIdentCh(s[i]) {
			return false
		}
		if !isDigit(s[i]) {
			nd = true
		}
	}
	return nd
}

// ValidPre: dot-separated pre-release identifiers (alphanumeric or numeric without leading zeros).
func ValidPre(s string) bool {
	if s == "" {
		return false
	}
	for _, id := range strings.Split(s, ".") {
		if !(alnumIdent(id) || numericIdent(id)) {
			return false
		}
	}
	return true
}

// ValidBuild: dot-separated build identifiers (alphanumeric or digits).
func ValidBuild(s string) bool {
	if s == "" {
		return false
	}
	for _, id := range strings.Split(s, ".") {
		if !(alnumIdent(id) || allDigits(id)) {
			return false
		}
	}
	return true
}

// RecogniseSemVer parses s (without any tag prefix) by the SemVer 2.0.0 BNF:
// <valid semver> ::= <core> | <core> "-" <pre> | <core> "+" <build> | <core> "-" <pre> "+" <build>
func RecogniseSemVer(s string) (SemVer, bool) {
	var v SemVer
	core := s
	rest := ""
	if i := strings.IndexAny(s, "-+"); i >= 0 {
		core, rest = s[:i], s[i:]
	}
	parts := strings.Split(core, ".")
	if len(parts) != 3 {
		return v, false
	}
	nums := make([]*big.Int, 3)
	for i, p := range parts {
		if !numericIdent(p) {
			return v, false
		}
		n, ok := new(big.Int).SetString(p, 10)
		if !ok {
			return v, false
		}
		nums[i] = n
	}
	v.Major, v.Minor, v.Patch = nums[0], nums[1], nums[2]
	if rest == "" {
		return v, true
	}
	if rest[0] == '-' {
		pre := rest[1:]
		if j := strings.IndexByte(pre, '+'); j >= 0 {
			v.Build = pre[j+1:]
			pre = pre[:j]
			if !ValidBuild(v.Build) {
				return SemVer{}, false
			}
		}
		if !ValidPre(pre) {
			return SemVer{}, false
		}
		v.Pre = pre
		return v, true
	}
	// rest[0] == '+'
	v.Build = rest[1:]
	if !ValidBuild(v.Build) {
		return SemVer{}, false
	}
	return v, true
}

var maxU64 = new(big.Int).SetUint64(^uint64(0))

// FitsU64 reports whether all three components are <= 2^64-1.
func (v SemVer) FitsU64() bool {
	return v.Major.Cmp(maxU64) <= 0 && v.Minor.Cmp(maxU64) <= 0 && v.Patch.Cmp(maxU64) <= 0
}

// ComparePre is SemVer section 11.4 on two pre-release strings ("" = release).
func ComparePre(a, b string) int {
	switch {
	case a == "" && b == "":
		return 0
	case a == "":
		return 1
	case b == "":
		return -1
	}
	as, bs := strings.Split(a, "."), strings.Split(b, ".")
	for i := 0; i < len(as) && i < len(bs); i++ {
		if c := compareIdent(as[i], bs[i]); c != 0 {
			return c
		}
	}
	switch {
	case len(as) < len(bs):
		return -1
	case len(as) > len(bs):
		return 1
	}
	return 0
}

func compareIdent(a, b string) int {
	an, bn := allDigits(a), allDigits(b)
	switch {
	case an && bn:
		x, _ := new(big.Int).SetString(a, 10)
		y, _ := new(big.Int).SetString(b, 10)
		return x.Cmp(y)
	case an:
		return -1
	case bn:
		return 1
	}
	return strings.Compare(a, b) // ASCII sort order (bytes)
}

// ExcludedPair is the departure C06 leaves outside the claim: the first differing
// identifiers are both alphanumeric and, after removing their longest common
// prefix, both remainders consist of digits only (a01 vs a1, rc9 vs rc10, a vs a1).
func ExcludedPair(a, b string) bool {
	if a == "" || b == "" {
		return false
	}
	as, bs := strings.Split(a, "."), strings.Split(b, ".")
	for i := 0; i < len(as) && i < len(bs); i++ {
		if as[i] == bs[i] {
			continue
		}
		x, y := as[i], bs[i]
		if allDigits(x) || allDigits(y) {
			return false
		}
		j := 0
		for j < len(x) && j < len(y) && x[j] == y[j] {
			j++
		}
		rx, ry := x[j:], y[j:]
		return (rx == "" || allDigits(rx)) && (ry == "" || allDigits(ry))
	}
	return false
}

// CompareSemVer is full section 11 precedence (build ignored).
func CompareSemVer(a, b SemVer) int {
	if c := a.Major.Cmp(b.Major); c != 0 {
		return c
	}
	if c := a.Minor.Cmp(b.Minor); c != 0 {
		return c
	}
	if c := a.Patch.Cmp(b.Patch); c != 0 {
		return c
	}
	return ComparePre(a.Pre, b.Pre)
}
