package ref

import (
	"math/big"
	"strings"
)

// UnitMult returns the multiplier of a unit as a big integer: kB..YB = 1000^k,
// KiB..YiB = 1024^k, "B" and "" = 1. Unknown units report ok=false.
func UnitMult(unit string) (*big.Int, bool) {
	if unit == "" || unit == "B" {
		return big.NewInt(1), true
	}
	dec := []string{"kB", "MB", "GB", "TB", "PB", "EB", "ZB", "YB"}
	bin := []string{"KiB", "MiB", "GiB", "TiB", "PiB", "EiB", "ZiB", "YiB"}
	for i, u := range dec {
		if u == unit {
			return new(big.Int).Exp(big.NewInt(1000), big.NewInt(int64(i+1)), nil), true
		}
	}
	for i, u := range bin {
		if u == unit {
			return new(big.Int).Exp(big.NewInt(1024), big.NewInt(int64(i+1)), nil), true
		}
	}
	return nil, false
}

// AllUnits lists the 18 documented units plus the empty one.
var AllUnits = []string{"", "B", "kB", "MB", "GB", "TB", "PB", "EB", "ZB", "YB", "KiB", "MiB", "GiB", "TiB", "PiB", "EiB", "ZiB", "YiB"}

var two64 = new(big.Int).Lsh(big.NewInt(1), 64)

// SizeProduct decides value x unit: ok iff the unit is known and the product is
// below 2^64 (value is a non-negative integer given as big.Int).
func SizeProduct(value *big.Int, unit string) (uint64, bool) {
	m, ok := UnitMult(unit)
	if !ok || value.Sign() < 0 {
		return 0, false
	}
	p := new(big.Int).Mul(value, m)
	if p.Cmp(two64) >= 0 {
		return 0, false
	}
	return p.Uint64(), true
}

// Shorten returns the largest binary unit B..EiB dividing s exactly and the quotient.
func Shorten(s uint64) (uint64, string) {
	units := []string{"B", "KiB", "MiB", "GiB", "TiB", "PiB", "EiB"}
	if s == 0 {
		return 0, "B"
	}
	v := new(big.Int).SetUint64(s)
	k := big.NewInt(1024)
	i := 0
	for i < len(units)-1 {
		q, r := new(big.Int).QuoRem(v, k, new(big.Int))
		if r.Sign() != 0 {
			break
		}
		v = q
		i++
	}
	return v.Uint64(), units[i]
}

// Group3 groups decimal digits in threes from the right joined by sep.
func Group3(digits, sep string) string {
	var parts []string
	for len(digits) > 3 {
		parts = append([]string{digits[len(digits)-3:]}, parts...)
		digits = digits[:len(digits)-3]
	}
	parts = append([]string{digits}, parts...)
	return strings.Join(parts, sep)
}

// SizeText renders s: value+unit, or grouped value, one separator, unit.
func SizeText(s uint64, pretty bool, sep string) string {
	v, u := Shorten(s)
	d := new(big.Int).SetUint64(v).String()
	if !pretty {
		return d + u
	}
	return Group3(d, sep) + sep + u
}

// TextSize is the documented text grammar of a size:
//
//	sp* digit (sep* digit)* (sep* unit)? sp*       sep = ' ' | NBSP (U+00A0) | '_'
//
// It returns: inGrammar (the text has that shape with a unit token free of
// separators and spaces), and the digits / unit found. Texts outside the grammar
// are a don't-care for acceptance.
func TextSize(s string) (inGrammar bool, digits string, unit string) {
	t := strings.Trim(s, " ")
	i := 0
	var ds []byte
	lastDigitEnd := 0
	for i < len(t) {
		c := t[i]
		switch {
		case c >= '0' && c <= '9':
			ds = append(ds, c)
			i++
			lastDigitEnd = i
		case c == ' ' || c == '_':
			if len(ds) == 0 {
				return false, "", ""
			}
			i++
		case c == 0xC2 && i+1 < len(t) && t[i+1] == 0xA0:
			if len(ds) == 0 {
				return false, "", ""
			}
			i += 2
		default:
			goto unit
		}
	}
unit:
	if len(ds) == 0 {
		return false, "", ""
	}
	u := t[i:]
	if u == "" {
		// trailing separators after the last digit without a unit are outside the stated grammar
		if lastDigitEnd != len(t) {
			return false, string(ds), ""
		}
		return true, string(ds), ""
	}
	if strings.ContainsAny(u, " _") || strings.Contains(u, " ") {
		return false, string(ds), u
	}
	return true, string(ds), u
}

// FloatExact reports whether v is exactly representable with a mantissa of
// mant bits (24 for float32, 53 for float64): its bit span must fit.
func FloatExact(v uint64, mant int) bool {
	if v == 0 {
		return true
	}
	hi := 63
	for v>>uint(hi)&1 == 0 {
		hi--
	}
	lo := 0
	for v>>uint(lo)&1 == 0 {
		lo++
	}
	return hi-lo+1 <= mant
}
