package ref

// UUID text layout from RFC 4122: time_low(8) - time_mid(4) - time_hi_and_version(4)
// - clock_seq_hi_and_reserved|clock_seq_low(4) - node(12), most significant nibble first.
// The 128-bit value is (hi, lo) with hi holding octets 0..7.

const hexLower = "0123456789abcdef"

// UUIDText renders the canonical lower-case form.
func UUIDText(hi, lo uint64) string {
	var nib [32]byte
	for i := 0; i < 16; i++ {
		nib[i] = hexLower[(hi>>(60-4*uint(i)))&0xf]
		nib[16+i] = hexLower[(lo>>(60-4*uint(i)))&0xf]
	}
	out := make([]byte, 0, 36)
	for i, c := range nib {
		if i == 8 || i == 12 || i == 16 || i == 20 {
			out = append(out, '-')
		}
		out = append(out, c)
	}
	return string(out)
}

// UUIDNibblePos maps nibble index 0..31 (most significant first) to its byte
// position in the 36-character text.
func UUIDNibblePos(i int) int {
	switch {
	case i < 8:
		return i
	case i < 12:
		return i + 1
	case i < 16:
		return i + 2
	case i < 20:
		return i + 3
	default:
		return i + 4
	}
}

// UUIDParse is the strict oracle: exactly 36 bytes, hyphens at 8, 13, 18, 23, hex
// elsewhere (upper case only when allowUpper). badDigit reports the first
// offending digit position (-1 if the defect is of another kind).
func UUIDParse(s string, allowUpper bool) (hi, lo uint64, ok bool, onlyBadDigit bool) {
	if len(s) != 36 {
		return 0, 0, false, false
	}
	hy := s[8] == '-' && s[13] == '-' && s[18] == '-' && s[23] == '-'
	digitsOK := true
	ni := 0
	for p := 0; p < 36; p++ {
		if p == 8 || p == 13 || p == 18 || p == 23 {
			continue
		}
		c := s[p]
		var v uint64
		switch {
		case c >= '0' && c <= '9':
			v = uint64(c - '0')
		case c >= 'a' && c <= 'f':
			v = uint64(c-'a') + 10
		case allowUpper && c >= 'A' && c <= 'F':
			v = uint64(c-'A') + 10
		default:
			digitsOK = false
		}
		if ni < 16 {
			hi |= v << (60 - 4*uint(ni))
		} else {
			lo |= v << (60 - 4*uint(ni-16))
		}
		ni++
	}
	if hy && digitsOK {
		return hi, lo, true, false
	}
	return 0, 0, false, hy && !digitsOK
}

// UUIDVersion is bits 12..15 of time_hi_and_version (octet 6 high nibble).
func UUIDVersion(hi uint64) int { return int(hi >> 12 & 0xf) }

// UUIDVariant counts the leading one bits (max 3) of octet 8, which is how RFC
// 4122 section 4.1.1 distinguishes 0xx / 10x / 110 / 111.
func UUIDVariant(lo uint64) int {
	n := 0
	for i := 63; i >= 61; i-- {
		if lo>>uint(i)&1 == 0 {
			break
		}
		n++
	}
	return n
}
