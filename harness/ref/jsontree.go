package ref

import (
	"bytes"
	"encoding/json"
	"fmt"
	"io"
)

// JNode is an ordered JSON tree that keeps duplicate members and number literals.
type JNode struct {
	Kind    byte // 'n' number, 's' string, 'b' bool, 'z' null, 'a' array, 'o' object
	Num     string
	Str     string
	Bool    bool
	Elems   []JNode
	Keys    []string
	Members []JNode
}

// ParseJSONTree builds the ordered tree of exactly one JSON value. ok=false when
// the input is not exactly one well-formed JSON value (json.Valid decides; the
// standard library tokenizer is the trusted base).
func ParseJSONTree(b []byte) (JNode, bool) {
	if !json.Valid(b) {
		return JNode{}, false
	}
	d := json.NewDecoder(bytes.NewReader(b))
	d.UseNumber()
	n, err := readNode(d)
	if err != nil {
		return JNode{}, false
	}
	if _, err := d.Token(); err != io.EOF {
		return JNode{}, false
	}
	return n, true
}

func readNode(d *json.Decoder) (JNode, error) {
	t, err := d.Token()
	if err != nil {
		return JNode{}, err
	}
	switch v := t.(type) {
	case json.Number:
		return JNode{Kind: 'n', Num: string(v)}, nil
	case string:
		return JNode{Kind: 's', Str: v}, nil
	case bool:
		return JNode{Kind: 'b', Bool: v}, nil
	case nil:
		return JNode{Kind: 'z'}, nil
	case json.Delim:
		switch v {
		case '[':
			n := JNode{Kind: 'a'}
			for d.More() {
				e, err := readNode(d)
				if err != nil {
					return n, err
				}
				n.Elems = append(n.Elems, e)
			}
			if _, err := d.Token(); err != nil {
				return n, err
			}
			return n, nil
		case '{':
			n := JNode{Kind: 'o'}
			for d.More() {
				kt, err := d.Token()
				if err != nil {
					return n, err
				}
				k, ok := kt.(string)
				if !ok {
					return n, fmt.Errorf("non-string key")
				}
				m, err := readNode(d)
				if err != nil {
					return n, err
				}
				n.Keys = append(n.Keys, k)
				n.Members = append(n.Members, m)
			}
			if _, err := d.Token(); err != nil {
				return n, err
			}
			return n, nil
		}
	}
	return JNode{}, fmt.Errorf("unexpected token %v", t)
}
