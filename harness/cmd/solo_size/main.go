// solo_size links package size and nothing else of the library; see solo_roman.
package main

import (
	"encoding/json"
	"fmt"
	"math/big"

	"go.lstv.dev/util/size"

	"verif/ref"
)

func main() {
	events, fails := 0, 0
	fail := func(key, detail string) {
		fails++
		if fails <= 20 {
			fmt.Printf("FAIL key=%s %s\n", key, detail)
		}
	}
	nums := []uint64{0, 1, 7, 999, 1000, 1023, 1024, 1025, 1536, 123456789, 18014398509481984, 18446744073709551615}
	for _, u := range ref.AllUnits {
		for _, n := range nums {
			want, accept := ref.SizeProduct(new(big.Int).SetUint64(n), u)
			for name, f := range map[string]func() (size.Size, error){
				"New":    func() (size.Size, error) { return size.New(n, u) },
				"text":   func() (size.Size, error) { return size.DefaultParser(fmt.Sprint(n, u), 0) },
				"spaced": func() (size.Size, error) { return size.DefaultParser([]byte(fmt.Sprint(" ", n, " ", u, " ")), 0) },
			} {
				g, err := f()
				events++
				if accept != (err == nil) || (accept && uint64(g) != want) || (!accept && g != 0) {
					fail("arithmetic", fmt.Sprintf("form=%s number=%d unit=%q got=%d err=%v reference: accept=%v value=%d", name, n, u, g, err, accept, want))
				}
			}
		}
	}
	vals := []uint64{0, 1, 999, 1000, 1023, 1024, 1025, 1536, 1 << 20, 1<<20 + 1, 1234567890, 1 << 30, 1 << 40, 3 << 50, 1 << 60, 15 << 60, 18446744073709551615, 1000000000000000000}
	for _, v := range vals {
		s := size.Size(v)
		sv, su := ref.Shorten(v)
		gv, gu := s.Shorten()
		events++
		if uint64(gv) != sv || gu != su {
			fail("shorten", fmt.Sprintf("size=%d got=(%d,%q) want=(%d,%q)", v, gv, gu, sv, su))
		}
		if got, want := s.String(), ref.SizeText(v, false, ""); got != want {
			fail("string", fmt.Sprintf("size=%d got=%q want=%q", v, got, want))
		}
		if got, want := s.PrettyString(), ref.SizeText(v, true, " "); got != want {
			fail("pretty", fmt.Sprintf("size=%d got=%q want=%q", v, got, want))
		}
		if got, want := string(s.PrettyHTML()), ref.SizeText(v, true, "&nbsp;"); got != want {
			fail("pretty-html", fmt.Sprintf("size=%d got=%q want=%q", v, got, want))
		}
		for _, text := range []string{s.String(), s.PrettyString()} {
			back, err := size.DefaultParser(text, 0)
			events++
			if err != nil || back != s {
				fail("rendering-parses-back", fmt.Sprintf("size=%d text=%q got=%d err=%v", v, text, back, err))
			}
		}
		b, err := json.Marshal(struct{ S size.Size }{s})
		var d struct{ S size.Size }
		uerr := json.Unmarshal(b, &d)
		events++
		if err != nil || uerr != nil || d.S != s {
			fail("json-roundtrip", fmt.Sprintf("size=%d json=%s err=%v,%v back=%d", v, b, err, uerr, d.S))
		}
		t, terr := s.MarshalText()
		var bt size.Size
		uterr := bt.UnmarshalText(t)
		if terr != nil || uterr != nil || bt != s {
			fail("text-roundtrip", fmt.Sprintf("size=%d text=%s err=%v,%v back=%d", v, t, terr, uterr, bt))
		}
	}
	fmt.Printf("DONE events=%d fails=%d\n", events, fails)
}
