package main

import (
	"encoding/json"
	"errors"
	"fmt"
	"math/big"
	"strings"

	"go.lstv.dev/util/size"

	"verif/ref"
	"verif/rt"
)

// C12 — Size JSON forms are gated by rules and objects are read faithfully.

func init() {
	props["C12"] = runC12
	replayers["C12/json"] = func(v rt.Violation) string {
		c := rt.ReplayCtx("C12")
		cfg := c12Cfg{rule: size.Rule(rt.ArgInt(v, "rule")), maxKeys: int(rt.ArgInt(v, "max_object_keys")), limit: int(rt.ArgInt(v, "max_input_length"))}
		restore := c12Apply(cfg)
		defer restore()
		c.Serial("replay", func(w *rt.W) { c12Case(w, rt.ArgString(v, "input"), cfg) })
		return c.Report()
	}
}

type c12Cfg struct {
	rule    size.Rule
	maxKeys int
	limit   int
}

func c12Apply(cfg c12Cfg) func() {
	ok, ol, od := size.MaxObjectKeys, size.MaxInputLength, size.DefaultRule
	size.MaxObjectKeys, size.MaxInputLength, size.DefaultRule = cfg.maxKeys, cfg.limit, cfg.rule
	return func() { size.MaxObjectKeys, size.MaxInputLength, size.DefaultRule = ok, ol, od }
}

const (
	vAccept = iota // must be accepted with value
	vReject        // must be rejected (sentinel checked when non-nil)
	vOpen          // statement leaves acceptance open; if accepted and valueKnown the value must match
)

type c12Verdict struct {
	mode       int
	value      uint64
	valueKnown bool
	sentinel   error
	why        string
}

func acc(v uint64, why string) c12Verdict {
	return c12Verdict{mode: vAccept, value: v, valueKnown: true, why: why}
}
func rej(s error, why string) c12Verdict { return c12Verdict{mode: vReject, sentinel: s, why: why} }
func open(v uint64, known bool, why string) c12Verdict {
	return c12Verdict{mode: vOpen, value: v, valueKnown: known, why: why}
}

// c12TextVerdict is the text-grammar oracle (shared shape with C08).
func c12TextVerdict(text string, disableUnit bool) c12Verdict {
	inG, digits, unit := ref.TextSize(text)
	if inG {
		n, _ := new(big.Int).SetString(digits, 10)
		v, ok := ref.SizeProduct(n, unit)
		switch {
		case !ok:
			return rej(nil, "text: product overflows or unit unknown")
		case disableUnit && unit != "":
			return rej(size.ErrUnitDisabled, "text: unit present while RuleDisableUnit is set")
		}
		return acc(v, "text: in grammar")
	}
	if digits == "" {
		t := strings.TrimLeft(text, " ")
		if !strings.ContainsAny(text, "0123456789") || (t != "" && strings.ContainsRune("-+.", rune(t[0]))) {
			return rej(nil, "text: no number")
		}
		return open(0, false, "text: separator before the first digit")
	}
	n, _ := new(big.Int).SetString(digits, 10)
	v, ok := ref.SizeProduct(n, sepStrip.Replace(unit))
	if !ok {
		return rej(nil, "text: outside grammar and unit unknown / overflow")
	}
	return open(v, true, "text: separator placement the statement does not list")
}

func plainDigits(s string) bool {
	if s == "" {
		return false
	}
	for i := 0; i < len(s); i++ {
		if s[i] < '0' || s[i] > '9' {
			return false
		}
	}
	return true
}

// c12NumberVerdict judges a JSON number literal as a byte count.
func c12NumberVerdict(lit string) c12Verdict {
	if plainDigits(lit) {
		n, _ := new(big.Int).SetString(lit, 10)
		if n.IsUint64() {
			return acc(n.Uint64(), "number: plain non-negative integer")
		}
		return rej(nil, "number: integer >= 2^64")
	}
	if len(lit) > 48 {
		return open(0, false, "number: long non-plain literal")
	}
	if i := strings.IndexAny(lit, "eE"); i >= 0 && len(lit)-i > 5 {
		return open(0, false, "number: large exponent")
	}
	r, ok := new(big.Rat).SetString(lit)
	if !ok {
		return open(0, false, "number: unparsable by the oracle")
	}
	switch {
	case r.Sign() < 0:
		return rej(nil, "number: negative")
	case !r.IsInt():
		return rej(nil, "number: fraction")
	case r.Sign() == 0:
		return open(0, true, "number: zero written with sign/fraction/exponent")
	case r.Num().IsUint64():
		return open(r.Num().Uint64(), true, "number: integral value written with fraction/exponent")
	}
	return rej(nil, "number: >= 2^64")
}

// c12ObjectVerdict judges an object document.
func c12ObjectVerdict(n ref.JNode, cfg c12Cfg) c12Verdict {
	var causes []error
	noSentinel := 0
	openReasons := 0
	openNumber := 0
	nValue, nUnit, nUnknown := 0, 0, 0
	var valueNode, unitNode *ref.JNode
	for i, k := range n.Keys {
		switch strings.ToLower(k) {
		case "value":
			nValue++
			if valueNode == nil {
				valueNode = &n.Members[i]
			}
			if n.Members[i].Kind != 'n' {
				causes = append(causes, size.ErrInvalidType)
			}
		case "unit":
			nUnit++
			if unitNode == nil {
				unitNode = &n.Members[i]
			}
			if n.Members[i].Kind != 's' {
				causes = append(causes, size.ErrInvalidType)
			}
		default:
			nUnknown++
			for _, c := range k {
				if c > 127 {
					openReasons++ // keys that could equal value/unit only through non-ASCII case folding
				}
			}
		}
	}
	if nValue == 0 {
		causes = append(causes, size.ErrMissingValueKey)
	}
	if nUnit == 0 {
		causes = append(causes, size.ErrMissingUnitKey)
	}
	if nValue > 1 {
		causes = append(causes, size.ErrDuplicatedValueKey)
	}
	if nUnit > 1 {
		causes = append(causes, size.ErrDuplicatedUnitKey)
	}
	if cfg.maxKeys != 0 && len(n.Keys) > cfg.maxKeys {
		causes = append(causes, size.ErrObjectTooBig)
	}
	if nUnknown > 0 && cfg.rule&size.RuleDisallowUnknownKeys != 0 {
		causes = append(causes, size.ErrUnexpectedKey)
	}
	var val uint64
	valKnown := false
	// every value member that is a number must be a plain byte count on its own
	var firstNum c12Verdict
	for i, k := range n.Keys {
		if strings.ToLower(k) == "value" && n.Members[i].Kind == 'n' {
			nv := c12NumberVerdict(n.Members[i].Num)
			if &n.Members[i] == valueNode {
				firstNum = nv
			}
			switch nv.mode {
			case vReject:
				noSentinel++
			case vOpen:
				openReasons++
				openNumber++
			}
		}
	}
	if nValue == 1 && nUnit == 1 && valueNode.Kind == 'n' && unitNode.Kind == 's' && firstNum.mode != vReject && firstNum.valueKnown {
		v, ok := ref.SizeProduct(new(big.Int).SetUint64(firstNum.value), unitNode.Str)
		if !ok {
			noSentinel++
		} else {
			val, valKnown = v, true
		}
	}
	if cfg.rule&size.RuleDisableUnit != 0 {
		openReasons++ // the statement does not say whether RuleDisableUnit reaches inside JSON forms
	}
	switch {
	case len(causes) == 0 && noSentinel == 0 && openReasons == 0:
		return acc(val, "object: well formed")
	case len(causes) == 0 && noSentinel == 0:
		return open(val, valKnown, "object: acceptance left open")
	case len(causes) == 1 && noSentinel == 0 && openNumber == 0:
		return rej(causes[0], "object: single cause")
	}
	return rej(nil, "object: several causes")
}

// c12Expect is the complete oracle: what must the parser do with this input under cfg.
func c12Expect(input string, cfg c12Cfg) c12Verdict {
	if cfg.limit != 0 && len(input) > cfg.limit {
		return rej(size.ErrInputTooLong, "input longer than MaxInputLength")
	}
	jsonMode := cfg.rule&(size.RuleEnableJSONStringForm|size.RuleEnableJSONObjectForm) != 0
	if !jsonMode {
		return c12TextVerdict(input, cfg.rule&size.RuleDisableUnit != 0)
	}
	n, ok := ref.ParseJSONTree([]byte(input))
	if !ok {
		return rej(nil, "not exactly one well-formed JSON value")
	}
	switch n.Kind {
	case 'n':
		return c12NumberVerdict(n.Num)
	case 's':
		if cfg.rule&size.RuleEnableJSONStringForm == 0 {
			return rej(size.ErrStringFormDisabled, "string form not enabled")
		}
		v := c12TextVerdict(n.Str, false)
		if cfg.rule&size.RuleDisableUnit != 0 && v.mode == vAccept {
			_, _, unit := ref.TextSize(n.Str)
			if unit != "" {
				return open(v.value, true, "RuleDisableUnit with a unit inside a JSON string")
			}
		}
		return v
	case 'o':
		if cfg.rule&size.RuleEnableJSONObjectForm == 0 {
			return rej(size.ErrObjectFormDisabled, "object form not enabled")
		}
		return c12ObjectVerdict(n, cfg)
	}
	return rej(nil, "array, bool or null")
}

func sizeTyped(err error) bool {
	var ps *size.ParseError[string]
	var pb *size.ParseError[[]byte]
	return errors.As(err, &ps) || errors.As(err, &pb)
}

// c12Case runs every entry point on one input under cfg (globals already set).
func c12Case(w *rt.W, input string, cfg c12Cfg) c12Verdict {
	v := c12Expect(input, cfg)
	type res struct {
		path string
		got  size.Size
		err  error
	}
	var rs []res
	g, err := size.DefaultParser(input, cfg.rule)
	rs = append(rs, res{"DefaultParser[string]", g, err})
	g, err = size.DefaultParser([]byte(input), cfg.rule)
	rs = append(rs, res{"DefaultParser[[]byte]", g, err})
	{
		var s size.Size
		err := s.UnmarshalJSON([]byte(input)) // uses DefaultRule == cfg.rule
		rs = append(rs, res{"Size.UnmarshalJSON", s, err})
	}
	// Size.UnmarshalText always parses in text mode under DefaultRule's RuleDisableUnit bit (DefaultRule == cfg.rule here)
	vText := v
	if cfg.limit == 0 || len(input) <= cfg.limit {
		vText = c12TextVerdict(input, cfg.rule&size.RuleDisableUnit != 0)
	}
	{
		var s size.Size
		err := s.UnmarshalText([]byte(input))
		rs = append(rs, res{"Size.UnmarshalText", s, err})
	}
	{
		g, err := size.Parser([]byte(input), cfg.rule)
		rs = append(rs, res{"Parser variable", g, err})
		rec := append(append(make([]byte, 0, len(input)+8), input...), `,"x":1}`...)
		g, err = size.DefaultParser(rec[:len(input)], cfg.rule|1<<11) // an undefined extra rule bit changes nothing
		rs = append(rs, res{"DefaultParser[[]byte] on a sub-slice (extra rule bit)", g, err})
		if string(rec[len(input):]) != `,"x":1}` {
			w.Fail("parser-wrote-behind-input", "json", rt.Args("input", input, "rule", int(cfg.rule), "max_object_keys", cfg.maxKeys, "max_input_length", cfg.limit), string(rec), input+`,"x":1}`, "the parser wrote into the caller's buffer behind the input")
		}
	}
	w.Eval(int64(len(rs)))
	jsonV := v
	for _, r := range rs {
		v := jsonV
		if r.path == "Size.UnmarshalText" {
			v = vText
		}
		fail := func(key, got, want string) {
			w.Fail(key, "json", rt.Args("input", input, "rule", int(cfg.rule), "max_object_keys", cfg.maxKeys, "max_input_length", cfg.limit, "path", r.path, "oracle", v.why), got, want, r.path+" disagrees with the JSON-form oracle ("+v.why+")")
		}
		if r.err != nil && r.got != 0 {
			fail("nonzero-with-error", fmt.Sprint(uint64(r.got)), "0")
		}
		if r.err != nil && !sizeTyped(r.err) {
			fail("untyped-error", fmt.Sprintf("%T", r.err), "*size.ParseError[T]")
		}
		switch v.mode {
		case vAccept:
			if r.err != nil {
				key := "valid-refused"
				if errors.Is(r.err, size.ErrObjectTooBig) {
					key = "valid-refused-object-too-big"
				}
				fail(key, "err="+r.err.Error(), fmt.Sprint(v.value))
			} else if uint64(r.got) != v.value {
				fail("wrong-value", fmt.Sprint(uint64(r.got)), fmt.Sprint(v.value))
			}
		case vReject:
			if r.err == nil {
				key := "invalid-accepted"
				switch {
				case strings.HasPrefix(v.why, "not exactly one"):
					key = "malformed-or-trailing-input-accepted"
				case v.sentinel != nil:
					key = "invalid-accepted-" + strings.ReplaceAll(v.sentinel.Error(), " ", "-")
				}
				fail(key, fmt.Sprint("accepted as ", uint64(r.got)), "rejected")
			} else if v.sentinel != nil && !errors.Is(r.err, v.sentinel) {
				fail("wrong-sentinel-"+strings.ReplaceAll(v.sentinel.Error(), " ", "-"), r.err.Error(), v.sentinel.Error())
			}
		case vOpen:
			w.DontCare(v.why)
			if r.err == nil && v.valueKnown && uint64(r.got) != v.value {
				fail("open-zone-accepted-with-changed-value", fmt.Sprint(uint64(r.got)), fmt.Sprint(v.value))
			}
		}
	}
	return v
}

// ---------------------------------------------------------------- generators

func jsonQuote(r *rt.Rand, s string) string {
	var sb strings.Builder
	sb.WriteByte('"')
	for _, c := range []byte(s) {
		switch {
		case c == '"' || c == '\\':
			sb.WriteByte('\\')
			sb.WriteByte(c)
		case c < 0x20:
			fmt.Fprintf(&sb, "\\u%04x", c)
		case c < 0x80 && r != nil && r.Chance(1, 12):
			fmt.Fprintf(&sb, "\\u%04X", c)
		default:
			sb.WriteByte(c)
		}
	}
	sb.WriteByte('"')
	return sb.String()
}

func genWS(r *rt.Rand) string {
	if r.Chance(3, 4) {
		return ""
	}
	return []string{" ", "\n", "\t", "\r\n", "  "}[r.Intn(5)]
}

func genJSONNumber(r *rt.Rand) string {
	switch r.Intn(14) {
	case 0:
		return "0"
	case 1:
		return fmt.Sprint(r.Intn(2000))
	case 2:
		return fmt.Sprint(r.U64())
	case 3:
		return []string{"18446744073709551615", "18446744073709551616", "18446744073709551614", "9223372036854775808", "99999999999999999999", "184467440737095516150"}[r.Intn(6)]
	case 4:
		return "-" + fmt.Sprint(1+r.Intn(100))
	case 5:
		return []string{"-0", "0.0", "0e0", "-0.0", "0E5"}[r.Intn(5)]
	case 6:
		return fmt.Sprintf("%d.%d", r.Intn(100), 1+r.Intn(9))
	case 7:
		return fmt.Sprintf("%d.0", r.Intn(1000))
	case 8:
		return fmt.Sprintf("%de%d", 1+r.Intn(9), r.Intn(22))
	case 9:
		return fmt.Sprintf("%dE-%d", 1+r.Intn(999), r.Intn(4))
	case 10:
		return "1" + strings.Repeat("0", 18+r.Intn(8))
	case 11:
		return fmt.Sprintf("%d.%de%d", r.Intn(10), r.Intn(1000), r.Intn(5))
	}
	return fmt.Sprint(r.U64() >> uint(r.Intn(64)))
}

func genJSONAny(r *rt.Rand, depth int) string {
	k := r.Intn(8)
	if depth <= 0 && k >= 6 {
		k = r.Intn(6)
	}
	switch k {
	case 0:
		return genJSONNumber(r)
	case 1:
		return jsonQuote(r, []string{"value", "unit", "kB", "10kB", "", "x", "}", "]", "\"", "{\"value\":1}"}[r.Intn(10)])
	case 2:
		return "true"
	case 3:
		return "false"
	case 4:
		return "null"
	case 5:
		return jsonQuote(r, r.StringFrom("abc {}[]:,\"\\", r.Intn(6)))
	case 6:
		n := r.Intn(4)
		parts := make([]string, n)
		for i := range parts {
			parts[i] = genWS(r) + genJSONAny(r, depth-1) + genWS(r)
		}
		return "[" + strings.Join(parts, ",") + "]"
	}
	n := r.Intn(4)
	parts := make([]string, n)
	for i := range parts {
		key := []string{"value", "unit", "Value", "UNIT", "a", "b", "", "x y"}[r.Intn(8)]
		parts[i] = genWS(r) + jsonQuote(r, key) + genWS(r) + ":" + genWS(r) + genJSONAny(r, depth-1) + genWS(r)
	}
	return "{" + strings.Join(parts, ",") + "}"
}

func caseVariantKey(r *rt.Rand, k string) string {
	switch r.Intn(5) {
	case 0:
		return strings.ToUpper(k)
	case 1:
		return strings.ToUpper(k[:1]) + k[1:]
	case 2:
		b := []byte(k)
		for i := range b {
			if r.Bool() {
				b[i] -= 32
			}
		}
		return string(b)
	}
	return k
}

// genObjectMembers returns the rendered members ("key":value) of one object document.
func genObjectMembers(r *rt.Rand, cfg c12Cfg) []string {
	var ms []string
	member := func(key, val string) {
		ms = append(ms, genWS(r)+jsonQuote(r, key)+genWS(r)+":"+genWS(r)+val+genWS(r))
	}
	nValue, nUnit := 1, 1
	switch r.Intn(12) {
	case 0:
		nValue = 0
	case 1:
		nUnit = 0
	case 2:
		nValue = 2
	case 3:
		nUnit = 2
	case 4:
		nValue, nUnit = 0, 0
	}
	for i := 0; i < nValue; i++ {
		var v string
		switch r.Intn(10) {
		case 0:
			v = genJSONNumber(r)
		case 1:
			v = []string{`"1"`, "true", "null", "[1]", `{"value":1}`, `""`, "false", "[]", "{}"}[r.Intn(9)]
		default:
			v = fmt.Sprint(r.U64() >> uint(r.Intn(64)))
			if r.Bool() {
				v = fmt.Sprint(r.Intn(20000))
			}
		}
		member(caseVariantKey(r, "value"), v)
	}
	for i := 0; i < nUnit; i++ {
		var v string
		switch r.Intn(10) {
		case 0:
			v = []string{"1", "true", "null", `["B"]`, `{"unit":"B"}`, "0", "false"}[r.Intn(7)]
		case 1:
			v = jsonQuote(r, []string{"kb", "KB", " kB", "kB ", "b", "bytes", "K", "\x00", "é"}[r.Intn(9)])
		default:
			v = jsonQuote(r, ref.AllUnits[r.Intn(len(ref.AllUnits))])
		}
		member(caseVariantKey(r, "unit"), v)
	}
	nUnknown := []int{0, 0, 0, 1, 1, 2, 3, 4}[r.Intn(8)]
	if cfg.maxKeys > 0 && r.Chance(1, 3) { // member counts at MaxObjectKeys-1, =, +1
		target := cfg.maxKeys - 1 + r.Intn(3)
		if target-len(ms) >= 0 && target-len(ms) <= 17 {
			nUnknown = target - len(ms)
		}
	}
	for i := 0; i < nUnknown; i++ {
		key := []string{"a", "b", "note", "values", "units", "value ", " unit", "valu", "unitt", "", "VALUE_", "x"}[r.Intn(12)] + fmt.Sprint(i)
		member(key, genJSONAny(r, 4))
	}
	return ms
}

func permute(ms []string, r *rt.Rand, max int, visit func([]string)) {
	n := len(ms)
	if n <= 1 {
		visit(ms)
		return
	}
	total := 1
	for i := 2; i <= n && total <= max; i++ {
		total *= i
	}
	if total <= max {
		idx := make([]int, n)
		for i := range idx {
			idx[i] = i
		}
		var rec func(k int)
		out := make([]string, n)
		rec = func(k int) {
			if k == n {
				for i, j := range idx {
					out[i] = ms[j]
				}
				visit(out)
				return
			}
			for i := k; i < n; i++ {
				idx[k], idx[i] = idx[i], idx[k]
				rec(k + 1)
				idx[k], idx[i] = idx[i], idx[k]
			}
		}
		rec(0)
		return
	}
	out := append([]string(nil), ms...)
	for s := 0; s < 12; s++ {
		for i := n - 1; i > 0; i-- {
			j := r.Intn(i + 1)
			out[i], out[j] = out[j], out[i]
		}
		visit(out)
	}
}

var c12Suffixes = []string{" ", "x", " 1", "}", "]", ",", " {}", "\n\n", "\x00", `"`, ":", " null"}

func init() {
	docs := []string{`{"value":0,"unit":"B"}`, `0`, `"0B"`, `{"unit":"YiB","value":0}`, `{"x":[{"value":1}],"VALUE":3,"Unit":"KiB"}`, `"1 000 kB"`, `18446744073709551615`, `{"value":1}`, `[]`}
	coldCases["C12"] = func(c *rt.Ctx, idx int) {
		cfg := c12Cfg{rule: size.RuleEnableJSONStringForm | size.RuleEnableJSONObjectForm, maxKeys: []int{16, 0, 2}[idx%3]}
		restore := c12Apply(cfg)
		defer restore()
		coldGeneric([]func(){
			func() { _, _ = size.DefaultParser(`{"value":0,"unit":"B"}`, cfg.rule) },
			func() { var s size.Size; _ = s.UnmarshalJSON([]byte(`0`)) },
			func() { _, _ = size.DefaultParser(`{"unit":"ZB","value":0,"x":{}}`, cfg.rule) },
			func() { _, _ = size.DefaultParser(`{"value":1}`, cfg.rule|size.RuleDisallowUnknownKeys) },
			func() {},
		}, func(w *rt.W, k int) { c12Case(w, docs[k], cfg) }, len(docs))(c, idx)
	}
}

func runC12(c *rt.Ctx) {
	callerEditsReturnedErrors(c, map[string]func() error{
		"size.DefaultParser[string](object without value, object form)": func() error { _, err := size.DefaultParser(`{"unit":"kB"}`, size.RuleEnableJSONObjectForm); return err },
		"size.DefaultParser[[]byte](object, rule without object form)": func() error {
			_, err := size.DefaultParser([]byte(`{"value":1,"unit":"kB"}`), size.RuleEnableJSONStringForm)
			return err
		},
		"size.DefaultParser[string](JSON string, rule without it)": func() error { _, err := size.DefaultParser(`"1kB"`, size.RuleEnableJSONObjectForm); return err },
		"size.DefaultParser[string](1xb, 0)":                       func() error { _, err := size.DefaultParser("1xb", 0); return err },
		"size.DefaultParser[string](duplicated key)": func() error {
			_, err := size.DefaultParser(`{"value":1,"value":2,"unit":"B"}`, size.RuleEnableJSONObjectForm)
			return err
		},
		"size.Parser variable(-1)":  func() error { _, err := size.Parser([]byte("-1"), size.DefaultRule); return err },
		"Size.UnmarshalJSON([1])":   func() error { var s size.Size; return s.UnmarshalJSON([]byte("[1]")) },
		"Size.UnmarshalText(1 ZiB)": func() error { var s size.Size; return s.UnmarshalText([]byte("1 ZiB")) },
	})
	c.SetRule("seeded AST-generated JSON documents: numbers (integers incl. 0, 2^64-1, 2^64; negatives; fractions; exponents), strings in and out of the text grammar with JSON escapes, true/false/null, arrays, objects with value/unit/unknown members (scalars and nested arrays/objects to depth 4 containing keys named value/unit), key-case variants, duplicates, type confusions, member counts at MaxObjectKeys-1/=/+1; " +
		"every permutation of the members (<= 5 members; 12 shuffles above), every truncation point and a set of trailing suffixes of each document; x all 16 rule subsets x MaxObjectKeys in {0,1,2,3,16} (a small pool through the full 80-configuration cross, a large pool through 20 of them) x {string, []byte, Size.UnmarshalJSON}. " +
		"distinct_nontrivial counts distinct (document, rules, limit) triples (by hash) whose document is an object with >= 3 members or a malformed/trailing variant of a valid document")
	c.Assume("well-formedness is json.Valid, the ordered member tree comes from encoding/json's tokenizer (harness/ref/jsontree.go); arithmetic and text grammar from harness/ref/size.go")
	{
		cfgAll := c12Cfg{rule: size.RuleEnableJSONStringForm | size.RuleEnableJSONObjectForm, maxKeys: 16}
		ok := true
		chk := func(in string, cfg c12Cfg, mode int, val uint64, sent error) {
			v := c12Expect(in, cfg)
			if v.mode != mode || (mode == vAccept && v.value != val) || (mode == vReject && sent != nil && v.sentinel != sent) {
				ok = false
			}
		}
		chk(`{"unit":"KiB","x":[{"value":9}],"VALUE":2}`, cfgAll, vAccept, 2048, nil)
		chk(`{"value":1,"value":1,"unit":"B"}`, cfgAll, vReject, 0, size.ErrDuplicatedValueKey)
		chk(`{"value":1}`, cfgAll, vReject, 0, size.ErrMissingUnitKey)
		chk(`{"value":"1","unit":"B"}`, cfgAll, vReject, 0, size.ErrInvalidType)
		chk(`{"a":1,"value":1,"unit":"B"}`, c12Cfg{rule: cfgAll.rule, maxKeys: 2}, vReject, 0, size.ErrObjectTooBig)
		chk(`{"a":1,"value":1,"unit":"B"}`, c12Cfg{rule: cfgAll.rule, maxKeys: 0}, vAccept, 1, nil)
		chk(`{"a":1,"value":1,"unit":"B"}`, c12Cfg{rule: cfgAll.rule | size.RuleDisallowUnknownKeys, maxKeys: 0}, vReject, 0, size.ErrUnexpectedKey)
		chk(`10 20`, cfgAll, vReject, 0, nil)
		chk(`{"value":1,"unit":"B"`, cfgAll, vReject, 0, nil)
		chk(`"10 kB"`, cfgAll, vAccept, 10000, nil)
		chk(`"10 kB"`, c12Cfg{rule: size.RuleEnableJSONObjectForm}, vReject, 0, size.ErrStringFormDisabled)
		chk(`{"value":1,"unit":"B"}`, c12Cfg{rule: size.RuleEnableJSONStringForm}, vReject, 0, size.ErrObjectFormDisabled)
		chk(`18446744073709551616`, cfgAll, vReject, 0, nil)
		chk(`1e2`, cfgAll, vOpen, 100, nil)
		chk(`-1`, cfgAll, vReject, 0, nil)
		chk(`[1]`, cfgAll, vReject, 0, nil)
		c.SelfTest("oracle-vectors", ok)
		sc := rt.ReplayCtx("C12")
		sc.Serial("selftest", func(w *rt.W) { w.Fail("k", "json", nil, "accepted as 10", "rejected", "synthetic trailing input") })
		c.SelfTest("monitor-records-a-mismatch", sc.Violations() == 1)
	}

	var cfgs []c12Cfg
	for _, k := range []int{16, 0, 2, 3, 1} {
		for r := 0; r < 16; r++ {
			// size.Rule bits: DisableUnit, EnableJSONStringForm, EnableJSONObjectForm, DisallowUnknownKeys
			var rule size.Rule
			for i, b := range []size.Rule{size.RuleDisableUnit, size.RuleEnableJSONStringForm, size.RuleEnableJSONObjectForm, size.RuleDisallowUnknownKeys} {
				if r>>uint(i)&1 == 1 {
					rule |= b
				}
			}
			cfgs = append(cfgs, c12Cfg{rule: rule, maxKeys: k})
		}
	}
	smallPool := c.Pick(1500, 12000)
	largePool := c.Pick(24000, 400000)
	defer c12Apply(c12Cfg{rule: size.DefaultRule, maxKeys: 16, limit: 128})()

	for ci, cfg := range cfgs {
		cfg := cfg
		c12Apply(cfg)
		pool := smallPool
		isLarge := (ci+int(c.Seed))%4 == 0 || (cfg.rule == size.RuleEnableJSONStringForm|size.RuleEnableJSONObjectForm)
		if isLarge {
			pool = largePool
		}
		c.Parallel("docs", 0, func(w *rt.W) {
			r := w.Rng // same stream name for every configuration: the same documents meet every configuration
			for i := 0; i < pool/w.NShards; i++ {
				var docs []string
				isObject := false
				nMembers := 0
				switch k := r.Intn(10); {
				case k < 2:
					docs = []string{genWS(r) + genJSONNumber(r) + genWS(r)}
				case k < 4:
					t := genSizeText(r)
					if r.Chance(1, 5) {
						t = []string{"", "kB", "-1", "1.5kB", "ten", "1 k B", "\xff", "10\x00"}[r.Intn(8)]
					}
					docs = []string{genWS(r) + jsonQuote(r, t) + genWS(r)}
				case k < 5:
					docs = []string{genWS(r) + genJSONAny(r, 3) + genWS(r)}
				default:
					isObject = true
					ms := genObjectMembers(r, cfg)
					nMembers = len(ms)
					pre, post := genWS(r), genWS(r)
					maxPerm := 24
					if !c.Quick() || i%16 == 0 {
						maxPerm = 120
					}
					permute(ms, r, maxPerm, func(p []string) { docs = append(docs, pre+"{"+strings.Join(p, ",")+"}"+post) })
				}
				var firstVerdict c12Verdict
				for di, doc := range docs {
					v := c12Case(w, doc, cfg)
					if di == 0 {
						firstVerdict = v
					} else if v.mode != firstVerdict.mode || (v.mode == vAccept && v.value != firstVerdict.value) {
						w.C.Inconclusive("oracle is not order independent on " + doc)
					}
					if isObject && nMembers >= 3 {
						w.NTHash(rt.Hash64(doc, fmt.Sprint(int(cfg.rule), cfg.maxKeys)))
					}
				}
				w.ClassN(fmt.Sprintf("verdict-%d", firstVerdict.mode), int64(len(docs)))
				if isObject {
					w.ClassN("object-documents", int64(len(docs)))
					if len(docs) > 1 {
						w.ClassN("object-permutations", int64(len(docs)))
					}
					if firstVerdict.sentinel != nil {
						w.ClassN("single-cause-"+strings.ReplaceAll(firstVerdict.sentinel.Error(), " ", "-"), 1)
					}
				}
				if firstVerdict.mode == vAccept && isObject && w.Class("sample-accepted-object") {
					w.Sample("accepted-object", map[string]any{"doc": docs[0], "rule": int(cfg.rule), "max_object_keys": cfg.maxKeys, "value": firstVerdict.value})
				}
				// malformed variants: every truncation point and trailing suffixes of the first rendering
				if i%4 == 0 || !isLarge {
					doc := docs[0]
					for cut := 0; cut < len(doc); cut++ {
						c12Case(w, doc[:cut], cfg)
					}
					for _, suf := range c12Suffixes {
						c12Case(w, doc+suf, cfg)
					}
					// garbage far behind the value: beyond any read-ahead chunk of a streaming decoder (512, 4096 bytes)
					if i%c.Pick(48, 16) == 0 {
						for _, pad := range []int{500, 509, 510, 511, 512, 513, 600, 1023, 1024, 1025, 4095, 4096, 4097, 9000} {
							ws := strings.Repeat(" ", pad)
							if pad%2 == 1 {
								ws = strings.Repeat("\n ", pad/2) + "\t"
							}
							c12Case(w, doc+ws+"x", cfg)
							c12Case(w, doc+ws+"1", cfg)
							c12Case(w, doc+ws+"}", cfg)
							c12Case(w, ws+doc+ws, cfg)
							c12Case(w, doc+ws+doc, cfg)
						}
						w.ClassN("garbage-behind-long-whitespace", 1)
					}
					w.ClassN("truncations-and-suffixes", int64(len(doc)+len(c12Suffixes)))
					w.NTHash(rt.Hash64(doc, "mal", fmt.Sprint(int(cfg.rule), cfg.maxKeys)))
				}
			}
		})
	}
	// number literals that are not JSON (leading zeros, sign, bare fraction, hex, separators), top level and as members
	for _, cfg := range []c12Cfg{{rule: size.RuleEnableJSONStringForm | size.RuleEnableJSONObjectForm, maxKeys: 16}, {rule: size.RuleEnableJSONObjectForm, maxKeys: 0}, {rule: 15, maxKeys: 2}, {rule: size.RuleEnableJSONStringForm, maxKeys: 3}} {
		cfg := cfg
		c12Apply(cfg)
		c.Serial("malformed-numbers", func(w *rt.W) {
			bad := []string{"007", "00", "01", "+1", "1.", ".5", "0x10", "1e", "1e+", "-", "--1", "1_000", "1,000", "0b1", "Infinity", "NaN", "1f", "1 000", "0 7", "０７", "7.", "7e", "-07", "0.", "1.e2"}
			for _, n := range bad {
				for _, u := range []string{"B", "KiB", "", "kB"} {
					for _, doc := range []string{n, `{"value":` + n + `,"unit":"` + u + `"}`, `{"unit":"` + u + `","value":` + n + `}`, `{"value": ` + n + `, "unit": "` + u + `"}`, `{"x":` + n + `,"value":1,"unit":"` + u + `"}`, `{"value":1,"unit":"` + u + `","x":[` + n + `]}`, `[` + n + `]`, ` ` + n + ` `} {
						c12Case(w, doc, cfg)
					}
				}
				w.ClassN("malformed-number-literal", 1)
			}
			// the same layouts with well-formed numbers must still be read
			for _, n := range []string{"7", "0", "1024", "18446744073709551615"} {
				c12Case(w, `{"value":`+n+`,"unit":"B"}`, cfg)
				c12Case(w, `{"unit":"B","value":`+n+`}`, cfg)
			}
		})
	}
	c.Require("malformed-number-literal", 50)

	// well-formed JSON that hand-written tokenizers get wrong: every string escape JSON knows (\/ and surrogate
	// pairs are not Go escapes) in ignored keys, ignored values, unit strings and the value/unit keys themselves;
	// whole numbers beyond 2^53 written with a fraction or an exponent (acceptance is open, the value is not)
	for _, cfg := range []c12Cfg{{rule: size.RuleEnableJSONStringForm | size.RuleEnableJSONObjectForm, maxKeys: 16}, {rule: size.RuleEnableJSONObjectForm, maxKeys: 0}, {rule: size.RuleEnableJSONStringForm | size.RuleEnableJSONObjectForm | size.RuleDisallowUnknownKeys, maxKeys: 3}} {
		cfg := cfg
		c12Apply(cfg)
		c.Serial("json-escapes-and-big-numbers", func(w *rt.W) {
			escs := []string{`\/`, `\ud83d\ude00`, `\u0000`, `\b`, `\f`, `\n`, `\r`, `\t`, `\"`, `\\`, `\ud800`, `\udc00\ud800`, `\u00e9`, `\u2028`, `a\/b\/c`, `http:\/\/x\/y`, `\ud83d\ude00\ud83d\ude00`, `\u0041`, "\u00e9", "\U0001F600"}
			for _, e := range escs {
				for _, doc := range []string{
					`{"note":"` + e + `","value":3,"unit":"kB"}`, `{"value":3,"note":"` + e + `","unit":"kB"}`, `{"value":3,"unit":"kB","note":"` + e + `"}`,
					`{"` + e + `":1,"value":3,"unit":"kB"}`, `{"value":3,"unit":"kB","x":["` + e + `",{"` + e + `":"` + e + `"}]}`,
					`{"value":3,"unit":"kB` + e + `"}`, `{"value":3,"unit":"` + e + `kB"}`, `{"value` + e + `":3,"unit":"kB"}`, `"3kB` + e + `"`, `"` + e + `"`,
				} {
					c12Case(w, doc, cfg)
				}
				w.ClassN("json-string-escape", 1)
			}
			// escapes that spell ordinary letters: "\u004biB" is KiB, "\u0076alue" is value
			for _, doc := range []string{`{"value":3,"unit":"\u004biB"}`, `{"\u0076alue":3,"unit":"KiB"}`, `{"value":3,"\u0075nit":"Ki\u0042"}`, `{"VAL\u0055E":3,"UNI\u0054":"\u006bB"}`, `"3\u0020kB"`, `"3\u006bB"`, `"\u0033kB"`} {
				c12Case(w, doc, cfg)
			}
			for _, n := range []string{"9007199254740993", "9007199254740992", "9007199254740991", "18446744073709551615", "18014398509481985", "12345678901234567891", "1152921504606846977", "9223372036854775807", "10000000000000000001"} {
				forms := []string{n + ".0", n + ".000", n + "e0", n + "E+0", n + "e-0", n + ".0e0", n + "0e-1", n + "00E-2"}
				if strings.HasSuffix(n, "1") || strings.HasSuffix(n, "5") || strings.HasSuffix(n, "7") || strings.HasSuffix(n, "3") || strings.HasSuffix(n, "2") {
					forms = append(forms, n[:len(n)-1]+"."+n[len(n)-1:]+"e1", n[:1]+"."+n[1:]+"e"+fmt.Sprint(len(n)-1))
				}
				for _, f := range forms {
					for _, doc := range []string{f, `{"value":` + f + `,"unit":"B"}`, `{"unit":"B","value":` + f + `}`, `{"value":` + f + `,"unit":"B","x":` + f + `}`, ` ` + f + ` `} {
						c12Case(w, doc, cfg)
					}
				}
				w.ClassN("whole-number-beyond-2^53-with-fraction-or-exponent", 1)
			}
		})
	}
	c.Require("json-string-escape", 50)
	c.Require("whole-number-beyond-2^53-with-fraction-or-exponent", 20)

	// ignored members of any nesting depth, and numbers inside them that no float can hold
	for _, cfg := range []c12Cfg{{rule: size.RuleEnableJSONStringForm | size.RuleEnableJSONObjectForm, maxKeys: 16}, {rule: size.RuleEnableJSONObjectForm, maxKeys: 0}} {
		cfg := cfg
		c12Apply(cfg)
		c.Parallel("deep-ignored-members", 0, func(w *rt.W) {
			depths := []int{1, 2, 3, 5, 8, 15, 16, 17, 23, 24, 25, 26, 31, 32, 33, 50, 63, 64, 65, 100, 127, 128, 129, 255, 256, 257, 500, 1000, 5000, 9999}
			for di := w.Shard; di < len(depths); di += w.NShards {
				n := depths[di]
				for _, shape := range []func(int) string{
					func(n int) string { return strings.Repeat("[", n) + strings.Repeat("]", n) },
					func(n int) string { return strings.Repeat(`{"a":`, n) + "1" + strings.Repeat("}", n) },
					func(n int) string {
						return strings.Repeat(`[{"value":`, n/2+1) + `"unit"` + strings.Repeat("}]", n/2+1)
					},
					func(n int) string {
						return strings.Repeat("[", n) + `{"unit":"EiB","value":9}` + strings.Repeat("]", n)
					},
				} {
					deep := shape(n)
					c12Case(w, `{"x":`+deep+`,"value":3,"unit":"KiB"}`, cfg)
					c12Case(w, `{"value":3,"x":`+deep+`,"unit":"KiB"}`, cfg)
					c12Case(w, `{"value":3,"unit":"KiB","x":`+deep+`}`, cfg)
				}
				w.ClassN("deep-ignored-member", 1)
			}
			if w.Shard == 0 {
				for _, num := range []string{"1e400", "-1e999", "1E-400", "1e308", "1e309", "2e308", "-1.5e5000", "1" + strings.Repeat("0", 400), "0." + strings.Repeat("0", 400) + "1", "123456789012345678901234567890.5"} {
					c12Case(w, `{"value":2,"unit":"MiB","ratio":`+num+`}`, cfg)
					c12Case(w, `{"ratio":[`+num+`,{"r":`+num+`}],"value":2,"unit":"MiB"}`, cfg)
					c12Case(w, `{"value":2,"ratio":{"value":`+num+`},"unit":"MiB"}`, cfg)
					w.ClassN("ignored-number-beyond-float64", 1)
				}
			}
		})
	}
	c.Require("deep-ignored-member", 25)
	c.Require("ignored-number-beyond-float64", 10)

	// bytes that editors, transports and other languages put around a JSON value and that are
	// not JSON: byte order marks, non-ASCII and control "white space", comments, record separators,
	// XSSI guards. In front of, behind, and (for the BOM) inside otherwise valid documents.
	{
		junk := []string{"\xef\xbb\xbf", "\xff\xfe", "\xfe\xff", "\xef\xbb", "\xef", "\u00a0", "\u2028", "\u2029", "\u0085", "\u3000", "\u200b", "\v", "\f", "\x00", "\x1a", "\x1e", "\x7f", "\b",
			"//c\n", "/**/", "#c\n", ")]}'\n", ";", "\\n", "\\ufeff", "\xc2", "\x80", "\xe2\x80", "=", "(", "<!---->"}
		bases := []string{`0`, `10`, `"10 kB"`, `"0"`, `{"value":1,"unit":"KiB"}`, `{"unit":"B","value":0}`, `{"value":1,"unit":"KiB","x":[1,{"a":"b"}]}`, ` 7 `, "\n{\n \"value\": 2,\n \"unit\": \"MB\"\n}\n", `18446744073709551615`, `""`, `{}`, `null`}
		for _, cfg := range []c12Cfg{{rule: size.RuleEnableJSONStringForm | size.RuleEnableJSONObjectForm, maxKeys: 16}, {rule: size.RuleEnableJSONObjectForm | size.RuleDisallowUnknownKeys, maxKeys: 0}, {rule: size.RuleEnableJSONStringForm, maxKeys: 2}, {rule: 15, maxKeys: 3}} {
			cfg := cfg
			c12Apply(cfg)
			c.Parallel("non-json-bytes-around-documents", 0, func(w *rt.W) {
				for ji := w.Shard; ji < len(junk); ji += w.NShards {
					j := junk[ji]
					for _, b := range bases {
						for _, doc := range []string{j + b, b + j, j + b + j, j + " " + b, b + " " + j, " " + j + b, b + j + " ", j + j + b, j} {
							c12Case(w, doc, cfg)
						}
						if i := strings.IndexByte(b, ':'); i > 0 {
							c12Case(w, b[:i]+j+b[i:], cfg)
							c12Case(w, b[:i+1]+j+b[i+1:], cfg)
							c12Case(w, b[:1]+j+b[1:], cfg)
							c12Case(w, b[:len(b)-1]+j+b[len(b)-1:], cfg)
						}
						w.ClassN("non-json-bytes-around-document", 1)
						w.NTHash(rt.Hash64(j, b, fmt.Sprint(int(cfg.rule))))
					}
				}
			})
		}
		c.Require("non-json-bytes-around-document", 400)
	}

	// unknown keys that a parser classifying keys by anything less than their full text would take
	// for "value" or "unit": same checksum under cheap hash functions (collide_keys.go), same length
	// and first letter, same letters in another order, same prefix or suffix
	{
		okKeys, badKeys := verifyCollidingKeys()
		c.SelfTest("listed-colliding-keys-collide", len(badKeys) == 0 && okKeys >= 40)
		c.Extra("checksum_colliding_keys_verified", okKeys)
		type lk struct{ key, target, class string }
		var keys []lk
		for _, e := range collidingKeys {
			keys = append(keys, lk{e.key, e.target, "checksum-colliding-key:" + e.hash})
		}
		for _, k := range []string{"valid", "venue", "vague", "vxxxe", "eulav", "valeu", "vaule", "v", "va", "val", "valu", "values", "valuee", "xvalue", "value_", "_value", "value\x00", "valu\u00e9", "v\u00e4lue", "value1"} {
			keys = append(keys, lk{k, "value", "near-miss-key"})
		}
		for _, k := range []string{"unix", "uint", "tinu", "nuit", "uxxt", "u", "un", "uni", "units", "unitt", "xunit", "unit_", "_unit", "unit\x00", "\u00fcnit", "un\u0131t", "unit1"} {
			keys = append(keys, lk{k, "unit", "near-miss-key"})
		}
		for _, cfg := range []c12Cfg{{rule: size.RuleEnableJSONStringForm | size.RuleEnableJSONObjectForm, maxKeys: 16}, {rule: size.RuleEnableJSONObjectForm, maxKeys: 0}, {rule: size.RuleEnableJSONObjectForm | size.RuleDisallowUnknownKeys, maxKeys: 16}, {rule: size.RuleEnableJSONObjectForm, maxKeys: 3}} {
			cfg := cfg
			c12Apply(cfg)
			c.Parallel("keys-resembling-value-and-unit", 0, func(w *rt.W) {
				for ki := w.Shard; ki < len(keys); ki += w.NShards {
					k := keys[ki]
					for _, kv := range []string{k.key, strings.ToUpper(k.key), strings.ToUpper(k.key[:1]) + k.key[1:]} {
						q, _ := json.Marshal(kv)
						other := `7`
						if k.target == "unit" {
							other = `"MiB"`
						}
						for _, ms := range [][]string{
							{string(q) + ":" + other, `"value":1`, `"unit":"KiB"`},
							{string(q) + ":" + other, `"unit":"KiB"`},
							{string(q) + ":" + other, `"value":1`},
							{string(q) + ":" + other, `"Value":3`, `"UNIT":"kB"`, `"z":null`},
							{string(q) + ":null", `"value":0`, `"unit":"B"`},
							{string(q) + `:{"value":5,"unit":"GB"}`, `"value":2`, `"unit":"B"`},
							{string(q) + ":" + other},
						} {
							permute(ms, w.Rng, 24, func(p []string) { c12Case(w, "{"+strings.Join(p, ",")+"}", cfg) })
						}
					}
					w.ClassN(k.class, 1)
					w.ClassN("keys-resembling-value-or-unit", 1)
				}
			})
		}
		c.Require("keys-resembling-value-or-unit", 300)
	}

	c12Apply(c12Cfg{rule: size.RuleEnableJSONStringForm | size.RuleEnableJSONObjectForm, maxKeys: 16, limit: 0})
	refillRun(c, c.Pick(40000, 400000), "size")
	guardedInputs(c, "C12", "size", []string{"10kB", "1 024 KiB", "0", "7 B", "18446744073709551615", "16 EiB", `{"value":1,"unit":"KiB"}`, `{"unit":"B","value":0,"x":[1,{"a":"b"}]}`, `"10 kB"`, `10`, `{"value":1,"unit":"KiB"`, `{"value":1,"unit":"KiB"}x`, "1e3", `"\u0031kB"`, "k", "1k", "1ki", "1kiB", "12345678", "123456789"})
	{ // the rules passed per call change between calls (the globals stay put)
		cfgBase := c12Cfg{rule: size.RuleEnableJSONStringForm | size.RuleEnableJSONObjectForm, maxKeys: 16}
		c12Apply(cfgBase)
		var steps []func(w *rt.W)
		for _, doc := range []string{`{"value":1,"unit":"KiB"}`, `"1KiB"`, `1024`, `{"value":1,"unit":"KiB","x":1}`, `1KiB`} {
			for _, r := range []size.Rule{size.RuleEnableJSONStringForm | size.RuleEnableJSONObjectForm, size.RuleEnableJSONObjectForm, size.RuleEnableJSONStringForm, size.RuleEnableJSONObjectForm | size.RuleDisallowUnknownKeys, 0, size.RuleDisableUnit} {
				doc, r := doc, r
				steps = append(steps, func(w *rt.W) {
					v := c12Expect(doc, c12Cfg{rule: r, maxKeys: 16})
					got, err := size.DefaultParser(doc, r)
					gotB, errB := size.DefaultParser([]byte(doc), r)
					w.Eval(2)
					bad := (err == nil) != (errB == nil) || got != gotB
					switch v.mode {
					case vAccept:
						bad = bad || err != nil || uint64(got) != v.value
					case vReject:
						bad = bad || err == nil
					}
					if bad {
						w.Fail("verdict-depends-on-earlier-calls", "json", rt.Args("input", doc, "rule", int(r), "max_object_keys", 16, "max_input_length", 0, "path", "DefaultParser in a three-call history", "oracle", v.why), fmt.Sprint(uint64(got), " err=", err, " / ", uint64(gotB), " err=", errB), fmt.Sprint("mode ", v.mode, " value ", v.value), "the same (document, rule) call judged differently after other calls with other rules")
					}
				})
			}
		}
		tripleHistories(c, steps)
	}
	coldStart(c, "C12", 10)
	c12Apply(c12Cfg{rule: size.DefaultRule, maxKeys: 16, limit: 0})

	// the input limit in front of the JSON forms
	for _, limit := range []int{128, 20, 1} {
		cfg := c12Cfg{rule: size.RuleEnableJSONStringForm | size.RuleEnableJSONObjectForm, maxKeys: 16, limit: limit}
		c12Apply(cfg)
		c.Parallel("limit", 0, func(w *rt.W) {
			for i := 0; i < 2000/w.NShards; i++ {
				ms := genObjectMembers(w.Rng, cfg)
				c12Case(w, "{"+strings.Join(ms, ",")+"}", cfg)
				c12Case(w, genJSONNumber(w.Rng), cfg)
				c12Case(w, jsonQuote(w.Rng, genSizeText(w.Rng)), cfg)
				w.ClassN("under-input-limit-config", 3)
			}
		})
	}
	for _, cl := range []string{"verdict-0", "verdict-1", "verdict-2", "object-permutations", "truncations-and-suffixes", "garbage-behind-long-whitespace",
		"single-cause-missing-value-key", "single-cause-missing-unit-key", "single-cause-duplicated-value-key", "single-cause-duplicated-unit-key",
		"single-cause-invalid-type", "single-cause-object-too-big", "single-cause-unexpected-key", "single-cause-object-form-disabled"} {
		c.Require(cl, 20)
	}
}
