//go:build race

package main

const raceEnabled = true
