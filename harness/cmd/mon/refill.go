package main

import (
	"encoding/json"
	"fmt"
	"sort"
	"strings"

	"go.lstv.dev/util/date"
	"go.lstv.dev/util/roman"
	"go.lstv.dev/util/sem"
	"go.lstv.dev/util/size"
	"go.lstv.dev/util/uu"

	"verif/ref"
	"verif/rt"
)

// Refill histories. A program that reads records into one buffer (a bufio.Scanner loop, a reused
// request body, append(buf[:0], ...)) hands the parser the same backing array again and again, each
// time holding another text of - often - the same length. Anything a parser keeps from the previous
// call that refers to the caller's memory (a remembered input, a last-result memo) then describes the
// new text. The stream below writes valid documents of equal length one after another into one
// buffer and parses each from there, back to back through one entry point at a time, with the
// expected value known from the generator.

type refillItem struct{ doc, want string }

type refillEntry struct {
	name  string
	parse func(buf []byte) (string, error)
}

type refillSpec struct {
	name    string
	items   func(r *rt.Rand, n int) []refillItem
	entries []refillEntry
}

var refillSpecs = map[string]*refillSpec{}

func init() {
	dateWant := func(y int64, m, d int) string { return fmt.Sprintf("%d-%d-%d", y, m, d) }
	dateGot := func(g date.Date, err error) (string, error) {
		y, m, d := g.Date()
		return fmt.Sprintf("%d-%d-%d", y, int(m), d), err
	}
	refillSpecs["date"] = &refillSpec{name: "date",
		items: func(r *rt.Rand, n int) []refillItem {
			var out []refillItem
			for i := 0; i < n; i++ {
				y := int64(r.Intn(10000))
				m := 1 + r.Intn(12)
				d := 1 + r.Intn(ref.DaysIn(y, m))
				out = append(out, refillItem{ref.DateText(y, m, d, i%3 == 0), dateWant(y, m, d)})
			}
			return out
		},
		entries: []refillEntry{
			{"DefaultParser[[]byte]", func(b []byte) (string, error) { return dateGot(date.DefaultParser(b, 0)) }},
			{"Parser variable", func(b []byte) (string, error) { return dateGot(date.Parser(b, 0)) }},
			{"Date.UnmarshalText", func(b []byte) (string, error) { var g date.Date; err := g.UnmarshalText(b); return dateGot(g, err) }},
			{"DefaultParser[named []byte]", func(b []byte) (string, error) { return dateGot(date.DefaultParser(trimB(b), 0)) }},
		}}
	refillSpecs["date-json"] = &refillSpec{name: "date-json",
		items: func(r *rt.Rand, n int) []refillItem {
			its := refillSpecs["date"].items(r, n)
			for i := range its {
				its[i].doc = `{"d":"` + its[i].doc + `"}`
			}
			return its
		},
		entries: []refillEntry{
			{"json.Unmarshal of a struct with a Date field", func(b []byte) (string, error) {
				var v struct{ D date.Date }
				err := json.Unmarshal(b, &v)
				return dateGot(v.D, err)
			}},
		}}
	romanGot := func(g roman.Number, err error) (string, error) { return fmt.Sprint(uint64(g)), err }
	refillSpecs["roman"] = &refillSpec{name: "roman",
		items: func(r *rt.Rand, n int) []refillItem {
			var out []refillItem
			for i := 0; i < n; i++ {
				v := uint64(1 + r.Intn(3999))
				if i%4 == 0 {
					v = uint64(1 + r.Intn(40))
				}
				f := ref.RomanFlags{Lower: i%5 == 0, Long4: i%7 == 0, Long9: i%11 == 0}
				out = append(out, refillItem{ref.RomanFormat(v, f), fmt.Sprint(v)})
			}
			return out
		},
		entries: []refillEntry{
			{"DefaultParser[[]byte]", func(b []byte) (string, error) { return romanGot(roman.DefaultParser(b, 0)) }},
			{"Parser variable", func(b []byte) (string, error) { return romanGot(roman.Parser(b, 0)) }},
			{"Number.UnmarshalText", func(b []byte) (string, error) { var g roman.Number; err := g.UnmarshalText(b); return romanGot(g, err) }},
			{"DefaultParser[named []byte]", func(b []byte) (string, error) { return romanGot(roman.DefaultParser(hexB(b), 0)) }},
		}}
	semGot := func(g sem.Ver, err error) (string, error) {
		s := fmt.Sprintf("%d.%d.%d", g.Major, g.Minor, g.Patch)
		if g.PreRelease != "" {
			s += "-" + g.PreRelease
		}
		if g.Build != "" {
			s += "+" + g.Build
		}
		return s, err
	}
	refillSpecs["sem"] = &refillSpec{name: "sem",
		items: func(r *rt.Rand, n int) []refillItem {
			var out []refillItem
			for i := 0; i < n; i++ {
				t := fmt.Sprintf("%d.%d.%d", r.Intn(30), r.Intn(30), r.Intn(30))
				switch i % 4 {
				case 1:
					t += "-" + []string{"rc", "alpha", "beta", "x"}[r.Intn(4)] + "." + fmt.Sprint(r.Intn(20))
				case 2:
					t += "+b" + fmt.Sprint(r.Intn(100))
				}
				out = append(out, refillItem{t, t})
			}
			return out
		},
		entries: []refillEntry{
			{"Parse[[]byte]", func(b []byte) (string, error) { return semGot(sem.Parse(b)) }},
			{"ParseVersion[[]byte]", func(b []byte) (string, error) { return semGot(sem.ParseVersion(b)) }},
			{"Parser variable", func(b []byte) (string, error) { return semGot(sem.Parser(b, 0)) }},
			{"Ver.UnmarshalText", func(b []byte) (string, error) { var g sem.Ver; err := g.UnmarshalText(b); return semGot(g, err) }},
		}}
	sizeGot := func(g size.Size, err error) (string, error) { return fmt.Sprint(uint64(g)), err }
	jsonRule := size.RuleEnableJSONStringForm | size.RuleEnableJSONObjectForm
	refillSpecs["size"] = &refillSpec{name: "size",
		items: func(r *rt.Rand, n int) []refillItem {
			units := []string{"B", "kB", "MB", "GB", "KiB", "MiB", "GiB"}
			var out []refillItem
			for i := 0; i < n; i++ {
				v := uint64(r.Intn(1000))
				u := units[r.Intn(len(units))]
				want := fmt.Sprint(v * unitMul(u))
				switch i % 4 {
				case 0:
					out = append(out, refillItem{fmt.Sprintf(`{"value":%d,"unit":"%s"}`, v, u), want})
				case 1:
					out = append(out, refillItem{fmt.Sprintf(`{"unit":"%s","value":%d}`, u, v), want})
				case 2:
					out = append(out, refillItem{fmt.Sprintf(`"%d%s"`, v, u), want})
				default:
					out = append(out, refillItem{fmt.Sprint(v * 1000), fmt.Sprint(v * 1000)})
				}
			}
			return out
		},
		entries: []refillEntry{
			{"DefaultParser[[]byte](JSON forms)", func(b []byte) (string, error) { return sizeGot(size.DefaultParser(b, jsonRule)) }},
			{"Parser variable (JSON forms)", func(b []byte) (string, error) { return sizeGot(size.Parser(b, jsonRule)) }},
			{"Size.UnmarshalJSON", func(b []byte) (string, error) { var g size.Size; err := g.UnmarshalJSON(b); return sizeGot(g, err) }},
		}}
	refillSpecs["size-text"] = &refillSpec{name: "size-text",
		items: func(r *rt.Rand, n int) []refillItem {
			units := []string{"B", "kB", "MB", "KiB", "MiB"}
			var out []refillItem
			for i := 0; i < n; i++ {
				v := uint64(r.Intn(1000))
				u := units[r.Intn(len(units))]
				if i%3 == 0 { // a plain byte count
					n := r.U64() >> uint(r.Intn(60))
					out = append(out, refillItem{fmt.Sprint(n), fmt.Sprint(n)})
					continue
				}
				out = append(out, refillItem{fmt.Sprintf("%d%s", v, u), fmt.Sprint(v * unitMul(u))})
			}
			return out
		},
		entries: []refillEntry{
			{"DefaultParser[[]byte](0)", func(b []byte) (string, error) { return sizeGot(size.DefaultParser(b, 0)) }},
			{"Size.UnmarshalText", func(b []byte) (string, error) { var g size.Size; err := g.UnmarshalText(b); return sizeGot(g, err) }},
		}}
	uuGot := func(g uu.ID, err error) (string, error) { return fmt.Sprintf("%016x%016x", g.Higher, g.Lower), err }
	refillSpecs["uu"] = &refillSpec{name: "uu",
		items: func(r *rt.Rand, n int) []refillItem {
			var out []refillItem
			for i := 0; i < n; i++ {
				hi, lo := r.U64(), r.U64()
				t := ref.UUIDText(hi, lo)
				if i%3 == 0 {
					t = "urn:uuid:" + t
				}
				out = append(out, refillItem{t, fmt.Sprintf("%016x%016x", hi, lo)})
			}
			return out
		},
		entries: []refillEntry{
			{"DefaultParser[[]byte]", func(b []byte) (string, error) { return uuGot(uu.DefaultParser(b, 0)) }},
			{"Parser variable", func(b []byte) (string, error) { return uuGot(uu.Parser(b, 0)) }},
			{"ID.UnmarshalText", func(b []byte) (string, error) { var g uu.ID; err := g.UnmarshalText(b); return uuGot(g, err) }},
		}}
	for prop, specs := range map[string][]string{"C01": {"date", "date-json"}, "C02": {"roman"}, "C03": {"sem"}, "C05": {"uu"}, "C08": {"size-text"}, "C09": {"date"}, "C10": {"roman"}, "C12": {"size"}, "C17": {"date", "date-json", "roman", "sem", "size", "size-text", "uu"}} {
		_ = specs
		prop := prop
		replayers[prop+"/refill"] = func(v rt.Violation) string {
			c := rt.ReplayCtx(prop)
			if sp := refillSpecs[rt.ArgString(v, "spec")]; sp != nil {
				for _, e := range sp.entries {
					if e.name == rt.ArgString(v, "entry") {
						c.Serial("replay", func(w *rt.W) {
							buf := append(make([]byte, 0, 128), rt.ArgString(v, "previous_document")...)
							_, _ = e.parse(buf)
							refillStep(w, sp, e, &buf, refillItem{rt.ArgString(v, "document"), rt.ArgString(v, "expected")}, rt.ArgString(v, "previous_document"))
						})
					}
				}
			}
			return c.Report()
		}
	}
}

func unitMul(u string) uint64 {
	m, _ := ref.UnitMult(u)
	return m.Uint64()
}

func refillStep(w *rt.W, sp *refillSpec, e refillEntry, buf *[]byte, it refillItem, prev string) {
	if len(it.doc)%3 == 0 { // the buffer held a longer record before: its tail (digits, letters) stays behind len
		*buf = append((*buf)[:0], it.doc...)
		*buf = append(*buf, "98765432109876543210MMXXIVkB-01-01.9.9"...)
	}
	*buf = append((*buf)[:0], it.doc...)
	got, err := e.parse(*buf)
	w.Eval(1)
	if err != nil || got != it.want {
		key := "result-of-earlier-call-returned-for-refilled-buffer"
		if err != nil {
			key = "valid-document-in-refilled-buffer-refused"
		}
		w.Fail(key+":"+sp.name, "refill", rt.Args("spec", sp.name, "entry", e.name, "document", it.doc, "previous_document", prev, "expected", it.want), fmt.Sprint(got, " err=", err), it.want,
			e.name+": the caller's buffer was refilled with another valid document of the same length; the result must be that document's value")
	}
	if string(*buf) != it.doc {
		w.Fail("input-modified:"+sp.name, "refill", rt.Args("spec", sp.name, "entry", e.name, "document", it.doc, "previous_document", prev, "expected", it.want), string(*buf), it.doc, e.name+" modified its input")
	}
}

// refillRun runs the named specs with n seeded documents each.
func refillRun(c *rt.Ctx, n int, names ...string) {
	for _, name := range names {
		sp := refillSpecs[name]
		items := sp.items(rt.NewRand(c.Seed, "refill/"+name, 0), n)
		sort.SliceStable(items, func(i, j int) bool { return len(items[i].doc) < len(items[j].doc) })
		c.Parallel("refill/"+name, 0, func(w *rt.W) {
			lo, hi := len(items)*w.Shard/w.NShards, len(items)*(w.Shard+1)/w.NShards
			for _, e := range sp.entries {
				buf := make([]byte, 0, 128)
				prev := ""
				same := int64(0)
				for _, it := range items[lo:hi] {
					if len(it.doc) == len(prev) && it.doc != prev {
						same++
					}
					refillStep(w, sp, e, &buf, it, prev)
					prev = it.doc
				}
				w.ClassN("refilled-buffer-same-length-other-document", same)
				w.NT(same)
			}
		})
	}
	c.Require("refilled-buffer-same-length-other-document", int64(n/2))
	c.Extra("refill_specs", strings.Join(names, ","))
}
