package main

import (
	crand "crypto/rand"
	"math/rand"

	"encoding/json"
	"fmt"
	"os"
	"os/exec"
	"path/filepath"
	"runtime"
	"sort"
	"strings"
	"sync"
	"sync/atomic"
	"time"

	"go.lstv.dev/util/uu"

	"verif/ref"
	"verif/rt"
)

// C19 — Random UUIDs are always version 4 / variant 1 and generation is thread-safe.
//
// Decided by the Go race detector plus value monitors. The binary is built with
// -race (run.sh does that for C19); each (goroutines, GOMAXPROCS) configuration
// runs in its own child process with GORACE=halt_on_error=0 log_path=..., and the
// parent counts and attributes the reports.

func init() { props["C19"] = runC19 }

type c19Result struct {
	G, Procs, Draws   int
	BadVersion        int64
	BadVariant        int64
	BadBits           int64
	FirstBad          string
	Ones              [128]int64 // how often each bit (0 = least significant of Lower) was 1
	Duplicates        int64
	FirstDuplicate    string
	Distinct          int64
	BadText           int64 // fresh IDs whose rendering was not their own text
	Handoffs          int64 // consecutive tickets issued to different goroutines
	MaxRun            int64 // longest run of consecutive tickets of one goroutine
	MinDistinctWindow int   // fewest distinct goroutines in any window of 64 consecutive tickets
	RaceEnabled       bool
	Control           bool
}

type c19Draw struct {
	id     uu.ID
	ticket int64
}

type c19Pair struct{ h, l uint64 }

// c19LongRun draws n IDs as fast as the library allows (no race instrumentation): three
// quarters from one goroutine in a tight loop, the rest from four goroutines. Every ID is
// checked for its fixed bits; duplicates are detected exactly among the first 8M draws and among
// a 1/16 sample (top four bits of Higher zero) of the whole run, so a generator state that is
// reset or repeats a block after tens of millions of draws is seen without storing every ID.
func c19LongRun(n int) {
	res := c19Result{G: 1, Procs: runtime.GOMAXPROCS(0), Draws: n, RaceEnabled: raceEnabled}
	const exactN = 8 << 20
	exact := make([]c19Pair, 0, exactN)
	// value-selected sample: IDs whose top bits are zero; the rate keeps about 8M of them whatever n is
	shift := uint(60)
	for s := n >> 27; s > 0 && shift > 40; s >>= 1 {
		shift--
	}
	sample := make([]c19Pair, 0, n>>(64-shift)+n>>(66-shift)+1024)
	var bad int64
	single := n / 4 * 3
	// the program around the library makes its own randomness reproducible: crypto/rand.Reader is replaced by a
	// deterministic stream, and the same stream is installed again later (as test set-ups and simulations do).
	// IDs of one run must still not repeat. Done in the single-goroutine phase only (the variable is the program's).
	origReader := crand.Reader
	for k := 0; k < single; k++ {
		if k < exactN && k%50000 == 0 {
			crand.Reader = &c19DetReader{x: 0x9e3779b97f4a7c15}
		} else if k == exactN {
			crand.Reader = origReader
		}
		id := uu.RandomID()
		if id.Higher>>12&0xf != 4 || id.Lower>>62 != 2 {
			bad++
		}
		if k < exactN {
			exact = append(exact, c19Pair{id.Higher, id.Lower})
		}
		if id.Higher>>shift == 0 {
			sample = append(sample, c19Pair{id.Higher, id.Lower})
		}
	}
	crand.Reader = origReader
	var wg sync.WaitGroup
	var mu sync.Mutex
	for g := 0; g < 4; g++ {
		wg.Add(1)
		go func() {
			defer wg.Done()
			local := make([]c19Pair, 0, (n-single)/64+1024)
			var lb int64
			for k := 0; k < (n-single)/4; k++ {
				id := uu.RandomID()
				if id.Higher>>12&0xf != 4 || id.Lower>>62 != 2 {
					lb++
				}
				if id.Higher>>shift == 0 {
					local = append(local, c19Pair{id.Higher, id.Lower})
				}
			}
			mu.Lock()
			sample = append(sample, local...)
			bad += lb
			mu.Unlock()
		}()
	}
	wg.Wait()
	count := func(ps []c19Pair) (int64, string) {
		sort.Slice(ps, func(i, j int) bool {
			if ps[i].h != ps[j].h {
				return ps[i].h < ps[j].h
			}
			return ps[i].l < ps[j].l
		})
		var d int64
		f := ""
		for i := 1; i < len(ps); i++ {
			if ps[i] == ps[i-1] {
				d++
				if f == "" {
					f = uu.ID{Higher: ps[i].h, Lower: ps[i].l}.String()
				}
			}
		}
		return d, f
	}
	var d1, d2 int64
	var f1, f2 string
	wg.Add(2)
	go func() { defer wg.Done(); d1, f1 = count(exact) }()
	go func() { defer wg.Done(); d2, f2 = count(sample) }()
	wg.Wait()
	res.Draws = single + (n-single)/4*4
	res.Duplicates, res.FirstDuplicate, res.BadBits = d1+d2, f1+f2, bad
	res.Distinct = int64(len(exact)+len(sample)) - d1 - d2
	json.NewEncoder(os.Stdout).Encode(res)
}

// c19DetReader is a deterministic byte stream (xorshift64*).
type c19DetReader struct{ x uint64 }

func (d *c19DetReader) Read(p []byte) (int, error) {
	for i := range p {
		d.x ^= d.x >> 12
		d.x ^= d.x << 25
		d.x ^= d.x >> 27
		p[i] = byte((d.x * 2685821657736338717) >> 56)
	}
	return len(p), nil
}

func c19Child(spec string) {
	var g, procs, draws int
	var seed int64
	if strings.HasPrefix(spec, "long/") {
		fmt.Sscanf(spec, "long/%d", &draws)
		c19LongRun(draws)
		return
	}
	if strings.HasPrefix(spec, "lonely/") {
		var n int
		fmt.Sscanf(spec, "lonely/%d", &n)
		c19Lonely(n)
		return
	}
	if strings.HasPrefix(spec, "gcchurn/") {
		var rounds int
		fmt.Sscanf(spec, "gcchurn/%d", &rounds)
		c19GCChurn(rounds)
		return
	}
	if strings.HasPrefix(spec, "countpause/") {
		var count, secs int
		fmt.Sscanf(spec, "countpause/%d/%d", &count, &secs)
		c19CountPause(count, secs)
		return
	}
	if strings.HasPrefix(spec, "frozen/") {
		var n int
		fmt.Sscanf(spec, "frozen/%d", &n)
		c19Frozen(n)
		return
	}
	if strings.HasPrefix(spec, "pause/") {
		var secs, n int
		fmt.Sscanf(spec, "pause/%d/%d", &secs, &n)
		c19Pause(time.Duration(secs)*time.Second, n)
		return
	}
	control := strings.HasPrefix(spec, "control")
	if !control {
		fmt.Sscanf(spec, "%d/%d/%d/%d", &g, &procs, &draws, &seed)
	}
	res := c19Result{G: g, Procs: procs, Draws: draws, RaceEnabled: raceEnabled, Control: control}
	if control {
		// positive control: a deliberately racy counter inside the harness must be reported
		var x int
		var wg sync.WaitGroup
		for i := 0; i < 4; i++ {
			wg.Add(1)
			go func() {
				defer wg.Done()
				for k := 0; k < 20000; k++ {
					x++
					if k%64 == 0 {
						runtime.Gosched()
					}
				}
			}()
		}
		wg.Wait()
		res.Draws = x
		json.NewEncoder(os.Stdout).Encode(res)
		return
	}
	runtime.GOMAXPROCS(procs)
	changeProcs := seed < 0
	if changeProcs {
		seed = -seed
	}
	var badText int64
	per := draws / g
	all := make([][]c19Draw, g)
	var ticket int64
	start := make(chan struct{})
	var wg sync.WaitGroup
	for gi := 0; gi < g; gi++ {
		wg.Add(1)
		go func(gi int) {
			defer wg.Done()
			r := rt.NewRand(seed, "C19/yield", uint64(gi))
			local := make([]c19Draw, 0, per)
			<-start
			for k := 0; k < per; k++ {
				if k%4096 == 0 { // other code in the process uses and reseeds the global math/rand source
					rand.Seed(42)
					_ = rand.Int63()
				}
				id := uu.RandomID()
				t := atomic.AddInt64(&ticket, 1)
				local = append(local, c19Draw{id, t})
				// the fresh ID is used at once, as programs do: rendered, while other goroutines draw
				if k%3 == 0 {
					var txt string
					switch k % 9 {
					case 0:
						txt = id.String()
					case 3:
						txt = strings.TrimPrefix(id.URN(), "urn:uuid:")
					default:
						b, _ := id.MarshalText()
						txt = string(b)
					}
					if txt != ref.UUIDText(id.Higher, id.Lower) {
						atomic.AddInt64(&badText, 1)
					}
				}
				if k%64 == 7 { // methods the tree has beyond the pinned API are part of the program too: called while others draw
					for _, r := range exploreValue(id) {
						if x, ok := r.Interface().(uu.ID); ok && x != id && x != (uu.ID{}) {
							local = append(local, c19Draw{x, atomic.AddInt64(&ticket, 1)})
						}
					}
					for _, r := range exploreValue(uu.ID{}) {
						if x, ok := r.Interface().(uu.ID); ok && x != (uu.ID{}) {
							local = append(local, c19Draw{x, atomic.AddInt64(&ticket, 1)})
						}
					}
				}
				if changeProcs && gi == 0 && k%997 == 0 { // the program resizes its scheduler while IDs are drawn
					runtime.GOMAXPROCS([]int{1, 2, 4, 16, 3, 8}[(k/997)%6])
				}
				if r.Chance(1, 8) { // yields between calls widen the set of interleavings
					runtime.Gosched()
				}
			}
			all[gi] = local
		}(gi)
	}
	close(start)
	wg.Wait()
	total := 0
	for _, l := range all {
		total += len(l)
	}
	owner := make([]int32, total+1)
	seen := make(map[uu.ID]struct{}, total)
	for gi, l := range all {
		for _, d := range l {
			owner[d.ticket] = int32(gi)
			id := d.id
			if id.Version() != 4 || ref.UUIDVersion(id.Higher) != 4 {
				res.BadVersion++
				if res.FirstBad == "" {
					res.FirstBad = id.String()
				}
			}
			if id.Variant() != 1 || ref.UUIDVariant(id.Lower) != 1 {
				res.BadVariant++
				if res.FirstBad == "" {
					res.FirstBad = id.String()
				}
			}
			if id.Higher>>12&0xf != 4 || id.Lower>>62 != 2 {
				res.BadBits++
			}
			for b := 0; b < 64; b++ {
				res.Ones[b] += int64(id.Lower >> uint(b) & 1)
				res.Ones[64+b] += int64(id.Higher >> uint(b) & 1)
			}
			if _, dup := seen[id]; dup {
				res.Duplicates++
				if res.FirstDuplicate == "" {
					res.FirstDuplicate = id.String()
				}
			}
			seen[id] = struct{}{}
		}
	}
	res.Distinct = int64(len(seen))
	res.Draws = total
	res.BadText = badText
	run := int64(1)
	res.MinDistinctWindow = g
	for t := 2; t <= total; t++ {
		if owner[t] != owner[t-1] {
			res.Handoffs++
			run = 1
		} else {
			run++
		}
		if run > res.MaxRun {
			res.MaxRun = run
		}
	}
	for t := 1; t+64 <= total; t += 64 {
		d := map[int32]bool{}
		for k := t; k < t+64; k++ {
			d[owner[k]] = true
		}
		if len(d) < res.MinDistinctWindow {
			res.MinDistinctWindow = len(d)
		}
	}
	json.NewEncoder(os.Stdout).Encode(res)
}

// c19Lonely: a program with a single goroutine that draws IDs in a loop, while the only other callers are callbacks
// the runtime starts on its own (time.AfterFunc). The process never has a second goroutine of the program's making:
// code that decides by runtime.NumGoroutine() whether it needs its lock decides wrongly here. Run under -race.
func c19Lonely(n int) {
	res := c19Result{G: 1, Procs: runtime.GOMAXPROCS(0), RaceEnabled: raceEnabled}
	var mu sync.Mutex // guards fromTimers only; the main loop never takes it before the end
	var fromTimers []uu.ID
	var arm func()
	stop := false
	arm = func() {
		time.AfterFunc(200*time.Microsecond, func() {
			local := make([]uu.ID, 0, 8)
			for k := 0; k < 8; k++ {
				local = append(local, uu.RandomID())
			}
			mu.Lock()
			fromTimers = append(fromTimers, local...)
			again := !stop
			mu.Unlock()
			if again {
				arm()
			}
		})
	}
	arm()
	mine := make([]uu.ID, 0, n)
	for k := 0; k < n; k++ {
		mine = append(mine, uu.RandomID())
	}
	mu.Lock()
	stop = true
	all := append(mine, fromTimers...)
	mu.Unlock()
	seen := make(map[uu.ID]struct{}, len(all))
	for _, id := range all {
		res.Draws++
		if id.Higher>>12&0xf != 4 || id.Lower>>62 != 2 {
			res.BadBits++
		}
		for b := 0; b < 64; b++ {
			res.Ones[b] += int64(id.Lower >> uint(b) & 1)
			res.Ones[64+b] += int64(id.Higher >> uint(b) & 1)
		}
		if _, dup := seen[id]; dup {
			res.Duplicates++
			if res.FirstDuplicate == "" {
				res.FirstDuplicate = id.String()
			}
		}
		seen[id] = struct{}{}
	}
	res.Distinct = int64(len(seen))
	res.Handoffs = int64(len(fromTimers))
	json.NewEncoder(os.Stdout).Encode(res)
}

// c19GCChurn: a long-lived service that makes an ID now and then, with garbage collections in between
// (two per round: what a sync.Pool holds survives one). State that is dropped and rebuilt by the
// collector (pools, finalizers, weak caches) is rebuilt once per round here, a hundred thousand times.
func c19GCChurn(rounds int) {
	runtime.GOMAXPROCS(1)
	res := c19Result{G: 1, Procs: 1, RaceEnabled: raceEnabled}
	seen := make(map[uu.ID]struct{}, 2*rounds)
	for k := 0; k < rounds; k++ {
		for i := 0; i < 2; i++ {
			id := uu.RandomID()
			res.Draws++
			if id.Higher>>12&0xf != 4 || id.Lower>>62 != 2 {
				res.BadBits++
			}
			if _, dup := seen[id]; dup {
				res.Duplicates++
				if res.FirstDuplicate == "" {
					res.FirstDuplicate = id.String()
				}
			}
			seen[id] = struct{}{}
		}
		runtime.GC()
		runtime.GC()
	}
	res.Distinct = int64(len(seen))
	json.NewEncoder(os.Stdout).Encode(res)
}

// c19Pause: one goroutine draws IDs at once, then nothing calls the generator for the given pause, then
// four other goroutines draw. The late goroutines were started before the early one drew anything and
// only sleep in between, so nothing orders their calls after the early draws: whatever the generator
// does differently after a long silence (re-seeding, rebuilding state) is visible to the race detector
// and to the duplicate check across the pause.
func c19Pause(pause time.Duration, n int) {
	res := c19Result{G: 5, Procs: runtime.GOMAXPROCS(0), RaceEnabled: raceEnabled}
	ids := make([][]uu.ID, 5)
	var wg sync.WaitGroup
	for gi := 1; gi < 5; gi++ {
		wg.Add(1)
		go func(gi int) {
			defer wg.Done()
			time.Sleep(pause + time.Duration(gi%2)*time.Millisecond)
			local := make([]uu.ID, 0, n)
			for k := 0; k < n; k++ {
				local = append(local, uu.RandomID())
				if k%64 == 0 {
					runtime.Gosched()
				}
			}
			ids[gi] = local
		}(gi)
	}
	wg.Add(1)
	go func() {
		defer wg.Done()
		local := make([]uu.ID, 0, n)
		for k := 0; k < n; k++ {
			local = append(local, uu.RandomID())
		}
		ids[0] = local
	}()
	wg.Wait()
	seen := make(map[uu.ID]struct{}, 5*n)
	for _, l := range ids {
		for _, id := range l {
			res.Draws++
			if id.Version() != 4 || id.Variant() != 1 || id.Higher>>12&0xf != 4 || id.Lower>>62 != 2 {
				res.BadBits++
				if res.FirstBad == "" {
					res.FirstBad = id.String()
				}
			}
			for b := 0; b < 64; b++ {
				res.Ones[b] += int64(id.Lower >> uint(b) & 1)
				res.Ones[64+b] += int64(id.Higher >> uint(b) & 1)
			}
			if _, dup := seen[id]; dup {
				res.Duplicates++
				if res.FirstDuplicate == "" {
					res.FirstDuplicate = id.String()
				}
			}
			seen[id] = struct{}{}
		}
	}
	res.Distinct = int64(len(seen))
	json.NewEncoder(os.Stdout).Encode(res)
}

// c19CountPause: one goroutine draws exactly count IDs, stays silent, and draws again. State renewed "after N draws or
// after T seconds, whichever comes first" meets both conditions at once only when the silence ends on the N-th
// draw; the parent tries N = 2^k-1, 2^k, 2^k+1. The last 2048 IDs before the silence and 4096 after it are kept.
func c19CountPause(count, secs int) {
	res := c19Result{G: 1, Procs: runtime.GOMAXPROCS(0), RaceEnabled: raceEnabled}
	ring := make([]uu.ID, 0, 2048)
	for k := 0; k < count; k++ {
		id := uu.RandomID()
		if count-k <= 2048 {
			ring = append(ring, id)
		}
	}
	time.Sleep(time.Duration(secs) * time.Second)
	all := ring
	for k := 0; k < 4096; k++ {
		all = append(all, uu.RandomID())
	}
	res.Draws = count + 4096
	sort.Slice(all, func(i, j int) bool {
		if all[i].Higher != all[j].Higher {
			return all[i].Higher < all[j].Higher
		}
		return all[i].Lower < all[j].Lower
	})
	for i, id := range all {
		if id.Version() != 4 || id.Variant() != 1 {
			res.BadBits++
		}
		if i > 0 && all[i-1] == id {
			res.Duplicates++
			if res.FirstDuplicate == "" {
				res.FirstDuplicate = id.String()
			}
		} else {
			res.Distinct++
		}
	}
	json.NewEncoder(os.Stdout).Encode(res)
}

// c19Frozen: the whole process is stopped (SIGSTOP: a debugger, a container freezer, a suspended VM) while
// hundreds of goroutines are inside or queued for RandomID, and continued 1.3 s, 2.5 s and 6 s later. Whatever
// runs on timers started before the stop (a wait limit on a lock, a lease on generator state) finds them all
// expired at once on resume. Every ID of the three phases is kept; duplicates are exact.
func c19Frozen(g int) {
	res := c19Result{G: g, Procs: runtime.GOMAXPROCS(0), RaceEnabled: raceEnabled}
	var all []uu.ID
	pid := os.Getpid()
	for _, freeze := range []string{"1.3", "2.5", "6"} {
		cmd := exec.Command("sh", "-c", fmt.Sprintf("sleep 0.25; kill -STOP %d; sleep %s; kill -CONT %d", pid, freeze, pid))
		if err := cmd.Start(); err != nil {
			fmt.Fprintln(os.Stderr, "cannot start the freezer:", err)
			os.Exit(3)
		}
		var stop int32
		locals := make([][]uu.ID, g)
		var wg sync.WaitGroup
		for gi := 0; gi < g; gi++ {
			wg.Add(1)
			go func(gi int) {
				defer wg.Done()
				var l []uu.ID
				for atomic.LoadInt32(&stop) == 0 {
					l = append(l, uu.RandomID())
				}
				locals[gi] = l
			}(gi)
		}
		before := time.Now()
		_ = cmd.Wait() // returns once the process has been continued
		if time.Since(before) > 1200*time.Millisecond {
			res.Handoffs++ // (used as: freezes that took place)
		}
		time.Sleep(150 * time.Millisecond)
		atomic.StoreInt32(&stop, 1)
		wg.Wait()
		for _, l := range locals {
			all = append(all, l...)
		}
	}
	sort.Slice(all, func(i, j int) bool {
		if all[i].Higher != all[j].Higher {
			return all[i].Higher < all[j].Higher
		}
		return all[i].Lower < all[j].Lower
	})
	for i, id := range all {
		res.Draws++
		if id.Version() != 4 || id.Variant() != 1 || id.Higher>>12&0xf != 4 || id.Lower>>62 != 2 {
			res.BadBits++
			if res.FirstBad == "" {
				res.FirstBad = id.String()
			}
		}
		for b := 0; b < 64; b++ {
			res.Ones[b] += int64(id.Lower >> uint(b) & 1)
			res.Ones[64+b] += int64(id.Higher >> uint(b) & 1)
		}
		if i > 0 && all[i-1] == id {
			res.Duplicates++
			if res.FirstDuplicate == "" {
				res.FirstDuplicate = id.String()
			}
		} else {
			res.Distinct++
		}
	}
	json.NewEncoder(os.Stdout).Encode(res)
}

// c19RaceBlocks splits race detector logs into report blocks.
func c19RaceBlocks(dir string) []string {
	var blocks []string
	files, _ := filepath.Glob(filepath.Join(dir, "race.*"))
	for _, f := range files {
		b, err := os.ReadFile(f)
		if err != nil {
			continue
		}
		for _, part := range strings.Split(string(b), "==================") {
			if strings.Contains(part, "WARNING: DATA RACE") {
				blocks = append(blocks, part)
			}
		}
	}
	return blocks
}

func c19EntryPair(block string) string {
	// outermost frames of the two stacks: last "  func()" lines before "Previous"/"Goroutine"
	var fns []string
	for _, sec := range strings.Split(block, "\n\n") {
		lines := strings.Split(strings.TrimSpace(sec), "\n")
		if len(lines) < 2 || !(strings.HasPrefix(lines[0], "Write at") || strings.HasPrefix(lines[0], "Read at") || strings.HasPrefix(lines[0], "Previous")) {
			continue
		}
		last := ""
		for _, l := range lines[1:] {
			if strings.HasPrefix(l, "  ") && !strings.HasPrefix(l, "      ") {
				last = strings.TrimSpace(l)
			}
		}
		fns = append(fns, last)
	}
	sort.Strings(fns)
	return strings.Join(fns, " | ")
}

func runC19(c *rt.Ctx) {
	if spec := os.Getenv("VERIF_C19_CHILD"); spec != "" {
		c19Child(spec)
		os.Exit(0)
	}
	c.SetRule("RandomID drawn from G in {1,2,8,64} goroutines x GOMAXPROCS in {1,2,4,16} x R repetitions, each configuration in its own -race child process with a start barrier and seeded Gosched() calls between draws; every ID checked for version 4 / variant 1 (accessors and raw bits), per-bit frequencies over all draws, exact duplicate detection per run, race reports counted and attributed by stack; a positive-control child with a deliberately racy counter proves the detector is armed. " +
		"distinct_nontrivial counts distinct IDs observed (exact set per run, summed); the interleavings actually observed are reported as hand-offs, maximum run length and the minimum number of distinct goroutines per 64-ticket window")
	c.Assume("the race detector reports races on executed accesses without a happens-before edge; it does not enumerate schedules. RandomID is time-seeded inside the library, so violations are witnessed by race reports / offending IDs, not replayed")
	if os.Getenv("VERIF_PLATFORM_PASS") != "" && os.Getenv("VERIF_C19_CHILD") == "" {
		// platform pass (no race detector on this platform): the value monitors only, in process
		c.SetRule("platform pass: 3,200,000 RandomID draws from 8 goroutines in this process; version/variant (accessors and raw bits), per-bit frequency, exact duplicate detection")
		const per = 400000
		all := make([][]uu.ID, 8)
		var wg sync.WaitGroup
		for g := range all {
			wg.Add(1)
			go func(g int) {
				defer wg.Done()
				l := make([]uu.ID, per)
				for k := range l {
					l[k] = uu.RandomID()
				}
				all[g] = l
			}(g)
		}
		wg.Wait()
		c.Serial("platform", func(w *rt.W) {
			var ones [128]int64
			seen := make(map[uu.ID]struct{}, 8*per)
			var bad, dups int64
			firstBad := ""
			for _, l := range all {
				for _, id := range l {
					if id.Version() != 4 || id.Variant() != 1 || id.Higher>>12&0xf != 4 || id.Lower>>62 != 2 {
						bad++
						if firstBad == "" {
							firstBad = id.String()
						}
					}
					for b := 0; b < 64; b++ {
						ones[b] += int64(id.Lower >> uint(b) & 1)
						ones[64+b] += int64(id.Higher >> uint(b) & 1)
					}
					if _, d := seen[id]; d {
						dups++
					}
					seen[id] = struct{}{}
				}
			}
			w.Eval(8 * per)
			w.NT(int64(len(seen)))
			if bad > 0 {
				w.Fail("not-version4-variant1", "draws", rt.Args("platform", os.Getenv("VERIF_PLATFORM_PASS")), fmt.Sprintf("%d of %d IDs with wrong version/variant, e.g. %s", bad, 8*per, firstBad), "version 4, variant 1 on every ID", "generated ID is not a version 4 / RFC 4122 variant UUID on this platform")
			}
			if dups > 0 {
				w.Fail("duplicate-id", "draws", rt.Args("platform", os.Getenv("VERIF_PLATFORM_PASS")), fmt.Sprint(dups, " duplicates"), "none", "duplicate IDs")
			}
			for b := 0; b < 128; b++ {
				fixed := b == 62 || b == 63 || (b >= 64+12 && b <= 64+15)
				if !fixed && (ones[b] == 0 || ones[b] == 8*per) {
					w.Fail("constant-random-bit", "draws", rt.Args("bit", b), "constant", "both values seen", "one of the 122 random bits never varies")
				}
			}
			w.Sample("platform", map[string]any{"draws": 8 * per, "distinct": len(seen)})
		})
		return
	}
	if !raceEnabled && os.Getenv("VERIF_C19_CHILD") == "" {
		c.Inconclusive("monitor binary was built without -race")
		return
	}
	dir, err := os.MkdirTemp("", "verif-c19-")
	if err != nil {
		c.Inconclusive("cannot create scratch directory")
		return
	}
	defer os.RemoveAll(dir)
	runChild := func(name, spec string) (c19Result, []string, string, error) {
		sub := filepath.Join(dir, name)
		os.MkdirAll(sub, 0o755)
		cmd := exec.Command(os.Args[0], "C19")
		if strings.HasPrefix(name, "onecpu") { // the child sees exactly one usable CPU from its very start
			if ts, err := exec.LookPath("taskset"); err == nil {
				cmd = exec.Command(ts, "-c", "0", os.Args[0], "C19")
			} else {
				return c19Result{}, nil, "", fmt.Errorf("no-taskset")
			}
		}
		cmd.Env = append(os.Environ(), "VERIF_C19_CHILD="+spec, "GORACE=halt_on_error=0 log_path="+filepath.Join(sub, "race"), "GOTRACEBACK=single")
		var out, errb strings.Builder
		cmd.Stdout, cmd.Stderr = &out, &errb
		done := make(chan error, 1)
		if err := cmd.Start(); err != nil {
			return c19Result{}, nil, "", err
		}
		go func() { done <- cmd.Wait() }()
		var werr error
		select {
		case werr = <-done:
		case <-time.After(20 * time.Minute):
			cmd.Process.Kill()
			<-done
			return c19Result{}, nil, errb.String(), fmt.Errorf("watchdog")
		}
		var res c19Result
		if jerr := json.Unmarshal([]byte(out.String()), &res); jerr != nil {
			return res, c19RaceBlocks(sub), errb.String(), fmt.Errorf("child died: %v", werr)
		}
		return res, c19RaceBlocks(sub), errb.String(), nil
	}

	type job struct {
		g, procs, rep int
		name          string
		res           c19Result
		blocks        []string
		stderr        string
		err           error
	}
	// silence, then a burst from other goroutines: started now, runs beside everything else (it mostly sleeps)
	var pauseJobs []*job
	var pauseWG sync.WaitGroup
	pauses := []int{35}
	if !c.Quick() {
		pauses = []int{35, 75, 130, 310}
	}
	for _, secs := range pauses {
		j := &job{g: 5, procs: runtime.GOMAXPROCS(0), name: fmt.Sprintf("pause%d", secs)}
		pauseJobs = append(pauseJobs, j)
		pauseWG.Add(1)
		go func(j *job, secs int) {
			defer pauseWG.Done()
			j.res, j.blocks, j.stderr, j.err = runChild(j.name, fmt.Sprintf("pause/%d/%d", secs, 20000))
		}(j, secs)
	}

	// garbage-collector churn (uninstrumented binary: the pattern matters, not the detector)
	churnRounds := c.Pick(120000, 320000)
	var churnRes c19Result
	var churnErr error
	var churnStderr string
	if fast := os.Getenv("VERIF_MON_FAST"); fast != "" {
		pauseWG.Add(1)
		go func() {
			defer pauseWG.Done()
			cmd := exec.Command(fast, "C19")
			cmd.Env = append(os.Environ(), fmt.Sprintf("VERIF_C19_CHILD=gcchurn/%d", churnRounds), "GOTRACEBACK=single")
			var out, errb strings.Builder
			cmd.Stdout, cmd.Stderr = &out, &errb
			churnErr = cmd.Run()
			if jerr := json.Unmarshal([]byte(out.String()), &churnRes); jerr != nil && churnErr == nil {
				churnErr = jerr
			}
			churnStderr = errb.String()
		}()
	}

	// exact draw counts followed by a silence (uninstrumented binary), under both timer-channel semantics
	type cpJob struct {
		count  int
		godbg  string
		res    c19Result
		err    error
		stderr string
	}
	var cpJobs []*cpJob
	cpSecs := 31
	if fast := os.Getenv("VERIF_MON_FAST"); fast != "" && os.Getenv("VERIF_PLATFORM_PASS") == "" {
		for _, k := range []uint{10, 12, 14, 16, 18, 20, 22} {
			for _, d := range []int{-1, 0, 1} {
				for _, godbg := range []string{"asynctimerchan=1", "asynctimerchan=0"} {
					j := &cpJob{count: 1<<k + d, godbg: godbg}
					cpJobs = append(cpJobs, j)
					pauseWG.Add(1)
					go func(j *cpJob) {
						defer pauseWG.Done()
						cmd := exec.Command(fast, "C19")
						cmd.Env = append(os.Environ(), fmt.Sprintf("VERIF_C19_CHILD=countpause/%d/%d", j.count, cpSecs), "GOTRACEBACK=single", "GODEBUG="+j.godbg)
						var out, errb strings.Builder
						cmd.Stdout, cmd.Stderr = &out, &errb
						j.err = cmd.Run()
						if jerr := json.Unmarshal([]byte(out.String()), &j.res); jerr != nil && j.err == nil {
							j.err = jerr
						}
						j.stderr = errb.String()
					}(j)
				}
			}
		}
	}

	// positive control
	_, blocks, _, err := runChild("control", "control")
	c.SelfTest("race-detector-armed (positive control reported a race)", err == nil && len(blocks) >= 1)
	c.Extra("positive_control_race_reports", len(blocks))
	{
		sc := rt.ReplayCtx("C19")
		sc.Serial("selftest", func(w *rt.W) { w.Fail("k", "draws", nil, "version 5", "version 4", "synthetic") })
		c.SelfTest("monitor-records-a-mismatch", sc.Violations() == 1)
	}

	// long uninstrumented run: state that is reset, wraps or falls into a cycle after very many draws. It runs
	// beside the race children (one busy core); its verdict is taken at the end.
	longN := int64(640000000) // int64: the thorough count does not fit a 32-bit int (the 386 platform pass compiles this file too)
	if !c.Quick() {
		longN = 3200000000
	}
	var longRes c19Result
	var longErr, longJErr error
	var longStderr string
	longStarted := false
	if fast := os.Getenv("VERIF_MON_FAST"); fast != "" {
		longStarted = true
		pauseWG.Add(1)
		go func() {
			defer pauseWG.Done()
			cmd := exec.Command(fast, "C19")
			cmd.Env = append(os.Environ(), fmt.Sprintf("VERIF_C19_CHILD=long/%d", longN), "GOTRACEBACK=single")
			var out, errb strings.Builder
			cmd.Stdout, cmd.Stderr = &out, &errb
			longErr = cmd.Run()
			longJErr = json.Unmarshal([]byte(out.String()), &longRes)
			longStderr = errb.String()
		}()
	} else {
		c.Inconclusive("VERIF_MON_FAST is not set: the long uninstrumented run was not executed")
	}

	reps := c.Pick(2, 10)
	draws := c.Pick(200000, 2000000)
	var ones [128]int64
	var totalDraws int64
	type cfgStat struct {
		G, Procs, Rep                     int
		Draws, Handoffs, MaxRun, Distinct int64
		MinDistinctWindow                 int
		RaceReports                       int
	}
	var stats []cfgStat
	raceKinds := map[string]int{}
	var jobs []*job
	for _, g := range []int{1, 2, 8, 64} {
		for _, procs := range []int{1, 2, 4, 16} {
			for rep := 0; rep < reps; rep++ {
				jobs = append(jobs, &job{g: g, procs: procs, rep: rep, name: fmt.Sprintf("g%d-p%d-r%d", g, procs, rep)})
			}
		}
	}
	// a process confined to one CPU (single-core container, taskset): code that counts CPUs at start-up takes other paths
	jobs = append(jobs, &job{g: 8, procs: 4, rep: 0, name: "onecpu-g8-p4"}, &job{g: 2, procs: 1, rep: 0, name: "onecpu-g2-p1"})
	// the scheduler is resized (GOMAXPROCS grown and shrunk) while IDs are drawn
	jobs = append(jobs, &job{g: 8, procs: 4, rep: 0, name: "procs-changing-g8"}, &job{g: 64, procs: 16, rep: 1, name: "procs-changing-g64"})
	// a single-goroutine program whose only other callers are timer callbacks
	jobs = append(jobs, &job{g: 1, procs: 16, rep: 0, name: "lonely-main-plus-timers"}, &job{g: 1, procs: 2, rep: 1, name: "lonely-main-plus-timers-p2"})
	// bursts of hundreds and thousands of simultaneous callers (a server under load): far more goroutines inside the call than CPUs
	jobs = append(jobs, &job{g: 2048, procs: 16, rep: 0, name: "burst-g2048-p16"}, &job{g: 512, procs: 4, rep: 0, name: "burst-g512-p4"}, &job{g: 4000, procs: 2, rep: 0, name: "burst-g4000-p2"})
	// more scheduler slots than the usual machine has (GOMAXPROCS set by hand or a large host): per-P or per-slot state indexed beyond a fixed table
	jobs = append(jobs, &job{g: 96, procs: 32, rep: 0, name: "manyprocs-g96-p32"}, &job{g: 256, procs: 64, rep: 1, name: "manyprocs-g256-p64"}, &job{g: 48, procs: 24, rep: 0, name: "manyprocs-g48-p24"}, &job{g: 300, procs: 100, rep: 1, name: "manyprocs-g300-p100"})
	// the process is frozen and continued while hundreds of goroutines draw
	jobs = append(jobs, &job{g: 600, procs: 16, rep: 0, name: "frozen-g600"})
	{
		sem := make(chan struct{}, 3) // a few children at a time: they also perturb each other's scheduling
		var wg sync.WaitGroup
		for _, j := range jobs {
			wg.Add(1)
			sem <- struct{}{}
			go func(j *job) {
				defer wg.Done()
				defer func() { <-sem }()
				spec := fmt.Sprintf("%d/%d/%d/%d", j.g, j.procs, draws, c.Seed*1000+int64(j.rep))
				if strings.HasPrefix(j.name, "procs-changing") { // a negative seed tells the child to resize the scheduler
					spec = fmt.Sprintf("%d/%d/%d/%d", j.g, j.procs, draws, -(c.Seed*1000 + int64(j.rep) + 1))
				}
				if strings.HasPrefix(j.name, "lonely") {
					spec = fmt.Sprintf("lonely/%d", draws*2)
				}
				if strings.HasPrefix(j.name, "frozen") {
					spec = fmt.Sprintf("frozen/%d", j.g)
				}
				j.res, j.blocks, j.stderr, j.err = runChild(j.name, spec)
			}(j)
		}
		wg.Wait()
	}
	pauseWG.Wait()
	jobs = append(jobs, pauseJobs...)
	if longStarted {
		c.Serial("long-run", func(w *rt.W) {
			res, n := longRes, longN
			if longErr != nil || longJErr != nil {
				tail := longStderr
				if len(tail) > 2000 {
					tail = tail[:2000]
				}
				w.Fail("child-died", "draws", rt.Args("mode", "long uninstrumented run", "draws", n, "stderr", tail), fmt.Sprint(longErr, longJErr), "normal exit", "the long-run process died\n"+tail)
				return
			}
			w.Eval(int64(res.Draws))
			args := rt.Args("mode", "long uninstrumented run, one goroutine then four; duplicates exact over the first 8M draws and over a value-selected sample of all", "draws", res.Draws)
			if res.Duplicates > 0 {
				w.Fail("duplicate-id-long-run", "draws", args, fmt.Sprintf("%d duplicates among %d IDs, e.g. %s", res.Duplicates, res.Draws, res.FirstDuplicate), "no duplicate within a run", "the same ID was returned twice in one long run")
			}
			if res.BadBits > 0 {
				w.Fail("not-version4-variant1", "draws", args, fmt.Sprintf("%d IDs with wrong version/variant bits", res.BadBits), "version 4, variant 1 on every ID", "generated ID is not a version 4 / RFC 4122 variant UUID")
			}
			w.ClassN("long-run-draws", int64(res.Draws))
			w.Sample("long-run", map[string]any{"draws": res.Draws, "ids_kept_for_duplicate_detection": res.Distinct, "duplicates": res.Duplicates})
		})
		c.Require("long-run-draws", longN*9/10)
		c.Serial("gc-churn", func(w *rt.W) {
			args := rt.Args("mode", "two IDs, two garbage collections, repeated; GOMAXPROCS 1; every ID kept", "rounds", churnRounds)
			if churnErr != nil {
				tail := churnStderr
				if len(tail) > 2000 {
					tail = tail[:2000]
				}
				args["stderr"] = tail
				w.Fail("child-died", "draws", args, churnErr.Error(), "normal exit", "the gc-churn process died\n"+tail)
				return
			}
			w.Eval(int64(churnRes.Draws))
			if churnRes.Duplicates > 0 {
				w.Fail("duplicate-id-across-collections", "draws", args, fmt.Sprintf("%d duplicates among %d IDs, e.g. %s", churnRes.Duplicates, churnRes.Draws, churnRes.FirstDuplicate), "no duplicate within a run", "the same ID was returned twice in one process that collected garbage between draws")
			}
			if churnRes.BadBits > 0 {
				w.Fail("not-version4-variant1", "draws", args, fmt.Sprintf("%d IDs with wrong version/variant bits", churnRes.BadBits), "version 4, variant 1 on every ID", "generated ID is not a version 4 / RFC 4122 variant UUID")
			}
			w.ClassN("gc-churn-rounds", int64(churnRes.Draws/2))
		})
		c.Require("gc-churn-rounds", int64(churnRounds)*9/10)
	}
	if len(cpJobs) > 0 {
		c.Serial("count-then-silence", func(w *rt.W) {
			for _, j := range cpJobs {
				args := rt.Args("mode", "one goroutine draws exactly this many IDs, is silent, draws 4096 more; the last 2048 before and all after are kept", "draws_before_the_silence", j.count, "silence_s", cpSecs, "godebug", j.godbg)
				if j.err != nil {
					tail := j.stderr
					if len(tail) > 1500 {
						tail = tail[:1500]
					}
					args["stderr"] = tail
					w.Fail("child-died", "draws", args, j.err.Error(), "normal exit", "the count-then-silence process died\n"+tail)
					continue
				}
				w.Eval(int64(j.res.Draws))
				if j.res.Duplicates > 0 {
					w.Fail("duplicate-id-after-exact-count-and-silence", "draws", args, fmt.Sprintf("%d duplicates among the %d IDs kept, e.g. %s", j.res.Duplicates, j.res.Distinct+int64(j.res.Duplicates), j.res.FirstDuplicate), "no duplicate within a run", "the same ID was returned twice around a silence that followed an exact number of draws")
				}
				if j.res.BadBits > 0 {
					w.Fail("not-version4-variant1", "draws", args, fmt.Sprintf("%d IDs with wrong version/variant bits", j.res.BadBits), "version 4, variant 1 on every ID", "generated ID is not a version 4 / RFC 4122 variant UUID")
				}
				w.ClassN("config-exact-count-then-silence", 1)
			}
		})
		c.Require("config-exact-count-then-silence", int64(len(cpJobs)))
	}
	c.Serial("draws", func(w *rt.W) {
		for _, j := range jobs {
			{
				{
					g, procs, rep, name := j.g, j.procs, j.rep, j.name
					res, blocks, stderr, err := j.res, j.blocks, j.stderr, j.err
					args := rt.Args("goroutines", g, "gomaxprocs", procs, "repetition", rep, "draws", draws)
					if err != nil && err.Error() == "no-taskset" {
						c.Extra("single_cpu_child", "taskset not available: configuration skipped")
						continue
					}
					if err != nil {
						if err.Error() == "watchdog" {
							c.Inconclusive("configuration " + name + " hit the watchdog")
							continue
						}
						tail := stderr
						if len(tail) > 2500 {
							tail = tail[:2500]
						}
						args["stderr"] = tail
						w.Fail("child-died", "draws", args, err.Error(), "normal exit", "the process generating IDs concurrently died\n"+tail)
						continue
					}
					w.Eval(int64(res.Draws))
					w.NT(res.Distinct)
					totalDraws += int64(res.Draws)
					for i := range ones {
						ones[i] += res.Ones[i]
					}
					if res.BadVersion+res.BadVariant+res.BadBits > 0 {
						w.Fail("not-version4-variant1", "draws", args, fmt.Sprintf("%d IDs with wrong version, %d with wrong variant, e.g. %s", res.BadVersion, res.BadVariant, res.FirstBad), "version 4, variant 1 on every ID", "generated ID is not a version 4 / RFC 4122 variant UUID")
					}
					if res.BadText > 0 {
						w.Fail("fresh-id-rendered-as-another", "draws", args, fmt.Sprintf("%d of the IDs rendered right after they were drawn did not give their own text", res.BadText), "every ID renders as itself", "an ID drawn while other goroutines draw was rendered as the text of another ID")
					}
					if res.Duplicates > 0 {
						w.Fail("duplicate-id", "draws", args, fmt.Sprintf("%d duplicates among %d IDs, e.g. %s", res.Duplicates, res.Draws, res.FirstDuplicate), "no duplicate within a run", "the same ID was returned twice in one run")
					}
					uuBlocks := 0
					for _, b := range blocks {
						if strings.Contains(b, "go.lstv.dev/util/uu") {
							uuBlocks++
							raceKinds[c19EntryPair(b)]++
						}
					}
					if uuBlocks > 0 {
						first := ""
						for _, b := range blocks {
							if strings.Contains(b, "go.lstv.dev/util/uu") {
								first = b
								break
							}
						}
						if len(first) > 3000 {
							first = first[:3000]
						}
						args["race_report"] = first
						w.Fail("data-race", "draws", args, fmt.Sprintf("%d race reports with go.lstv.dev/util/uu frames", uuBlocks), "no data race", "the race detector reported a data race in RandomID\n"+first)
					} else if len(blocks) > 0 {
						c.Inconclusive(fmt.Sprintf("%d race reports without uu frames in %s (harness race?)", len(blocks), name))
					}
					if g > 1 && res.Handoffs == 0 && !strings.HasPrefix(name, "pause") && !strings.HasPrefix(name, "frozen") {
						c.Inconclusive("configuration " + name + " showed no goroutine hand-off at all")
					}
					stats = append(stats, cfgStat{g, procs, rep, int64(res.Draws), res.Handoffs, res.MaxRun, res.Distinct, res.MinDistinctWindow, len(blocks)})
					if strings.HasPrefix(name, "onecpu") {
						w.ClassN("config-single-cpu", 1)
					} else if strings.HasPrefix(name, "procs-changing") {
						w.ClassN("config-scheduler-resized-while-drawing", 1)
					} else if strings.HasPrefix(name, "lonely") {
						w.ClassN("config-single-goroutine-plus-timer-callbacks", 1)
						if res.Handoffs == 0 {
							c.Inconclusive("configuration " + name + ": no timer callback drew an ID")
						}
					} else if strings.HasPrefix(name, "pause") {
						w.ClassN("config-silence-then-burst", 1)
					} else if strings.HasPrefix(name, "manyprocs") {
						w.ClassN("config-more-scheduler-slots-than-cores", 1)
					} else if strings.HasPrefix(name, "frozen") {
						w.ClassN("config-process-frozen-and-continued-while-drawing", res.Handoffs)
						w.Sample(name, map[string]any{"draws": res.Draws, "distinct": res.Distinct, "freezes_that_took_place": res.Handoffs})
						if res.Handoffs < 3 {
							c.Inconclusive(fmt.Sprintf("configuration %s: only %d of 3 freezes took place", name, res.Handoffs))
						}
					} else if strings.HasPrefix(name, "burst") {
						w.ClassN("config-burst-of-callers", 1)
					} else {
						w.ClassN(fmt.Sprintf("config-G%d", g), 1)
					}
					if g > 1 && !strings.HasPrefix(name, "frozen") {
						w.ClassN("concurrent-handoffs", res.Handoffs)
					}
					if rep == 0 && procs == 16 {
						w.Sample(name, map[string]any{"draws": res.Draws, "distinct": res.Distinct, "handoffs": res.Handoffs, "max_run": res.MaxRun, "min_distinct_goroutines_per_64_tickets": res.MinDistinctWindow, "race_reports": len(blocks)})
					}
				}
			}
		}
		// per-bit monitor over all draws of the run
		if totalDraws >= 100000 {
			fixed := map[int]int64{62: 0, 63: totalDraws, 64 + 12: 0, 64 + 13: 0, 64 + 14: totalDraws, 64 + 15: 0}
			for b := 0; b < 128; b++ {
				if want, isFixed := fixed[b]; isFixed {
					if ones[b] != want {
						w.Fail("fixed-bit-varies", "draws", rt.Args("bit", b), fmt.Sprint(ones[b], " ones in ", totalDraws), fmt.Sprint(want), "a version/variant bit is not constant")
					}
					continue
				}
				if ones[b] == 0 || ones[b] == totalDraws {
					w.Fail("constant-random-bit", "draws", rt.Args("bit", b, "ones", ones[b], "draws", totalDraws), fmt.Sprintf("bit %d (0 = least significant bit of Lower, 64 = least significant of Higher) had the same value in all %d draws", b, totalDraws), "both values seen", "one of the 122 random bits never varies")
				}
			}
			w.ClassN("per-bit-monitor", 1)
		}
	})
	c.Extra("configurations", stats)
	c.Extra("race_report_kinds", raceKinds)
	c.Extra("total_draws", totalDraws)
	c.Require("concurrent-handoffs", 1000)
	c.Require("per-bit-monitor", 1)
	c.Require("config-silence-then-burst", int64(len(pauses)))
	c.Require("config-burst-of-callers", 3)
	c.Require("config-more-scheduler-slots-than-cores", 4)
	c.Require("config-process-frozen-and-continued-while-drawing", 3)
	c.Require("config-single-goroutine-plus-timer-callbacks", 2)
	c.Require("config-scheduler-resized-while-drawing", 2)
	for _, g := range []int{1, 2, 8, 64} {
		c.Require(fmt.Sprintf("config-G%d", g), int64(4*reps))
	}
}
