package main

import (
	"errors"
	"fmt"
	"math/big"
	"strconv"
	"strings"

	"go.lstv.dev/util/size"

	"verif/ref"
	"verif/rt"
)

// C13 — Shortened and pretty size renderings are exact and maximal.

func init() {
	props["C13"] = runC13
	replayers["C13/render"] = func(v rt.Violation) string {
		c := rt.ReplayCtx("C13")
		c.Serial("replay", func(w *rt.W) { c13Case(w, rt.ArgUint(v, "size")) })
		return c.Report()
	}
}

var binUnits = []string{"B", "KiB", "MiB", "GiB", "TiB", "PiB", "EiB"}

// sizeValueSet is the stratified set of sizes shared by C04 and C13.
func sizeValueSet(r *rt.Rand, nSeeded int, visit func(s uint64)) {
	for k := 0; k <= 63; k++ {
		max := ^uint64(0) >> uint(k)
		odds := []uint64{1, 3, 5, 999, 1023, 1025, max | 1, max/2 | 1, r.U64()>>uint(k) | 1, r.U64()>>uint(k) | 1}
		for _, o := range odds {
			if o <= max {
				visit(o << uint(k))
			}
		}
	}
	visit(0)
	p := uint64(1)
	for d := 1; d <= 20; d++ { // every decimal length
		visit(p - 1)
		visit(p)
		visit(p + 1)
		for k := 0; k <= 60; k += 10 { // shortened value of that decimal length
			if hi, lo := mul64(p, uint64(1)<<uint(k)); hi == 0 {
				visit(lo)
				visit(lo + uint64(1)<<uint(k))
			}
		}
		if d < 20 {
			p *= 10
		}
	}
	for k := 1; k <= 6; k++ {
		b := uint64(1) << uint(10*k)
		t := uint64(1)
		for i := 0; i < k; i++ {
			t *= 1000
		}
		for d := uint64(0); d <= 3; d++ {
			visit(b + d)
			visit(b - d)
			visit(t + d)
			visit(t - d)
		}
		// multiples of 1024^k that are not multiples of 1024^(k+1), close to the top
		visit((^uint64(0) >> uint(10*k)) << uint(10*k))
		visit(((^uint64(0) >> uint(10*k)) - 1) << uint(10*k))
	}
	for d := uint64(0); d <= 3; d++ {
		visit(^uint64(0) - d)
	}
	// decimal structure: digit groups of 3, 4, 6, 8 and 9 that are all zeros, all nines or one off, under every
	// head that fits (chunk-wise digit writers and reciprocal-multiplication divisions go wrong only there),
	// as byte counts and as shortened values of every unit
	for _, cw := range []int{3, 4, 6, 8, 9} {
		chunk := uint64(1)
		for i := 0; i < cw; i++ {
			chunk *= 10
		}
		maxHead := ^uint64(0) / chunk
		heads := []uint64{1, 2, 5, 9, 10, 12, 15, 18, 99, 100, 999, 1000, 12345, 999999, 1000000, 999999999, 1000000000, 4294967295, 4294967296, 12271930590, 14999999999, 15999999999, 18446744072,
			maxHead, maxHead - 1, maxHead / 2, maxHead/3*2 + 1, r.U64() % (maxHead + 1), r.U64() % (maxHead + 1), maxHead - r.U64()%(maxHead/4+1), maxHead - r.U64()%(maxHead/4+1)}
		for _, h := range heads {
			if h > maxHead {
				continue
			}
			for _, low := range []uint64{0, 1, chunk - 1, chunk - 2, chunk / 2, chunk / 10, chunk/10 - 1} {
				hi, v := mul64(h, chunk)
				if hi != 0 || v+low < v {
					continue
				}
				v += low
				visit(v)
				for k := 10; k <= 60; k += 10 {
					if hi, lo := mul64(v, uint64(1)<<uint(k)); hi == 0 {
						visit(lo)
					}
				}
			}
		}
	}
	for i := 0; i < nSeeded; i++ {
		switch i % 4 {
		case 0:
			visit(r.U64())
		case 1:
			visit(r.U64() >> uint(r.Intn(64)))
		case 2:
			k := r.Intn(64)
			visit((r.U64() >> uint(k)) << uint(k))
		default:
			k := 10 * r.Intn(7)
			visit((r.U64()>>uint(k) | 1) << uint(k))
		}
	}
}

func mul64(a, b uint64) (hi, lo uint64) {
	p := new(big.Int).Mul(new(big.Int).SetUint64(a), new(big.Int).SetUint64(b))
	lo = new(big.Int).And(p, new(big.Int).SetUint64(^uint64(0))).Uint64()
	hi = new(big.Int).Rsh(p, 64).Uint64()
	return
}

var c13TextPrefixes = []string{"used, total: ", ",", "a,b;c:d ", "1,234 and ", "x_y_z ", "sum; ", "'", "1'000 ", "1.000.000 ", "\t", "\x00", "|", "~", "#", "KiB MiB ", "B", "512", "sda1", "\u00a0", "\u2009", "&nbsp", "&amp;", "%d ", "(MISSING)", "Část 1 024 ", "日本語"}

func c13Case(w *rt.W, s uint64) {
	sz := size.Size(s)
	fail := func(key, path, got, want string) {
		w.Fail(key, "render", rt.Args("size", fmt.Sprint(s), "path", path), got, want, path+" disagrees with the big-integer shortening / grouping reference")
	}
	wv, wu := ref.Shorten(s)
	gv, gu := sz.Shorten()
	w.Eval(1)
	if gv != wv || gu != wu {
		// say which part of the claim broke
		key := "shorten"
		m, ok := ref.UnitMult(gu)
		isBin := false
		for _, u := range binUnits {
			if u == gu {
				isBin = true
			}
		}
		switch {
		case !ok || !isBin:
			key = "shorten-unit-not-binary"
		case new(big.Int).Mul(new(big.Int).SetUint64(gv), m).Cmp(new(big.Int).SetUint64(s)) != 0:
			key = "shorten-product-not-exact"
		default:
			key = "shorten-not-maximal"
		}
		fail(key, "Shorten", fmt.Sprintf("(%d, %q)", gv, gu), fmt.Sprintf("(%d, %q)", wv, wu))
	}
	digits := strconv.FormatUint(wv, 10)
	plain := digits + wu
	pretty := ref.Group3(digits, " ") + " " + wu
	html := ref.Group3(digits, "&nbsp;") + "&nbsp;" + wu
	// the rendering calls run in an order that depends on the size, so that a result that
	// depends on which rendering was asked for just before (a memo, a shared scratch) is seen
	type rcall struct {
		name string
		want string
		call func() string
	}
	fmtCall := func(flag size.Format) func() string {
		return func() string {
			o, err := size.DefaultFormatter(nil, sz, flag)
			if err != nil {
				return "error: " + err.Error()
			}
			return string(o)
		}
	}
	calls := []rcall{
		{"DefaultFormatter(0)", plain, fmtCall(0)},
		{"DefaultFormatter(FormatPretty)", pretty, fmtCall(size.FormatPretty)},
		{"DefaultFormatter(FormatPretty|FormatHTML)", html, fmtCall(size.FormatPretty | size.FormatHTML)},
		{"DefaultFormatter(FormatHTML)", plain, fmtCall(size.FormatHTML)},
		{"String", plain, func() string { return sz.String() }},
		{"PrettyString", pretty, func() string { return sz.PrettyString() }},
		{"PrettyHTML", html, func() string { return string(sz.PrettyHTML()) }},
		{"BytesString", strconv.FormatUint(s, 10), func() string { return sz.BytesString() }},
		{"MarshalText-or-String", plain, func() string { return sz.String() }},
		{"PrettyString-again", pretty, func() string { return sz.PrettyString() }},
	}
	bufCall := func(prefix string, spare int, flag size.Format) func() string {
		return func() string {
			b := append(make([]byte, 0, len(prefix)+spare), prefix...)
			o, err := size.DefaultFormatter(b, sz, flag)
			if err != nil {
				return "error: " + err.Error()
			}
			return string(o)
		}
	}
	sp := int(s % 73)
	calls = append(calls,
		rcall{fmt.Sprintf("DefaultFormatter(spare %d, FormatPretty|FormatHTML)", sp), html, bufCall("", sp, size.FormatPretty|size.FormatHTML)},
		rcall{fmt.Sprintf("DefaultFormatter(\"disk2\" spare %d, FormatPretty)", (sp*7)%61), "disk2" + pretty, bufCall("disk2", (sp*7)%61, size.FormatPretty)},
		rcall{fmt.Sprintf("DefaultFormatter(\"n=19\" spare %d, 0)", (sp*3)%40), "n=19" + plain, bufCall("n=19", (sp*3)%40, 0)},
		rcall{"DefaultFormatter(\"Total size: \", FormatPretty|FormatHTML)", "Total size: " + html, bufCall("Total size: ", sp%9, size.FormatPretty|size.FormatHTML)},
		rcall{"DefaultFormatter(\"n 1 000\", FormatPretty)", "n 1 000" + pretty, bufCall("n 1 000", sp%11, size.FormatPretty)},
		rcall{"Formatter variable (FormatPretty)", pretty, func() string { o, _ := size.Formatter(nil, sz, size.FormatPretty); return string(o) }},
	)
	{ // the buffer holds text already: separators of every kind a grouping routine may use as a placeholder, digits, the unit letters
		ps := c13TextPrefixes[int(s%uint64(len(c13TextPrefixes)))]
		calls = append(calls,
			rcall{fmt.Sprintf("DefaultFormatter(%q, FormatPretty)", ps), ps + pretty, bufCall(ps, sp%13, size.FormatPretty)},
			rcall{fmt.Sprintf("DefaultFormatter(%q, FormatPretty|FormatHTML)", ps), ps + html, bufCall(ps, sp%17, size.FormatPretty|size.FormatHTML)},
		)
	}
	// refused parses in between (what a refused input leaves behind must not leak into the next rendering)
	poisons := []string{"null", "true", "false", "12 kiB", `{"value":5`, "[]", `{"value":null,"unit":"B"}`, "99999999999999999999999", `"45 Kb"`, "", "{}", " null "}
	for k := uint64(0); k < 2; k++ {
		p := poisons[(s+k*5)%uint64(len(poisons))]
		calls = append(calls, rcall{"refused parse of " + p, "refused", func() string {
			var z size.Size
			_, e1 := size.DefaultParser(p, size.DefaultRule)
			e2 := z.UnmarshalJSON([]byte(p))
			if e1 == nil || (e2 == nil && strings.TrimSpace(p) != "null") {
				return "accepted"
			}
			return "refused"
		}})
	}
	// accepted parses of other spellings of small values in between (a parser that remembers a text it has just
	// read must not hand it to the next rendering), and the text marshaller, which is the default rendering
	spellings := []string{"0KiB", "0GiB", "0 EiB", "0kB", "0 B", "1024B", "1 KiB", "1024 KiB", "1000kB", "0YiB", `"0MiB"`, `{"value":0,"unit":"TiB"}`}
	for k := uint64(0); k < 2; k++ {
		p := spellings[(s+k*7)%uint64(len(spellings))]
		calls = append(calls, rcall{"parse of " + p, "done", func() string {
			// (whether it is accepted depends on the configuration in force, which is C08's and C12's subject; what
			// matters here is that it ran immediately before some rendering)
			rule := size.Rule(0)
			if p[0] == '"' || p[0] == '{' {
				rule = size.RuleEnableJSONStringForm | size.RuleEnableJSONObjectForm
			}
			_, _ = size.DefaultParser(p, rule)
			var z size.Size
			_ = z.UnmarshalText([]byte(p))
			_ = z.UnmarshalJSON([]byte(p))
			return "done"
		}})
	}
	if !size.DisableMarshalTextUnit {
		mtCall := func() string {
			b, err := sz.MarshalText()
			if err != nil {
				return "error: " + err.Error()
			}
			return string(b)
		}
		calls = append(calls, rcall{"MarshalText", plain, mtCall}, rcall{"MarshalText-again", plain, mtCall})
	}
	for k := 0; k < 3; k++ { // the other packages at work in between
		k := k
		calls = append(calls, rcall{"another package formats or refuses something", "done", func() string { foreignActivity(int(s%997)+4*k, "size"); return "done" }})
	}
	h := rt.HashU(s, 13)
	for i := len(calls) - 1; i > 0; i-- {
		j := int(h % uint64(i+1))
		h = h*6364136223846793005 + 1442695040888963407
		calls[i], calls[j] = calls[j], calls[i]
	}
	for _, cl := range calls {
		w.Eval(1)
		if g := cl.call(); g != cl.want {
			fail("rendering-"+strings.SplitN(cl.name, "-", 2)[0], cl.name, g, cl.want)
		}
	}
	if len(digits) >= 4 || (wu != "B" && wu != "KiB") {
		w.NTHash(s)
	}
	w.ClassN("unit-"+wu, 1)
	w.ClassN(fmt.Sprintf("shortened-digits-%02d", len(digits)), 1)
}

func init() {
	sizes := []uint64{0, 1, 1023, 1024, 7 << 20, 1536 << 30, 1 << 60, ^uint64(0), 1000000}
	coldCases["C13"] = coldGeneric([]func(){
		func() { _ = size.Size(0).PrettyHTML() },
		func() { _, _ = size.Size(0).Shorten() },
		func() { _, _ = size.DefaultFormatter(nil, 1<<60, size.FormatHTML) },
		func() { _ = size.Size(1000).PrettyString() },
		func() { _, _ = size.DefaultParser("0ZiB", 0) },
		func() {},
	}, func(w *rt.W, k int) { c13Case(w, sizes[k]) }, len(sizes))
}

func runC13(c *rt.Ctx) {
	soloRun(c, "size")
	c.SetRule("odd x 2^k for every k in 0..63 with boundary and seeded odd parts; every decimal length 1..20 of the size and of the shortened value; neighbours of 1024^k and 1000^k; the largest multiples of each 1024^k; all values below 2^20 (exhaustive); seeded 64-bit values; " +
		"each through Shorten, DefaultFormatter under the four format values, String, PrettyString, PrettyHTML, BytesString. distinct_nontrivial counts distinct sizes (by value) whose shortened value has >= 4 digits or whose unit is above KiB")
	c.Assume("shortening by exact big.Int division and 3-digit grouping re-implemented in harness/ref/size.go")
	{
		v, u := ref.Shorten(1536 << 40)
		v2, u2 := ref.Shorten(^uint64(0))
		v3, u3 := ref.Shorten(1 << 63)
		c.SelfTest("shorten-vectors", v == 1536 && u == "TiB" && v2 == ^uint64(0) && u2 == "B" && v3 == 8 && u3 == "EiB")
		c.SelfTest("group3", ref.Group3("1234567", " ") == "1 234 567" && ref.Group3("123", " ") == "123" && ref.Group3("1000", "&nbsp;") == "1&nbsp;000")
		sc := rt.ReplayCtx("C13")
		sc.Serial("selftest", func(w *rt.W) { w.Fail("k", "render", nil, "1&nbsp;025B", "1025B", "synthetic") })
		c.SelfTest("monitor-records-a-mismatch", sc.Violations() == 1)
	}
	// history: a configured Formatter that fails. String falls back to the byte count, PrettyString and PrettyHTML
	// panic (both documented), MarshalText reports the error. After the default is restored every rendering
	// must be right again - the concurrent streams below all run after this episode.
	{
		old := size.Formatter
		for _, withBytes := range []bool{false, true} {
			withBytes := withBytes
			size.Formatter = func(buf []byte, s size.Size, f size.Format) ([]byte, error) {
				if withBytes {
					b, _ := size.DefaultFormatter(buf, s, f)
					return append(b, "?!"...), errors.New("formatter refuses")
				}
				return nil, errors.New("formatter refuses")
			}
			c.Serial("failing-formatter-episode", func(w *rt.W) {
				for _, s := range []size.Size{0, 1023, 1536 << 20, 1 << 30, ^size.Size(0)} {
					for k := 0; k < 3; k++ {
						if got, want := s.String(), strconv.FormatUint(uint64(s), 10); got != want {
							w.Fail("failing-formatter-string-fallback", "render", rt.Args("size", fmt.Sprint(uint64(s)), "path", "String with a failing Formatter"), got, want, "String falls back to the byte count when the configured Formatter fails")
						}
						p1, _ := rt.Call(func() { _ = s.PrettyString() })
						p2, _ := rt.Call(func() { _ = s.PrettyHTML() })
						_, merr := s.MarshalText()
						w.Eval(4)
						if !p1 || !p2 || merr == nil {
							w.Fail("failing-formatter-not-reported", "render", rt.Args("size", fmt.Sprint(uint64(s)), "path", "PrettyString/PrettyHTML/MarshalText with a failing Formatter"), fmt.Sprint("panicked: ", p1, " ", p2, " MarshalText error: ", merr), "panic, panic, error", "documented behaviour under a failing Formatter")
						}
					}
				}
				w.ClassN("failing-formatter-episode", 1)
			})
		}
		size.Formatter = old
		c.Require("failing-formatter-episode", 1)
	}
	// sizes that shorten to the same number under different units, rendered back to back on one goroutine (a rendering
	// remembered under the number alone shows only here), and the same value under all formats in every order
	c.Serial("same-number-other-unit", func(w *rt.W) {
		for _, m := range []uint64{1, 7, 999, 1000, 1023, 1500, 12345, 999999, 1000000, 123456789} {
			if m%1024 == 0 {
				continue
			}
			var sizes []uint64
			for k := uint(0); k <= 60; k += 10 {
				if hi, lo := mul64(m, uint64(1)<<k); hi == 0 {
					sizes = append(sizes, lo)
				}
			}
			for _, a := range sizes {
				for _, b := range sizes {
					c13Case(w, a)
					c13Case(w, b)
					for _, pair := range [][2]size.Format{{size.FormatPretty, size.FormatPretty}, {size.FormatPretty | size.FormatHTML, size.FormatPretty}, {0, size.FormatPretty}, {size.FormatPretty, 0}} {
						o1, _ := size.DefaultFormatter(nil, size.Size(a), pair[0])
						o2, _ := size.DefaultFormatter(nil, size.Size(b), pair[1])
						v2, u2 := ref.Shorten(b)
						d2 := strconv.FormatUint(v2, 10)
						want2 := d2 + u2
						if pair[1]&size.FormatPretty != 0 {
							want2 = ref.Group3(d2, " ") + " " + u2
						}
						w.Eval(2)
						if string(o2) != want2 {
							w.Fail("rendering-after-same-number-other-unit", "render", rt.Args("size", fmt.Sprint(b), "path", fmt.Sprintf("DefaultFormatter(%d) right after DefaultFormatter(%d) of %d (%s)", pair[1], pair[0], a, o1)), string(o2), want2, "a rendering depends on what was rendered just before")
						}
					}
				}
			}
			w.ClassN("same-number-other-unit", 1)
		}
	})
	c.Require("same-number-other-unit", 8)
	// the size was built by the program just before it is shortened or rendered: from a number and a unit that is not
	// the maximal one (New), from a text or a JSON document that spells it in another unit (parsers, Unmarshal*)
	c.Serial("constructed-then-rendered", func(w *rt.W) {
		units := []string{"B", "KiB", "MiB", "GiB", "TiB", "PiB", "EiB", "kB", "MB", "GB", ""}
		for _, m := range []uint64{1, 2, 3, 1000, 1024, 2048, 4096, 1536, 1048576, 3 << 20, 1 << 30, 1024000, 125, 512, 16} {
			for _, u := range units {
				mult, okU := ref.UnitMult(u)
				if !okU || !mult.IsUint64() {
					continue
				}
				if hi, _ := mul64(m, mult.Uint64()); hi != 0 {
					continue
				}
				for _, build := range []func() (size.Size, error){
					func() (size.Size, error) { return size.New(m, u) },
					func() (size.Size, error) { return size.New(float64(m), u) },
					func() (size.Size, error) { return size.New(int64(m), u) },
					func() (size.Size, error) { return size.DefaultParser(fmt.Sprint(m, u), 0) },
					func() (size.Size, error) { return size.DefaultParser([]byte(fmt.Sprint(m, " ", u)), size.DefaultRule) },
					func() (size.Size, error) {
						var z size.Size
						err := z.UnmarshalText([]byte(fmt.Sprint(m, u)))
						return z, err
					},
					func() (size.Size, error) {
						return size.DefaultParser(fmt.Sprintf(`{"value":%d,"unit":%q}`, m, u), size.RuleEnableJSONObjectForm)
					},
				} {
					z, err := build()
					w.Eval(1)
					if err != nil {
						continue
					}
					c13Case(w, uint64(z))
					c13Case(w, m*mult.Uint64())
					w.ClassN("constructed-then-rendered", 1)
				}
			}
		}
	})
	c.Require("constructed-then-rendered", 500)
	c.Parallel("below-2^20", 0, func(w *rt.W) {
		for s := uint64(w.Shard); s < 1<<20; s += uint64(w.NShards) {
			c13Case(w, s)
		}
	})
	c.Exhaustive("all sizes below 2^20")
	nSeeded := c.Pick(1000000, 60000000)
	c.Parallel("stratified", 0, func(w *rt.W) {
		n := nSeeded / w.NShards
		if w.Shard != 0 {
			// structured part only once
			for i := 0; i < n; i++ {
				var s uint64
				switch i % 4 {
				case 0:
					s = w.Rng.U64()
				case 1:
					s = w.Rng.U64() >> uint(w.Rng.Intn(64))
				case 2:
					k := w.Rng.Intn(64)
					s = (w.Rng.U64() >> uint(k)) << uint(k)
				default:
					k := 10 * w.Rng.Intn(7)
					s = (w.Rng.U64()>>uint(k) | 1) << uint(k)
				}
				c13Case(w, s)
			}
			return
		}
		sizeValueSet(w.Rng, n, func(s uint64) { c13Case(w, s) })
	})
	// renderings must not depend on the marshalling switches, the parser rules or the limits
	cfgN := 0
	for sw := 0; sw < 8; sw++ {
		for _, rule := range []size.Rule{0, size.RuleDisableUnit, size.DefaultRule, 15} {
			restoreSw := c04Apply(sw)
			restoreCfg := c12Apply(c12Cfg{rule: rule, maxKeys: sw % 3, limit: []int{128, 0, 1}[sw%3]})
			c.Parallel(fmt.Sprintf("unrelated-config-%d-%d", sw, rule), 0, func(w *rt.W) {
				if w.Shard == 0 {
					sizeValueSet(w.Rng, 2000, func(s uint64) { c13Case(w, s) })
				}
				for s := uint64(w.Shard); s < 1<<12; s += uint64(w.NShards) {
					c13Case(w, s)
				}
				w.ClassN("under-unrelated-configuration", 1)
			})
			restoreCfg()
			restoreSw()
			cfgN++
		}
	}
	c.Require("under-unrelated-configuration", int64(cfgN))
	coldStart(c, "C13", 12)
	for _, u := range binUnits {
		c.Require("unit-"+u, 64)
	}
	for d := 1; d <= 20; d++ {
		c.Require(fmt.Sprintf("shortened-digits-%02d", d), 1)
	}
}
