package main

import (
	"errors"
	"fmt"
	"reflect"
	"sort"
	"strings"

	"verif/rt"
)

// A returned error belongs to the caller: programs translate messages, strip the input before logging, attach
// context - by assigning to the exported fields of the typed error they were handed. What the library returns
// for the next refusal of the same input must not depend on that (an error object kept and handed out again).

// scribbleReturnedError overwrites the exported fields of the outermost error object if it is one of the
// library's typed errors (a pointer to a struct declared in go.lstv.dev/util); sentinels further down the chain
// are left alone.
func scribbleReturnedError(err error) bool {
	rv := reflect.ValueOf(err)
	if !rv.IsValid() || rv.Kind() != reflect.Ptr || rv.IsNil() || rv.Elem().Kind() != reflect.Struct || !strings.HasPrefix(rv.Type().Elem().PkgPath(), rt.LibraryPrefix) {
		return false
	}
	st := rv.Elem()
	done := false
	for i := 0; i < st.NumField(); i++ {
		f := st.Field(i)
		if !f.CanSet() {
			continue
		}
		switch {
		case f.Kind() == reflect.String:
			f.SetString("edited by the caller")
		case f.Kind() == reflect.Slice && f.Type().Elem().Kind() == reflect.Uint8:
			f.SetBytes([]byte("edited by the caller"))
		case f.Kind() == reflect.Interface && f.Type().Implements(reflect.TypeOf((*error)(nil)).Elem()):
			f.Set(reflect.ValueOf(errors.New("message translated by the caller")).Convert(f.Type()))
		case f.Kind() == reflect.Interface && f.Type().NumMethod() == 0:
			f.Set(reflect.ValueOf("edited by the caller"))
		default:
			f.Set(reflect.Zero(f.Type()))
		}
		done = true
	}
	return done
}

func errorChainShape(err error) string {
	var sb strings.Builder
	for x := err; x != nil; {
		fmt.Fprintf(&sb, "%T;", x)
		u, ok := x.(interface{ Unwrap() error })
		if !ok {
			break
		}
		x = u.Unwrap()
	}
	return sb.String()
}

// callerEditsReturnedErrors: every call is refused, its error recorded (text, chain of types, innermost error),
// edited by the caller, and the same call made again - three rounds, in one goroutine, no other call in between.
func callerEditsReturnedErrors(c *rt.Ctx, calls map[string]func() error) {
	names := make([]string, 0, len(calls))
	for n := range calls {
		names = append(names, n)
	}
	sort.Strings(names)
	c.Require("returned-error-edited-then-call-repeated", int64(len(calls)))
	c.Serial("caller-edits-returned-errors", func(w *rt.W) {
		for _, n := range names {
			call := calls[n]
			var text, shape string
			var innerText string
			for round := 0; round < 3; round++ {
				var err error
				panicked, msg := rt.Call(func() { err = call() })
				w.Eval(1)
				args := rt.Args("call", n, "round", round)
				if panicked {
					w.Fail("panic-after-caller-edited-error", "editerr", args, "panic: "+firstLine(msg), "the same refusal", "see key")
					break
				}
				if err == nil {
					w.DontCare("call chosen as a refusal is accepted on this tree")
					break
				}
				in := err
				for {
					u, ok := in.(interface{ Unwrap() error })
					if !ok || u.Unwrap() == nil {
						break
					}
					in = u.Unwrap()
				}
				if round == 0 {
					text, shape, innerText = err.Error(), errorChainShape(err), in.Error()
				} else if err.Error() != text || errorChainShape(err) != shape || in.Error() != innerText {
					w.Fail("refusal-depends-on-callers-edit-of-earlier-error", "editerr", args, fmt.Sprintf("%q chain %s", err.Error(), errorChainShape(err)), fmt.Sprintf("%q chain %s", text, shape),
						"the caller assigned to the exported fields of the error returned by the previous identical call; the next refusal must be what it was")
					break
				}
				if scribbleReturnedError(err) {
					w.ClassN("returned-error-edited-then-call-repeated", 1)
				}
			}
		}
	})
}
