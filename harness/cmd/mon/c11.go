package main

import (
	"bytes"
	"errors"
	"fmt"
	"time"

	"go.lstv.dev/util/date"

	"verif/ref"
	"verif/rt"
)

// C11 — Date binary encoding is stable, strict and lossless.

func init() {
	props["C11"] = runC11
	replayers["C11/routes"] = func(v rt.Violation) string {
		c := rt.ReplayCtx("C11")
		c11Routes(c)
		return c.Report()
	}
	replayers["C11/roundtrip"] = func(v rt.Violation) string {
		c := rt.ReplayCtx("C11")
		c.Serial("replay", func(w *rt.W) { c11RoundTrip(w, rt.ArgInt(v, "y"), int(rt.ArgInt(v, "m")), int(rt.ArgInt(v, "d"))) })
		return c.Report()
	}
	replayers["C11/decode"] = func(v rt.Violation) string {
		c := rt.ReplayCtx("C11")
		c.Serial("replay", func(w *rt.W) { c11Decode(w, []byte(rt.ArgString(v, "data"))) })
		return c.Report()
	}
}

func c11Encode(y int64, m, d int) []byte {
	u := uint32(int32(y))
	return []byte{1, byte(u >> 24), byte(u >> 16), byte(u >> 8), byte(u), byte(m), byte(d)}
}

func c11RoundTrip(w *rt.W, y int64, m, d int) {
	dt := date.New(int(y), date.Month(m), d)
	fail := func(key, got, want string) {
		w.Fail(key, "roundtrip", rt.Args("y", y, "m", m, "d", d), got, want, "binary marshalling disagrees with the independent encoder / round trip")
	}
	if gy, gm, gd := dt.Date(); int64(gy) != y || int(gm) != m || gd != d {
		fail("new-components", fmt.Sprintf("%d-%d-%d", gy, gm, gd), fmt.Sprintf("%d-%d-%d", y, m, d))
		return
	}
	want := c11Encode(y, m, d)
	got, err := dt.MarshalBinary()
	w.Eval(1)
	if err != nil || !bytes.Equal(got, want) {
		fail("layout", fmt.Sprintf("%x err=%v", got, err), fmt.Sprintf("%x", want))
		return
	}
	back := date.New(1234, 5, 6)
	err = back.UnmarshalBinary(want)
	w.Eval(1)
	if err == nil { // decoding the same bytes again (into another receiver) must give the same date
		again := date.New(4321, 1, 2)
		if err2 := again.UnmarshalBinary(want); err2 != nil || !again.Equal(back) {
			fail("repeated-decode-differs", fmt.Sprint(again, " err=", err2), back.String())
		}
		w.Eval(1)
	}
	if err != nil {
		fail("own-encoding-rejected", "err="+err.Error(), "accepted")
		return
	}
	if by, bm, bd := back.Date(); !back.Equal(dt) || int64(by) != y || int(bm) != m || bd != d {
		fail("roundtrip-differs", fmt.Sprintf("%d-%d-%d", by, bm, bd), fmt.Sprintf("%d-%d-%d", y, m, d))
	}
}

// c11Decode feeds arbitrary bytes to UnmarshalBinary and judges the outcome.
func c11Decode(w *rt.W, data []byte) (accepted bool) {
	accepted = c11DecodeInto(w, data, date.New(1234, 5, 6))
	// the receiver is not always a fresh or unrelated variable: the zero date, the very date the payload
	// starts with (a refresh), the same month and day in a leap year, a neighbouring day
	if len(data) >= 7 && (len(data) != 7 || (data[6] >= 28 && data[4]&3 == 0) || data[6] == 0 || data[5] == 0 || data[5] > 12 || data[4]&15 == 0) {
		y := int64(int32(uint32(data[1])<<24 | uint32(data[2])<<16 | uint32(data[3])<<8 | uint32(data[4])))
		m, d := int(data[5]), int(data[6])
		recvs := []date.Date{{}, date.New(2000, 2, 29), date.New(2024, 12, 31)}
		if ref.ValidYMD(y, m, d) {
			recvs = append(recvs, date.New(int(y), date.Month(m), d))
		}
		if m >= 1 && m <= 12 && d >= 1 && ref.ValidYMD(2000, m, d) {
			recvs = append(recvs, date.New(2000, date.Month(m), d), date.New(-400, date.Month(m), d))
		}
		if m >= 1 && m <= 12 && d >= 2 && ref.ValidYMD(y, m, d-1) {
			recvs = append(recvs, date.New(int(y), date.Month(m), d-1))
		}
		for _, r := range recvs {
			if c11DecodeInto(w, data, r) != accepted {
				w.Fail("verdict-depends-on-receiver", "decode", rt.Args("data", data, "receiver", r.String()), fmt.Sprint(!accepted), fmt.Sprint(accepted), "whether a payload is accepted must not depend on what the receiver held")
			}
		}
	}
	return accepted
}

func c11DecodeInto(w *rt.W, data []byte, before date.Date) (accepted bool) {
	// the record sits at every offset of an 8-byte word (cut from a larger buffer) and the receiver at both alignments a
	// 4-byte-aligned 8-byte struct can have (a field behind an int32): word-wise loads, 64-bit atomics on 32-bit platforms
	sum := 0
	for i, b := range data {
		if i >= 64 {
			break
		}
		sum += int(b)
	}
	backing := make([]byte, len(data)+16)
	off := sum % 8
	in := backing[off : off+len(data) : off+len(data)]
	copy(in, data)
	var holder struct {
		ID  int32
		R   date.Date
		Pad int32
		R2  date.Date
	}
	holder.R, holder.R2 = before, before
	rp := &holder.R
	if sum/8%2 == 1 {
		rp = &holder.R2
	}
	err := rp.UnmarshalBinary(in)
	recv := *rp
	w.Eval(1)
	fail := func(key, got, want string) {
		w.Fail(key, "decode", rt.Args("data", data, "receiver", before.String()), got, want, "UnmarshalBinary outcome violates strictness / real-calendar-date requirement")
	}
	if !bytes.Equal(in, data) {
		fail("input-modified", fmt.Sprintf("%x", in), fmt.Sprintf("%x", data))
	}
	badLen := len(data) != 7
	badVer := len(data) == 0 || data[0] != 1
	if err != nil {
		// the caller refills its buffer with the next record before it looks at the error: what the error says
		// and which documented error it is must not change
		msg := err.Error()
		isLen, isVer := errors.Is(err, date.ErrInvalidLength), errors.Is(err, date.ErrUnsupportedVersion)
		next := c11Encode(2022, 8, 7)
		for i := range in {
			in[i] = next[i%len(next)]
		}
		if m2 := err.Error(); m2 != msg || errors.Is(err, date.ErrInvalidLength) != isLen || errors.Is(err, date.ErrUnsupportedVersion) != isVer {
			fail("error-changes-when-the-input-buffer-is-refilled", m2, msg)
		}
		copy(in, data)
	}
	if err != nil {
		if !recv.Equal(before) {
			fail("receiver-changed-on-error", recv.String(), before.String())
		}
		switch {
		case badLen && badVer:
			if !errors.Is(err, date.ErrInvalidLength) && !errors.Is(err, date.ErrUnsupportedVersion) {
				fail("error-class", err.Error(), "ErrInvalidLength or ErrUnsupportedVersion")
			}
			w.DontCare("both version and length wrong: either documented error")
		case badLen:
			if !errors.Is(err, date.ErrInvalidLength) {
				fail("error-class-length", err.Error(), "ErrInvalidLength")
			}
		case badVer:
			if !errors.Is(err, date.ErrUnsupportedVersion) {
				fail("error-class-version", err.Error(), "ErrUnsupportedVersion")
			}
		default:
			y := int64(int32(uint32(data[1])<<24 | uint32(data[2])<<16 | uint32(data[3])<<8 | uint32(data[4])))
			if ref.ValidYMD(y, int(data[5]), int(data[6])) && y >= -999999999 && y <= 999999999 {
				fail("valid-payload-rejected", "err="+err.Error(), "accepted")
			} else {
				w.DontCare("which error a month/day-invalid payload gets")
			}
		}
		return false
	}
	if badLen {
		fail("wrong-length-accepted", recv.String(), "ErrInvalidLength")
		return true
	}
	if badVer {
		fail("wrong-version-accepted", recv.String(), "ErrUnsupportedVersion")
		return true
	}
	y, m, d := recv.Date()
	if y < -999999999 || y > 999999999 {
		w.DontCare("year beyond +-999,999,999")
		return true
	}
	if !ref.ValidYMD(int64(y), int(m), d) {
		fail("non-date-yielded", fmt.Sprintf("nil error, receiver year=%d month=%d day=%d (String %q)", y, int(m), d, recv.String()), "an error, or a real calendar date")
		return true
	}
	if y >= 0 {
		if s, want := recv.String(), ref.DateText(int64(y), int(m), d, false); s != want {
			fail("string-disagrees-with-components", s, want)
		}
	}
	t := recv.Time()
	if ty, tm, td := t.Date(); ty != y || tm != m || td != d {
		fail("time-disagrees-with-components", t.String(), fmt.Sprintf("%d-%d-%d", y, m, d))
	}
	return true
}

func runC11(c *rt.Ctx) {
	retainedAcrossCollections(c, "Date.MarshalBinary", 256, func(i int) ([]byte, string) {
		y, m, d := int64(1900+i%4000), 1+i%12, 1+i%28
		b, _ := date.New(int(y), time.Month(m), d).MarshalBinary()
		return b, string([]byte{1, byte(uint32(y) >> 24), byte(uint32(y) >> 16), byte(uint32(y) >> 8), byte(uint32(y)), byte(m), byte(d)})
	})
	appenderSweep(c, func() []any {
		var out []any
		for _, v := range []date.Date{date.New(2024, 2, 29), date.New(1, 1, 1), date.New(9999, 12, 31), date.New(-44, 3, 15), date.New(999999999, 12, 31), date.New(-999999999, 1, 1), date.New(256, 1, 1), date.New(65536, 7, 4), date.Date{}} {
			v := v
			out = append(out, v, &v)
		}
		return out
	}())
	c.SetRule("every date of years -400..9999 is enumerated once (exhaustive): MarshalBinary vs an independent encoder and UnmarshalBinary back; seeded dates out to +-999,999,999; for 12 years all 65,536 (month byte, day byte) payloads; all 256 version bytes; all lengths 0..16; seeded random 7-byte payloads with version 1. " +
		"distinct_nontrivial counts distinct payloads with month outside 1..12 or day beyond the month (each enumerated once in the byte grid) plus distinct round-tripped dates")
	c.Assume("byte layout (version 1, big-endian int32 year, month, day) re-implemented in the harness; calendar from harness/ref/civil.go")
	{
		c.SelfTest("encoder-vector", bytes.Equal(c11Encode(2022, 12, 31), []byte{1, 0, 0, 7, 230, 12, 31}) && bytes.Equal(c11Encode(-1, 1, 1), []byte{1, 255, 255, 255, 255, 1, 1}))
		sc := rt.ReplayCtx("C11")
		sc.Serial("selftest", func(w *rt.W) {
			w.Fail("k", "decode", nil, "2022-13-32", "error", "synthetic")
		})
		c.SelfTest("monitor-records-a-mismatch", sc.Violations() == 1)
	}

	first, last := ref.Ordinal(-400, 1, 1), ref.Ordinal(9999, 12, 31)
	total := last - first + 1
	c.Parallel("calendar", 0, func(w *rt.W) {
		lo := first + total*int64(w.Shard)/int64(w.NShards)
		hi := first + total*int64(w.Shard+1)/int64(w.NShards)
		for o := lo; o < hi; o++ {
			y, m, d := ref.Civil(o)
			c11RoundTrip(w, y, m, d)
			w.NT(1)
			if y < 0 {
				w.ClassN("negative-year", 1)
			}
		}
		w.ClassN("calendar-roundtrip", hi-lo)
	})
	c.Exhaustive("all dates of years -400..9999: byte layout and round trip")

	for _, loc := range hostileZones() {
		loc := loc
		withLocal(loc, func() {
			c.Parallel("zones/"+loc.String(), 0, func(w *rt.W) {
				zf, zl := ref.Ordinal(1990, 1, 1), ref.Ordinal(2030, 12, 31)
				for o := zf + int64(w.Shard); o <= zl; o += int64(w.NShards) {
					y, m, d := ref.Civil(o)
					c11RoundTrip(w, y, m, d)
					c11Decode(w, c11Encode(y, m, d))
				}
				w.ClassN("local-zone-sweep", 1)
			})
		})
	}
	c.Require("local-zone-sweep", int64(len(hostileZones())))

	// call histories: years congruent modulo a power of two but with different leap status, decoded back to back
	c.Parallel("year-aliasing-histories", 0, func(w *rt.W) {
		bases := []int64{1900, 2000, 2100, 1996, 2001, 4, 100, 400, 0, -100, -4, -1900}
		k := 0
		for _, b := range bases {
			for sh := 4; sh < 31; sh++ {
				for _, sign := range []int64{1, -1} {
					k++
					if k%w.NShards != w.Shard {
						continue
					}
					y2 := b + sign*(int64(1)<<uint(sh))
					if y2 < -999999999 || y2 > 999999999 {
						continue
					}
					for _, day := range []int{28, 29, 30} {
						for rep := 0; rep < 2; rep++ {
							c11Decode(w, c11Encode(b, 2, day))
							c11Decode(w, c11Encode(y2, 2, day))
							if ref.ValidYMD(y2, 2, day) {
								c11RoundTrip(w, y2, 2, day)
							}
							if ref.ValidYMD(b, 2, day) {
								c11RoundTrip(w, b, 2, day)
							}
						}
					}
					w.ClassN("year-aliasing-history", 1)
				}
			}
		}
	})
	c.Require("year-aliasing-history", 100)

	c11Routes(c)
	c.Require("date-by-every-route", 11)

	nSeeded := c.Pick(1000000, 40000000)
	c.Parallel("far-years", 0, func(w *rt.W) {
		for i := 0; i < nSeeded/w.NShards; i++ {
			y := int64(w.Rng.U64()%1999999999) - 999999999
			if i%50 == 0 {
				y = []int64{-999999999, 999999999, -999999998, 999999998, 65536, -65536, 16777216, -16777217, 255, 256, -256, -257}[w.Rng.Intn(12)]
			}
			m := 1 + w.Rng.Intn(12)
			d := 1 + w.Rng.Intn(ref.DaysIn(y, m))
			c11RoundTrip(w, y, m, d)
			w.NTHash(rt.HashU(uint64(y), uint64(m), uint64(d)))
			if w.Class("far-year-roundtrip") {
				w.Sample("far-year-roundtrip", map[string]any{"y": y, "m": m, "d": d, "bytes": fmt.Sprintf("%x", c11Encode(y, m, d))})
			}
		}
	})

	// the leap rule for every year, not for samples: Feb 28/29/30 payloads of every year within +-1,000,000
	// and of every century year (the only years where the /100 and /400 exceptions act) within +-999,999,999
	c.Parallel("leap-rule-every-year", 0, func(w *rt.W) {
		one := func(y int64) {
			leap := ref.DaysIn(y, 2) == 29
			acc := c11Decode(w, c11Encode(y, 2, 29))
			if acc != leap {
				// c11Decode has already reported it; count for the evidence
				w.ClassN("feb-29-verdict-differs-from-leap-rule", 1)
			}
			c11Decode(w, c11Encode(y, 2, 30))
			if !c11Decode(w, c11Encode(y, 2, 28)) {
				w.ClassN("feb-28-rejected", 1)
			}
			if leap {
				w.ClassN("leap-year-feb-29-payload", 1)
			} else {
				w.ClassN("common-year-feb-29-payload", 1)
			}
		}
		for y := int64(-1000000) + int64(w.Shard); y <= 1000000; y += int64(w.NShards) {
			one(y)
		}
		for y := int64(-999999900) + 100*int64(w.Shard); y <= 999999900; y += 100 * int64(w.NShards) {
			one(y)
			if y%400 != 0 {
				w.ClassN("century-common-year-feb-29-payload", 1)
			}
		}
		w.NT(1)
	})
	c.Exhaustive("Feb 28/29/30 payloads of every year in -1,000,000..1,000,000 and of every multiple of 100 in -999,999,900..999,999,900")
	c.Require("century-common-year-feb-29-payload", 15000000)
	c.Require("leap-year-feb-29-payload", 5000000)

	gridYears := []int64{2022, 2024, 1900, 2000, 0, 1, -1, -4, -400, 9999, 999999999, -999999999}
	c.Parallel("month-day-grid", 0, func(w *rt.W) {
		for yi := w.Shard; yi < len(gridYears); yi += w.NShards {
			y := gridYears[yi]
			for mb := 0; mb < 256; mb++ {
				for db := 0; db < 256; db++ {
					data := c11Encode(y, 1, 1)
					data[5], data[6] = byte(mb), byte(db)
					acc := c11Decode(w, data)
					if !ref.ValidYMD(y, mb, db) {
						w.NT(1)
						w.ClassN("grid-invalid-month-day-payload", 1)
						if acc {
							w.ClassN("grid-invalid-payload-accepted-as-real-date", 1)
						}
						if w.Class("sample-invalid-payload") {
							w.Sample("invalid-month-day-payload", map[string]any{"bytes": fmt.Sprintf("%x", data), "accepted": acc})
						}
					} else {
						w.ClassN("grid-valid-payload", 1)
					}
				}
			}
		}
	})
	c.Exhaustive("12 years x all 65,536 (month byte, day byte) payloads")

	c.Serial("version-length", func(w *rt.W) {
		for v := 0; v < 256; v++ {
			for _, l := range []int{1, 6, 7, 8} {
				data := make([]byte, l)
				copy(data, c11Encode(2022, 6, 15))
				data[0] = byte(v)
				c11Decode(w, data)
				w.ClassN("version-byte-sweep", 1)
			}
		}
		for l := 0; l <= 16; l++ {
			full := append(c11Encode(2022, 6, 15), 1, 2, 3, 4, 5, 6, 7, 8, 9)
			c11Decode(w, full[:l])
			zero := make([]byte, l)
			c11Decode(w, zero)
			w.ClassN("length-sweep", 2)
		}
		// lengths that read 7 in a counter of 8 or 16 bits (and their neighbours), the valid record in front
		for _, l := range []int{255, 256, 257, 262, 263, 264, 519, 775, 4103, 65535, 65536, 65542, 65543, 65544, 131079, 1<<24 + 7} {
			long := make([]byte, l)
			copy(long, c11Encode(2022, 6, 15))
			c11Decode(w, long)
			for i := 7; i < len(long); i++ {
				long[i] = 0xff
			}
			c11Decode(w, long)
			w.ClassN("length-sweep", 2)
		}
		c11Decode(w, nil)
	})
	c.Parallel("foreign-encodings", 0, func(w *rt.W) {
		lo, hi := ref.Ordinal(0, 1, 1), ref.Ordinal(9999, 12, 31)
		for k := 0; k < 40000/w.NShards; k++ {
			y, m, d := ref.Civil(lo + int64(w.Rng.U64()%uint64(hi-lo+1)))
			for _, t := range []string{ref.DateText(y, m, d, false), ref.DateText(y, m, d, true), `"` + ref.DateText(y, m, d, false) + `"`, ref.DateText(y, m, d, true)[:7], "\x01" + ref.DateText(y, m, d, true)[:6], "\x01" + ref.DateText(y, m, d, false), ref.DateText(y, m, d, false) + "\x00"} {
				c11Decode(w, []byte(t))
			}
			w.ClassN("text-form-given-to-binary-decoder", 1)
			// binary forms other packages use for the same day (package time's own, gob's): the version byte may
			// coincide, the layout does not
			tm := time.Date(int(y), time.Month(m), d, 0, 0, 0, 0, time.UTC)
			if tb, err := tm.MarshalBinary(); err == nil {
				c11Decode(w, tb)
				c11Decode(w, tb[:7])
				c11Decode(w, append(c11Encode(y, m, d), tb[7:]...))
			}
			if tb, err := tm.In(time.FixedZone("X", 3600)).MarshalBinary(); err == nil {
				c11Decode(w, tb)
			}
			if gb, err := tm.GobEncode(); err == nil {
				c11Decode(w, gb)
			}
			sec := uint64(tm.Unix())
			c11Decode(w, []byte{1, byte(sec >> 56), byte(sec >> 48), byte(sec >> 40), byte(sec >> 32), byte(sec >> 24), byte(sec >> 16), byte(sec >> 8), byte(sec)})
			w.ClassN("other-binary-encodings-of-the-same-day", 1)
		}
	})
	c.Require("other-binary-encodings-of-the-same-day", 30000)
	c.Require("text-form-given-to-binary-decoder", 30000)
	c.Exhaustive("all 256 version bytes x lengths {1,6,7,8}; all lengths 0..16")

	nRand := c.Pick(1000000, 50000000)
	c.Parallel("random-payloads", 0, func(w *rt.W) {
		for i := 0; i < nRand/w.NShards; i++ {
			data := w.Rng.Bytes(7)
			data[0] = 1
			switch i % 4 {
			case 0: // plausible year, random month/day
				data[1], data[2] = 0, 0
			case 1:
				data[5] = byte(w.Rng.Intn(16))
				data[6] = byte(w.Rng.Intn(40))
			}
			c11Decode(w, data)
			w.NTHash(rt.Hash64(string(data)))
		}
		w.ClassN("random-payload", int64(nRand/w.NShards))
	})
	c.Require("calendar-roundtrip", 3798000)
	c.Require("negative-year", 100000)
	c.Require("grid-invalid-month-day-payload", 700000)
	c.Require("version-byte-sweep", 1024)
	c.Require("length-sweep", 34)
	c.Require("random-payload", 900000)
}

// c11Routes: see the comment inside.
func c11Routes(c *rt.Ctx) {
	// the same date reached by different routes (variables that held something else before, FromTime, Scan, Add ...):
	// one encoding, and the decoded value equal to every one of them
	c.Parallel("dates-by-every-route", 0, func(w *rt.W) {
		ymds := [][3]int{{1, 1, 1}, {2024, 2, 29}, {1965, 3, 4}, {1969, 12, 31}, {1970, 1, 1}, {0, 1, 1}, {-5, 7, 9}, {9999, 12, 31}, {12345, 6, 7}, {1900, 3, 1}, {2000, 1, 1}}
		for i := w.Shard; i < len(ymds); i += w.NShards {
			y, m, d := ymds[i][0], ymds[i][1], ymds[i][2]
			want := c11Encode(int64(y), m, d)
			rs := dateRoutes(y, time.Month(m), d)
			for ri, r := range rs {
				b, err := r.MarshalBinary()
				var back date.Date
				err2 := back.UnmarshalBinary(want)
				w.Eval(2)
				args := rt.Args("y", y, "m", m, "d", d, "route", ri)
				if err != nil || !bytes.Equal(b, want) {
					w.Fail("layout-by-route", "routes", args, fmt.Sprintf("%x err=%v", b, err), fmt.Sprintf("%x", want), "a date that reached its value by another route marshals differently")
				}
				if err2 != nil || !back.Equal(r) || !r.Equal(back) || back != rs[0] && !back.Equal(rs[0]) {
					w.Fail("roundtrip-not-equal-by-route", "routes", args, fmt.Sprint(back, " err=", err2), r.String(), "the decoded date is not equal to the date it was marshalled from (which reached its value by another route)")
				}
				for rj, q := range rs {
					if !r.Equal(q) || r.Before(q) || r.After(q) {
						w.Fail("same-date-by-two-routes-not-equal", "routes", rt.Args("y", y, "m", m, "d", d, "route", ri, "other_route", rj), fmt.Sprint(r.Equal(q), r.Before(q), r.After(q)), "true false false", "two values of the same date compare unequal")
					}
				}
			}
			w.ClassN("date-by-every-route", 1)
		}
	})
}
