package main

import (
	"fmt"
	"runtime/debug"
	"syscall"
	"unsafe"

	"go.lstv.dev/util/date"
	"go.lstv.dev/util/roman"
	"go.lstv.dev/util/sem"
	"go.lstv.dev/util/size"
	"go.lstv.dev/util/uu"

	"verif/rt"
)

// Inputs at the edge of readable memory. A record that ends at the last byte of a mapping (the tail
// of an mmap'ed file, a buffer from a page-granular allocator) is followed by nothing a program may
// read. A parser that loads whole words and masks afterwards, or peeks one byte ahead or behind, is
// indistinguishable from a correct one on heap inputs; here the input is placed so that its last
// byte is the last byte before an inaccessible page, or its first byte the first after one. The
// goroutine runs with debug.SetPanicOnFault, so a stray read becomes a panic the monitor reports
// with the input, instead of killing the process.

type guardArena struct {
	mem        []byte
	lo, hi     int // accessible range inside mem
	accessible bool
}

const guardPage = 4096

func newGuardArena() (*guardArena, error) {
	n := 4 * guardPage // [no access][two accessible pages][no access]
	mem, err := syscall.Mmap(-1, 0, n, syscall.PROT_READ|syscall.PROT_WRITE, syscall.MAP_ANON|syscall.MAP_PRIVATE)
	if err != nil {
		return nil, err
	}
	if err := syscall.Mprotect(mem[:guardPage], syscall.PROT_NONE); err != nil {
		return nil, err
	}
	if err := syscall.Mprotect(mem[3*guardPage:], syscall.PROT_NONE); err != nil {
		return nil, err
	}
	return &guardArena{mem: mem, lo: guardPage, hi: 3 * guardPage}, nil
}

// atEnd copies t so that it ends at the last accessible byte; atStart so that it starts at the first.
func (g *guardArena) atEnd(t string) []byte {
	b := g.mem[g.hi-len(t) : g.hi : g.hi]
	copy(b, t)
	return b
}

func (g *guardArena) atStart(t string) []byte {
	b := g.mem[g.lo : g.lo+len(t) : g.lo+len(t)]
	copy(b, t)
	return b
}

type guardEntry struct {
	name  string
	parse func(b []byte, s string) string
}

var guardEntries = map[string][]guardEntry{
	"date": {
		{"DefaultParser[[]byte]", func(b []byte, s string) string { v, err := date.DefaultParser(b, 0); return fmt.Sprint(v, err != nil) }},
		{"DefaultParser[string]", func(b []byte, s string) string { v, err := date.DefaultParser(s, 0); return fmt.Sprint(v, err != nil) }},
		{"DefaultParser[[]byte](RuleDisableBasic)", func(b []byte, s string) string {
			v, err := date.DefaultParser(b, date.RuleDisableBasic)
			return fmt.Sprint(v, err != nil)
		}},
		{"Date.UnmarshalText", func(b []byte, s string) string {
			var v date.Date
			err := v.UnmarshalText(b)
			return fmt.Sprint(v, err != nil)
		}},
		{"Date.UnmarshalBinary", func(b []byte, s string) string {
			var v date.Date
			err := v.UnmarshalBinary(b)
			return fmt.Sprint(v, err != nil)
		}},
	},
	"roman": {
		{"DefaultParser[[]byte]", func(b []byte, s string) string {
			v, err := roman.DefaultParser(b, 0)
			return fmt.Sprint(uint64(v), err != nil)
		}},
		{"DefaultParser[string]", func(b []byte, s string) string {
			v, err := roman.DefaultParser(s, 0)
			return fmt.Sprint(uint64(v), err != nil)
		}},
		{"Valid[[]byte]", func(b []byte, s string) string { return fmt.Sprint(roman.Valid(b, 0) != nil) }},
		{"Number.UnmarshalText", func(b []byte, s string) string {
			var v roman.Number
			err := v.UnmarshalText(b)
			return fmt.Sprint(uint64(v), err != nil)
		}},
	},
	"sem": {
		{"Parse[[]byte]", func(b []byte, s string) string { v, err := sem.Parse(b); return fmt.Sprintf("%+v %v", v, err != nil) }},
		{"Parse[string]", func(b []byte, s string) string { v, err := sem.Parse(s); return fmt.Sprintf("%+v %v", v, err != nil) }},
		{"ParseTag[[]byte]", func(b []byte, s string) string {
			v, err := sem.ParseTag(b)
			return fmt.Sprintf("%+v %v", v, err != nil)
		}},
		{"Ver.UnmarshalText", func(b []byte, s string) string {
			var v sem.Ver
			err := v.UnmarshalText(b)
			return fmt.Sprintf("%+v %v", v, err != nil)
		}},
		{"Compare[[]byte,string]", func(b []byte, s string) string { v, err := sem.Compare(b, s); return fmt.Sprint(v, err != nil) }},
		{"DefaultComparePreRelease", func(b []byte, s string) string { return fmt.Sprint(sem.DefaultComparePreRelease(b, "rc.1")) }},
	},
	"size": {
		{"DefaultParser[[]byte](0)", func(b []byte, s string) string {
			v, err := size.DefaultParser(b, 0)
			return fmt.Sprint(uint64(v), err != nil)
		}},
		{"DefaultParser[string](JSON forms)", func(b []byte, s string) string {
			v, err := size.DefaultParser(s, size.RuleEnableJSONStringForm|size.RuleEnableJSONObjectForm)
			return fmt.Sprint(uint64(v), err != nil)
		}},
		{"DefaultParser[[]byte](JSON forms)", func(b []byte, s string) string {
			v, err := size.DefaultParser(b, size.RuleEnableJSONStringForm|size.RuleEnableJSONObjectForm)
			return fmt.Sprint(uint64(v), err != nil)
		}},
		{"Size.UnmarshalText", func(b []byte, s string) string {
			var v size.Size
			err := v.UnmarshalText(b)
			return fmt.Sprint(uint64(v), err != nil)
		}},
		{"Size.UnmarshalJSON", func(b []byte, s string) string {
			var v size.Size
			err := v.UnmarshalJSON(b)
			return fmt.Sprint(uint64(v), err != nil)
		}},
	},
	"uu": {
		{"DefaultParser[[]byte]", func(b []byte, s string) string { v, err := uu.DefaultParser(b, 0); return fmt.Sprint(v, err != nil) }},
		{"DefaultParser[string]", func(b []byte, s string) string { v, err := uu.DefaultParser(s, 0); return fmt.Sprint(v, err != nil) }},
		{"ID.UnmarshalText", func(b []byte, s string) string {
			var v uu.ID
			err := v.UnmarshalText(b)
			return fmt.Sprint(v, err != nil)
		}},
	},
}

// guardedInputs parses every text placed at both edges of readable memory through the package's entry
// points and compares with the same call on an ordinary heap copy.
func guardedInputs(c *rt.Ctx, prop, pkg string, texts []string) {
	replayKey := prop + "/guarded"
	if _, ok := replayers[replayKey]; !ok {
		replayers[replayKey] = func(v rt.Violation) string {
			rc := rt.ReplayCtx(prop)
			guardedRun(rc, rt.ArgString(v, "package"), []string{rt.ArgString(v, "input")})
			return rc.Report()
		}
	}
	guardedRun(c, pkg, texts)
	c.Require("input-at-the-edge-of-readable-memory:"+pkg, int64(len(texts)))
}

func guardedRun(c *rt.Ctx, pkg string, texts []string) {
	c.Parallel("guarded/"+pkg, 0, func(w *rt.W) {
		g, err := newGuardArena()
		if err != nil {
			w.C.Inconclusive("cannot map guard pages: " + err.Error())
			return
		}
		defer syscall.Munmap(g.mem)
		old := debug.SetPanicOnFault(true)
		defer debug.SetPanicOnFault(old)
		for i := w.Shard; i < len(texts); i += w.NShards {
			t := texts[i]
			if len(t) == 0 || len(t) > guardPage {
				continue
			}
			for pos, place := range []func(string) []byte{g.atEnd, g.atStart} {
				for _, e := range guardEntries[pkg] {
					heap := []byte(t)
					want := e.parse(heap, string(heap))
					b := place(t)
					var got string
					panicked, msg := rt.Call(func() { got = e.parse(b, *(*string)(unsafe.Pointer(&b))) })
					w.Eval(2)
					args := rt.Args("package", pkg, "entry", e.name, "input", t, "placement", []string{"ends at the last readable byte", "starts at the first readable byte"}[pos])
					switch {
					case panicked:
						w.Fail("read-outside-the-input:"+pkg, "guarded", args, "fault: "+firstLine(msg), want, e.name+" touched memory outside the input it was given (the input borders an inaccessible page)")
					case got != want:
						w.Fail("result-depends-on-memory-around-input:"+pkg, "guarded", args, got, want, e.name+" gave another result for the same bytes placed at the edge of readable memory")
					case string(b) != t:
						w.Fail("input-modified:"+pkg, "guarded", args, string(b), t, e.name+" modified its input")
					}
				}
			}
			w.ClassN("input-at-the-edge-of-readable-memory:"+pkg, 1)
			w.NT(1)
		}
	})
}

func firstLine(s string) string {
	for i := 0; i < len(s); i++ {
		if s[i] == '\n' {
			return s[:i]
		}
	}
	return s
}
