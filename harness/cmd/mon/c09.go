package main

import (
	"errors"
	"fmt"
	"math"
	"strings"
	"time"

	"go.lstv.dev/util/date"

	"verif/ref"
	"verif/rt"
)

// C09 — Date parser accepts only real calendar dates and keeps their components.

func init() {
	props["C09"] = runC09
	replayers["C09/parse"] = func(v rt.Violation) string {
		c := rt.ReplayCtx("C09")
		old := date.MaxInputLength
		date.MaxInputLength = int(rt.ArgInt(v, "limit"))
		defer func() { date.MaxInputLength = old }()
		text, rule := rt.ArgString(v, "text"), date.Rule(rt.ArgInt(v, "rule"))
		c.Serial("replay", func(w *rt.W) { c09Case(w, text, rule, true) })
		if c.Violations() == 0 { // not reproduced alone: as the last call of every two-call history over the history texts and rules
			c.Serial("replay-with-history", func(w *rt.W) {
				texts := []string{"2021-03-04", "20210304", "2000-02-29", "19991231", "2021-02-30", "20210230", text}
				for _, ta := range texts {
					for _, ra := range []date.Rule{0, date.RuleDisableBasic} {
						for _, tb := range texts {
							for _, rb := range []date.Rule{0, date.RuleDisableBasic} {
								c09Case(w, ta, ra, false)
								c09Case(w, tb, rb, false)
								c09Case(w, text, rule, false)
							}
						}
					}
				}
			})
		}
		return c.Report()
	}
}

func c09Fail(w *rt.W, key, text string, r date.Rule, path, got, want string) {
	w.Fail(key, "parse", rt.Args("text", text, "rule", int(r), "limit", date.MaxInputLength, "path", path), got, want, path+" disagrees with the independent calendar recogniser")
}

// dateTyped: the statement asks for "a typed parse error"; either instantiation of
// the generic error type is accepted (for empty string input the library reports
// *ParseError[[]byte] even when called with a string, which the statement does not forbid).
func dateTyped(err error) bool {
	var ps *date.ParseError[string]
	var pb *date.ParseError[[]byte]
	return errors.As(err, &ps) || errors.As(err, &pb)
}

const (
	c09Accepted = iota
	c09RejNonexistent
	c09RejOther
)

// c09Case feeds one text to the parser entry points under the current limit.
func c09Case(w *rt.W, text string, r date.Rule, allPaths bool) int {
	rec := ref.RecogniseDate(text)
	limit := date.MaxInputLength
	tooLong := limit != 0 && len(text) > limit
	basicOff := r&date.RuleDisableBasic != 0
	wantAccept := rec.OK && !tooLong && !(rec.Basic && basicOff)

	judge := func(path string, got date.Date, err error, typed bool) {
		w.Eval(1)
		if wantAccept {
			if err != nil {
				c09Fail(w, "valid-rejected", text, r, path, "err="+err.Error(), "accepted")
				return
			}
			y, m, d := got.Date()
			if int64(y) != rec.Y || int(m) != rec.M || d != rec.D {
				c09Fail(w, "wrong-components", text, r, path, fmt.Sprintf("%d-%d-%d", y, m, d), fmt.Sprintf("%d-%d-%d", rec.Y, rec.M, rec.D))
			}
			return
		}
		if err == nil {
			key := "invalid-accepted"
			if rec.Shaped && !rec.OK && !tooLong && !(rec.Basic && basicOff) {
				key = "nonexistent-day-accepted"
			}
			y, m, d := got.Date()
			c09Fail(w, key, text, r, path, fmt.Sprintf("accepted as %04d-%02d-%02d", y, m, d), "rejected")
			return
		}
		if !typed {
			c09Fail(w, "untyped-error", text, r, path, fmt.Sprintf("%T: %v", err, err), "*date.ParseError[T]")
		}
		if !got.IsZero() || !got.Equal(date.Date{}) {
			c09Fail(w, "nonzero-on-error", text, r, path, got.String(), "zero Date")
		}
		switch {
		case tooLong && rec.OK:
			if !errors.Is(err, date.ErrInputTooLong) {
				c09Fail(w, "limit-error-class", text, r, path, err.Error(), "ErrInputTooLong")
			}
		case !tooLong && rec.OK && rec.Basic && basicOff:
			if !errors.Is(err, date.ErrBasicFormatDisabled) {
				c09Fail(w, "basic-disabled-error-class", text, r, path, err.Error(), "ErrBasicFormatDisabled")
			}
		}
	}
	{
		g, err := date.DefaultParser(text, r)
		judge("DefaultParser[string]", g, err, dateTyped(err))
	}
	if allPaths {
		g, err := date.DefaultParser([]byte(text), r)
		judge("DefaultParser[[]byte]", g, err, dateTyped(err))
		{
			type nS string
			type nB []byte
			g, err := date.DefaultParser(nS(text), r)
			var pe *date.ParseError[nS]
			judge("DefaultParser[named string]", g, err, errors.As(err, &pe) || dateTyped(err))
			g, err = date.DefaultParser(nB(text), r)
			var pb *date.ParseError[nB]
			judge("DefaultParser[named []byte]", g, err, errors.As(err, &pb) || dateTyped(err))
			// named types that print themselves differently from what they contain
			g, err = date.DefaultParser(loudS(text), r)
			judge("DefaultParser[string type with String()]", g, err, errTypeHas(err, "*date.ParseError["))
			g, err = date.DefaultParser(trimB(text), r)
			judge("DefaultParser[[]byte type with trimming String()]", g, err, errTypeHas(err, "*date.ParseError["))
			if len(text)%2 == 0 {
				g, err = date.DefaultParser(errS(text), r)
				judge("DefaultParser[string type with Error()]", g, err, errTypeHas(err, "*date.ParseError["))
				g, err = date.DefaultParser(hexB(text), r)
				judge("DefaultParser[[]byte type with hex String()]", g, err, errTypeHas(err, "*date.ParseError["))
			} else {
				g, err = date.DefaultParser(fmtS(text), r)
				judge("DefaultParser[string type with Format()]", g, err, errTypeHas(err, "*date.ParseError["))
			}
		}
		{
			g, err := date.Parser([]byte(text), r)
			judge("Parser variable", g, err, dateTyped(err))
			rec := append(append(make([]byte, 0, len(text)+16), text...), "|2021-01-01"...)
			g, err = date.DefaultParser(rec[:len(text)], r)
			judge("DefaultParser[[]byte] on a sub-slice", g, err, dateTyped(err))
			if string(rec[len(text):]) != "|2021-01-01" {
				c09Fail(w, "parser-wrote-behind-input", text, r, "DefaultParser[[]byte] on a sub-slice", string(rec), text+"|2021-01-01")
			}
		}
		if r == 0 {
			var u date.Date
			err := u.UnmarshalText([]byte(text))
			judge("UnmarshalText", u, err, dateTyped(err))
		}
	}
	switch {
	case wantAccept:
		return c09Accepted
	case rec.Shaped && !rec.OK:
		return c09RejNonexistent
	}
	return c09RejOther
}

// c09ParserWith is the helper a program configures its Parser through: every closure it returns is the same function
// literal (one code pointer) with another rule captured. Not inlined, as a helper in another package would not be.
//
//go:noinline
func c09ParserWith(r date.Rule) func(in []byte, rule date.Rule) (date.Date, error) {
	return func(in []byte, rule date.Rule) (date.Date, error) { return date.DefaultParser(in, rule|r) }
}

func runC09(c *rt.Ctx) {
	soloRun(c, "date")
	callerEditsReturnedErrors(c, map[string]func() error{
		"date.DefaultParser[string](20200101, RuleDisableBasic)": func() error { _, err := date.DefaultParser("20200101", date.RuleDisableBasic); return err },
		"date.DefaultParser[[]byte](20200101, RuleDisableBasic)": func() error { _, err := date.DefaultParser([]byte("20200101"), date.RuleDisableBasic); return err },
		"date.DefaultParser[string](2021-02-30, 0)":              func() error { _, err := date.DefaultParser("2021-02-30", 0); return err },
		"date.DefaultParser[string](2021-13-01, 0)":              func() error { _, err := date.DefaultParser("2021-13-01", 0); return err },
		"date.DefaultParser[string](not a date, 0)":              func() error { _, err := date.DefaultParser("not a date", 0); return err },
		"date.DefaultParser[string](40 bytes, 0)":                func() error { _, err := date.DefaultParser("2021-01-01                              ", 0); return err },
		"date.Parser variable(20200101, RuleDisableBasic)":       func() error { _, err := date.Parser([]byte("20200101"), date.RuleDisableBasic); return err },
		"Date.UnmarshalText(2021-02-29)":                         func() error { var d date.Date; return d.UnmarshalText([]byte("2021-02-29")) },
	})
	L := c.Pick(9, 11)
	c.SetRule(fmt.Sprintf("(a) 60 years x MM 00-99 x DD 00-99 x 4 separator layouts, enumerated once each, x RuleDisableBasic on/off x MaxInputLength in {0,8,10,15} x {string, []byte, UnmarshalText}; (b) every string over {0,1,2,3,9,-} of length 0..%d (exhaustive) under the default configuration; (c) every single-byte substitution (256 values), insertion and deletion of seeded valid texts under all eight configurations. ", L) +
		"distinct_nontrivial counts distinct (text, rule, limit) cases whose text names a non-existent day in a well-formed layout, plus distinct accepted texts, each enumerated once (family (a) and (b) only)")
	c.Assume("recogniser and calendar come from harness/ref/civil.go; package time is not consulted by the oracle")

	{
		r := ref.RecogniseDate("2021-02-30")
		c.SelfTest("recogniser-rejects-2021-02-30", r.Shaped && !r.OK)
		r = ref.RecogniseDate("2000-02-29")
		c.SelfTest("recogniser-accepts-2000-02-29", r.OK && !r.Basic && r.Y == 2000 && r.M == 2 && r.D == 29)
		r = ref.RecogniseDate("19000229")
		c.SelfTest("recogniser-rejects-19000229", r.Shaped && !r.OK && r.Basic)
		r1, r2, r3, r4 := ref.RecogniseDate("2021-0101"), ref.RecogniseDate("202101-01"), ref.RecogniseDate("021-01-01"), ref.RecogniseDate("1234567890-01-01")
		c.SelfTest("recogniser-rejects-layouts", !r1.OK && !r2.OK && !r3.OK && !r4.OK)
		r = ref.RecogniseDate("123456789-12-31")
		c.SelfTest("recogniser-accepts-9-digit-year", r.OK && r.Y == 123456789)
		sc := rt.ReplayCtx("C09")
		sc.Serial("selftest", func(w *rt.W) { c09Fail(w, "k", "2021-02-30", 0, "p", "accepted as 2021-03-02", "rejected") })
		c.SelfTest("monitor-records-a-mismatch", sc.Violations() == 1)
	}

	years := []int64{0, 1, 4, 100, 400, 1582, 1600, 1700, 1800, 1900, 1970, 1999, 2000, 2001, 2004, 2020, 2021, 2023, 2024, 2100, 2400, 9996, 9999,
		10000, 10004, 12345, 99999, 100000, 100004, 123456, 999999, 1000000, 1234567, 2000000, 9999999, 10000000, 12345678, 40000000, 99999999,
		100000000, 123456789, 400000000, 999999996, 999999999, 3, 96, 104, 196, 200, 300, 500, 1000, 1204, 1300, 1500, 2200, 2300, 2396, 8000, 9900}
	configs := []struct {
		limit int
		rule  date.Rule
	}{{10, 0}, {10, date.RuleDisableBasic}, {0, 0}, {0, date.RuleDisableBasic}, {8, 0}, {8, date.RuleDisableBasic}, {15, 0}, {15, date.RuleDisableBasic},
		// the rule is a bit set: undefined extra bits leave the documented bit's meaning alone
		{10, date.RuleDisableBasic | 2}, {0, ^date.Rule(0)}, {10, 6}, {15, date.RuleDisableBasic | 1<<9}}
	c.Extra("years_in_grid", len(years))

	for ci, cfg := range configs {
		date.MaxInputLength = cfg.limit
		cfg := cfg
		c.Parallel(fmt.Sprintf("grid-%d", ci), 0, func(w *rt.W) {
			buf := make([]byte, 0, 20)
			for yi := w.Shard; yi < len(years); yi += w.NShards {
				ys := fmt.Sprintf("%04d", years[yi])
				for mm := 0; mm < 100; mm++ {
					for dd := 0; dd < 100; dd++ {
						for layout := 0; layout < 4; layout++ {
							buf = append(buf[:0], ys...)
							if layout == 0 || layout == 2 {
								buf = append(buf, '-')
							}
							buf = append(buf, byte('0'+mm/10), byte('0'+mm%10))
							if layout == 0 || layout == 3 {
								buf = append(buf, '-')
							}
							buf = append(buf, byte('0'+dd/10), byte('0'+dd%10))
							text := string(buf)
							switch c09Case(w, text, cfg.rule, true) {
							case c09Accepted:
								w.NT(1)
								w.ClassN("grid-accepted", 1)
							case c09RejNonexistent:
								w.NT(1)
								if w.Class("grid-nonexistent-day") {
									w.Sample("grid-nonexistent-day", map[string]any{"text": text, "limit": cfg.limit, "rule": int(cfg.rule)})
								}
								if mm == 2 && dd == 29 {
									w.ClassN("grid-feb-29-nonleap", 1)
								}
							default:
								w.ClassN("grid-rejected-other", 1)
							}
							if layout >= 2 {
								w.ClassN("grid-mixed-separator-layout", 1)
							}
						}
					}
				}
			}
		})
	}
	date.MaxInputLength = 10

	// process-local time zone: years with midnight DST transitions / skipped days, every MM/DD, both real layouts
	for _, loc := range hostileZones() {
		loc := loc
		withLocal(loc, func() {
			c.Parallel("zones/"+loc.String(), 0, func(w *rt.W) {
				zy := []int64{2011, 1993, 2017, 2018, 2019, 2014, 2010, 1999, 2000, 2024}
				for yi := w.Shard; yi < len(zy); yi += w.NShards {
					for mm := 0; mm <= 13; mm++ {
						for dd := 0; dd <= 32; dd++ {
							c09Case(w, fmt.Sprintf("%04d-%02d-%02d", zy[yi], mm, dd), 0, true)
							c09Case(w, fmt.Sprintf("%04d%02d%02d", zy[yi], mm, dd), date.RuleDisableBasic, true)
							c09Case(w, fmt.Sprintf("%04d%02d%02d", zy[yi], mm, dd), 0, false)
						}
					}
				}
				w.ClassN("local-zone-sweep", 1)
			})
		})
	}
	c.Require("local-zone-sweep", int64(len(hostileZones())))

	// the leap rule for every year, not for samples (limit disabled): Feb 28/29/30 of every year 0..1,000,000 in
	// both layouts, and Feb 29 of every century year up to 999,999,900
	date.MaxInputLength = 0
	c.Parallel("leap-rule-every-year", 0, func(w *rt.W) {
		for y := int64(w.Shard); y <= 1000000; y += int64(w.NShards) {
			all := y%100 == 0 || y < 12000
			for _, t := range []string{fmt.Sprintf("%04d-02-29", y), fmt.Sprintf("%04d0229", y), fmt.Sprintf("%04d-02-28", y), fmt.Sprintf("%04d-02-30", y)} {
				if c09Case(w, t, 0, all) == c09RejNonexistent && t[len(t)-1] == '9' {
					w.ClassN("every-year-feb-29-of-common-year", 1)
				}
			}
		}
		for y := int64(1000000) + 100*int64(w.Shard); y <= 999999900; y += 100 * int64(w.NShards) {
			if c09Case(w, fmt.Sprintf("%d-02-29", y), 0, false) == c09RejNonexistent {
				w.ClassN("century-feb-29-of-common-year", 1)
			} else {
				w.ClassN("century-feb-29-of-leap-year", 1)
			}
			if y%1600 == 0 {
				c09Case(w, fmt.Sprintf("%d0229", y+100), 0, true)
			}
		}
		w.NT(1)
	})
	c.Exhaustive("Feb 28/29/30 of every year 0..1,000,000 (both layouts) and Feb 29 of every multiple of 100 up to 999,999,900, MaxInputLength 0")
	c.Require("every-year-feb-29-of-common-year", 1500000)
	c.Require("century-feb-29-of-common-year", 7000000)
	c.Require("century-feb-29-of-leap-year", 2000000)

	// call histories: years that agree in their low bits / low digits but differ in leap status, parsed
	// back to back (anything remembered between calls under a truncated key shows up here)
	date.MaxInputLength = 0
	c.Parallel("year-aliasing-histories", 0, func(w *rt.W) {
		bases := []int64{1900, 2000, 2100, 1996, 2001, 4, 100, 400, 0}
		k := 0
		for _, b := range bases {
			for sh := 4; sh < 30; sh++ {
				for _, sign := range []int64{1, -1} {
					k++
					if k%w.NShards != w.Shard {
						continue
					}
					y2 := b + sign*(int64(1)<<uint(sh))
					if y2 < 0 || y2 > 999999999 {
						continue
					}
					for _, md := range [][2]int{{2, 28}, {2, 29}, {2, 30}, {12, 31}} {
						for rep := 0; rep < 2; rep++ {
							c09Case(w, fmt.Sprintf("%04d-%02d-%02d", b, md[0], md[1]), 0, true)
							c09Case(w, fmt.Sprintf("%04d-%02d-%02d", y2, md[0], md[1]), 0, true)
							c09Case(w, fmt.Sprintf("%04d%02d%02d", b, md[0], md[1]), 0, true)
						}
					}
					w.ClassN("year-aliasing-history", 1)
				}
			}
		}
		// decimal look-alikes: same last four digits
		for _, y := range []int64{1900, 2100, 2000, 1996} {
			for _, pre := range []int64{1, 2, 10, 99, 12345} {
				y2 := pre*10000 + y
				c09Case(w, fmt.Sprintf("%04d-02-29", y), 0, true)
				c09Case(w, fmt.Sprintf("%d-02-29", y2), 0, true)
				c09Case(w, fmt.Sprintf("%04d-02-29", y), 0, true)
			}
		}
	})
	date.MaxInputLength = 10
	c.Require("year-aliasing-history", 100)

	// call histories: different valid texts of equal length that collide under weak checksums, parsed back to back
	{
		var texts []string
		for o := ref.Ordinal(1000, 1, 1); o <= ref.Ordinal(4299, 12, 31); o++ {
			y, m, d := ref.Civil(o)
			texts = append(texts, ref.DateText(y, m, d, false))
		}
		cols := collisionPairs(texts, 400)
		c.Extra("checksum_collision_pairs", len(cols))
		c.Parallel("checksum-collisions", 0, func(w *rt.W) {
			for i := w.Shard; i < len(cols); i += w.NShards {
				a, b := cols[i].a, cols[i].b
				for _, seq := range [][]string{{a, b, a}, {b, a, b}, {a, a, b, b}} {
					for _, t := range seq {
						if c09Case(w, t, 0, true) != c09Accepted {
							c.Inconclusive("collision universe contains a text the oracle does not accept: " + t)
						}
					}
				}
				ab, bb := strings.ReplaceAll(a, "-", ""), strings.ReplaceAll(b, "-", "")
				c09Case(w, ab, 0, true)
				c09Case(w, bb, 0, true)
				w.ClassN("checksum-collision-pair:"+cols[i].hash, 1)
				w.ClassN("checksum-collision-pairs", 1)
			}
		})
		c.Require("checksum-collision-pairs", 200)
		c.Require("checksum-collision-pair:fnv1a-32", 5)
	}

	// (b) exhaustive small-alphabet strings under the default configuration
	const alphabet = "01239-"
	var roots []string
	for _, a := range alphabet {
		for _, b := range alphabet {
			roots = append(roots, string(a)+string(b))
		}
	}
	c.Parallel("alphabet", 0, func(w *rt.W) {
		visit := func(s string) {
			switch c09Case(w, s, 0, len(s) >= 8) {
			case c09Accepted:
				w.NT(1)
				w.ClassN("alphabet-accepted", 1)
			case c09RejNonexistent:
				w.NT(1)
				w.ClassN("alphabet-nonexistent-day", 1)
			default:
				w.ClassN("alphabet-rejected-other", 1)
			}
		}
		if w.Shard == 0 {
			visit("")
			for _, a := range alphabet {
				visit(string(a))
			}
		}
		buf := make([]byte, 0, 16)
		var rec func(depth int)
		rec = func(depth int) {
			visit(string(buf))
			if depth == L {
				return
			}
			for i := 0; i < len(alphabet); i++ {
				buf = append(buf, alphabet[i])
				rec(depth + 1)
				buf = buf[:len(buf)-1]
			}
		}
		for i := w.Shard; i < len(roots); i += w.NShards {
			buf = append(buf[:0], roots[i]...)
			rec(2)
		}
	})
	c.Exhaustive(fmt.Sprintf("all strings over {0,1,2,3,9,-} of length 0..%d under the default configuration", L))
	c.Exhaustive("60 years x 100 MM x 100 DD x 4 layouts x 8 (rule, limit) configurations x 3 entry points")

	// (c) single-byte mutations of valid texts under every configuration
	nValid := c.Pick(80, 300)
	for ci, cfg := range configs {
		date.MaxInputLength = cfg.limit
		cfg := cfg
		c.Parallel(fmt.Sprintf("mutations-%d", ci), 0, func(w *rt.W) {
			for i := w.Shard; i < nValid; i += w.NShards {
				r := rt.NewRand(c.Seed, "C09/valid", uint64(i))
				digits := 4
				if r.Chance(1, 3) {
					digits = 4 + r.Intn(6)
				}
				var y int64
				for k := 0; k < digits; k++ {
					y = y*10 + int64(r.Intn(10))
				}
				m := 1 + r.Intn(12)
				d := 1 + r.Intn(ref.DaysIn(y, m))
				if r.Chance(1, 3) {
					d = ref.DaysIn(y, m)
				}
				base := fmt.Sprintf("%0*d-%02d-%02d", digits, y, m, d)
				if r.Bool() {
					base = fmt.Sprintf("%0*d%02d%02d", digits, y, m, d)
				}
				c09Case(w, base, cfg.rule, true)
				for p := 0; p <= len(base); p++ {
					if p < len(base) {
						for b := 0; b < 256; b++ {
							c09Case(w, base[:p]+string([]byte{byte(b)})+base[p+1:], cfg.rule, b%16 == 0)
						}
						w.ClassN("single-byte-substitution", 256)
						c09Case(w, base[:p]+base[p+1:], cfg.rule, true)
						w.ClassN("deletion", 1)
					}
					for _, ins := range []string{"0", "1", "9", "-", " ", "\n", "\x00", "\xff", "٣", "１"} {
						c09Case(w, base[:p]+ins+base[p:], cfg.rule, true)
					}
					w.ClassN("insertion", 10)
				}
			}
		})
	}
	date.MaxInputLength = 10
	c.Require("grid-accepted", 10000)
	c.Require("grid-nonexistent-day", 10000)
	c.Require("grid-feb-29-nonleap", 10)
	c.Require("grid-mixed-separator-layout", 100000)
	c.Require("alphabet-accepted", 1)
	c.Require("alphabet-nonexistent-day", 1)
	// the days around the wall clock (UTC and local): today is an input like any other, under every configuration
	// (also: call histories in which the rule changes between calls on a small set of texts)
	{
		now := time.Now()
		var near []string
		for _, t := range []time.Time{now.UTC(), now, now.In(time.FixedZone("E14", 14*3600)), now.In(time.FixedZone("W12", -12*3600))} {
			for dd := -2; dd <= 2; dd++ {
				x := t.AddDate(0, 0, dd)
				near = append(near, x.Format("2006-01-02"), x.Format("20060102"))
			}
		}
		for _, cfg := range configs {
			date.MaxInputLength = cfg.limit
			cfg := cfg
			c.Serial("days-around-today", func(w *rt.W) {
				for _, t := range near {
					c09Case(w, t, cfg.rule, true)
					c09Case(w, t, cfg.rule^date.RuleDisableBasic, true)
				}
				w.ClassN("days-around-today", 1)
			})
		}
		for _, limit := range []int{1, 5, 9, -1, -10, math.MinInt} { // and under limits shorter than any date (a negative limit is non-zero: everything is longer)
			date.MaxInputLength = limit
			c.Serial("days-around-today", func(w *rt.W) {
				for _, t := range near {
					c09Case(w, t, 0, true)
				}
				for _, t := range []string{"2021-03-04", "20210304", "0000-01-01", "2021-02-30", "", "x"} {
					c09Case(w, t, 0, true)
					c09Case(w, t, date.RuleDisableBasic, true)
				}
				w.ClassN("limit-shorter-than-any-date-or-negative", 1)
			})
		}
		c.Require("limit-shorter-than-any-date-or-negative", 6)
		date.MaxInputLength = 10
		c.Require("days-around-today", 8)
		// every history of three calls over six texts x two rules, single-threaded (what one call leaves behind for the
		// next is only visible when nothing else runs in between)
		texts := []string{"2021-03-04", "20210304", "2000-02-29", "19991231", "2021-02-30", "20210230"}
		type step struct {
			t string
			r date.Rule
		}
		var steps []step
		for _, t := range texts {
			steps = append(steps, step{t, 0}, step{t, date.RuleDisableBasic})
		}
		c.Serial("rule-alternating-histories", func(w *rt.W) {
			for _, a := range steps {
				for _, b := range steps {
					for _, d := range steps {
						c09Case(w, a.t, a.r, false)
						c09Case(w, b.t, b.r, false)
						c09Case(w, d.t, d.r, false)
						w.ClassN("rule-alternating-history", 1)
					}
				}
			}
			w.NT(int64(len(steps) * len(steps) * len(steps)))
		})
		c.Require("rule-alternating-history", 1700)
		{
			// longer histories over more texts (tables of the last few accepted texts), and the Parser variable set twice
			// through the same helper with another rule captured (closures of one function literal share their code)
			var hs []func(w *rt.W)
			for _, t := range []string{"2021-03-04", "20210304", "2000-02-29", "19991231", "2021-02-30", "20210230", "20200101", "2020-01-01", "19000228", "1900-02-28", "99991231", "00000101"} {
				for _, r := range []date.Rule{0, date.RuleDisableBasic} {
					t, r := t, r
					hs = append(hs, func(w *rt.W) { c09Case(w, t, r, false) })
				}
			}
			randomHistories(c, hs, 6000, 32)
			oldP := date.Parser
			with := c09ParserWith
			c.Serial("parser-variable-set-twice-through-one-helper", func(w *rt.W) {
				for round := 0; round < 3; round++ {
					for _, text := range []string{"20200101", "19991231", "20240229"} {
						date.Parser = with(0)
						var d1 date.Date
						err1 := d1.UnmarshalText([]byte(text))
						date.Parser = with(date.RuleDisableBasic)
						d2 := date.New(1999, 9, 9)
						err2 := d2.UnmarshalText([]byte(text))
						w.Eval(2)
						if err1 != nil || err2 == nil || !errors.Is(err2, date.ErrBasicFormatDisabled) || !d2.Equal(date.New(1999, 9, 9)) {
							w.Fail("configured-rule-ignored-after-parser-variable-was-set-again", "parsertwice", rt.Args("text", text, "round", round), fmt.Sprint("first: ", d1, " ", err1, "; second: ", d2, " ", err2), "first accepted; second refused with the basic-format error, receiver untouched", "the Parser variable was assigned a second closure of the same function literal, capturing RuleDisableBasic; UnmarshalText uses the Parser variable")
						}
						w.ClassN("parser-variable-set-twice", 1)
					}
				}
			})
			date.Parser = oldP
			c.Require("parser-variable-set-twice", 9)
		}
	}
	// every limit from 0 to 24 (a limit of 9 sits between the two layouts, 11..15 between the year widths) on a
	// reduced grid: all four separator layouts, months and days at and beyond their ends
	for limit := 0; limit <= 24; limit++ {
		date.MaxInputLength = limit
		c.Parallel("every-limit", 0, func(w *rt.W) {
			years := []string{"2020", "0000", "9999", "12345", "999999999", "2021"}
			for yi := w.Shard; yi < len(years); yi += w.NShards {
				for _, mm := range []string{"00", "01", "02", "12", "13"} {
					for _, dd := range []string{"00", "01", "28", "29", "30", "31", "32"} {
						for _, t := range []string{years[yi] + "-" + mm + "-" + dd, years[yi] + mm + dd, years[yi] + "-" + mm + dd, years[yi] + mm + "-" + dd} {
							c09Case(w, t, 0, true)
							c09Case(w, t, date.RuleDisableBasic, false)
							c09Case(w, t+"0", 0, false)
						}
					}
				}
			}
			w.ClassN("limit-value-swept", 1)
		})
	}
	date.MaxInputLength = 10
	c.Require("limit-value-swept", 25)
	// the text as other layers spell it (quoted, bracketed, escaped, padded, doubled, other scripts): not the text
	for _, limit := range []int{10, 0, 60} {
		date.MaxInputLength = limit
		c.Parallel(fmt.Sprintf("decorated-%d", limit), 0, func(w *rt.W) {
			bases := []string{"2021-03-04", "20210304", "0000-01-01", "9999-12-31", "2000-02-29", "19991231", "12345-06-07"}
			for bi := w.Shard; bi < len(bases); bi += w.NShards {
				for _, d := range decorate(bases[bi]) {
					c09Case(w, d, 0, true)
					c09Case(w, d, date.RuleDisableBasic, true)
					w.ClassN("decorated-valid-text", 1)
				}
			}
		})
	}
	date.MaxInputLength = 10
	c.Require("decorated-valid-text", 1500)
	date.MaxInputLength = 10
	guardedInputs(c, "C09", "date", []string{"2021-03-04", "20210304", "0000-01-01", "9999-12-31", "2000-02-29", "2021-02-30", "2021-3-4", "2021-03-0", "x", "2021-03-04x", "99999-01-01", "\x01\x00\x00\x07\xe5\x03\x04", "1", "12", "123", "1234", "12345", "123456", "1234567", "12345678", "123456789"})
	c.Require("single-byte-substitution", 100000)
}
