package main

import (
	"os"
	"testing"
)

// TestMain: with VERIF_TESTBIN=1 the test binary of this package IS the monitor - run.sh's test-binary pass runs the
// property's workload (children included: they are started from the same file) inside a binary for which
// testing.Testing() is true, for trees that ask. Without the variable it is an ordinary test binary (fuzz targets,
// the environment probe).
func TestMain(m *testing.M) {
	if os.Getenv("VERIF_TESTBIN") == "1" {
		main() // exits the process itself
		return
	}
	os.Exit(m.Run())
}
