package main

import (
	"time"

	"go.lstv.dev/util/date"
)

// dateRoutes returns the date y-m-d as programs come by it: built by New, and held by variables that had another
// value before and received this one in place - through FromTime (from midnight, from the last nanosecond of the
// day, in another zone), Scan, UnmarshalText, UnmarshalBinary, Add and AddDuration from a neighbouring day. For
// 0001-01-01 also through the zero time.Time on a used variable. Every one of them is the same date: equal to the
// others, with the same components, encodings and behaviour as a bound or a probe.
func dateRoutes(y int, m time.Month, d int) []date.Date {
	base := date.New(y, m, d)
	out := []date.Date{base}
	used := func() date.Date { return date.New(1987, 6, 5) }
	t0 := time.Date(y, m, d, 0, 0, 0, 0, time.UTC)
	{
		x := used()
		x.FromTime(t0)
		out = append(out, x)
	}
	{
		x := used()
		x.FromTime(time.Date(y, m, d, 23, 59, 59, 999999999, time.UTC))
		out = append(out, x)
	}
	{
		x := used()
		x.FromTime(time.Date(y, m, d, 10, 30, 0, 0, time.FixedZone("E", 5*3600+1800)))
		out = append(out, x)
	}
	{
		x := used()
		if x.Scan(time.Date(y, m, d, 10, 30, 0, 0, time.UTC)) == nil {
			out = append(out, x)
		}
	}
	if y >= 0 && y <= 9999 {
		x := used()
		if x.UnmarshalText([]byte(base.String())) == nil {
			out = append(out, x)
		}
	}
	if b, err := base.MarshalBinary(); err == nil {
		x := used()
		if x.UnmarshalBinary(b) == nil {
			out = append(out, x)
		}
	}
	out = append(out, date.New(y, m, d-1).Add(0, 0, 1), date.New(y, m, d+1).AddDuration(-time.Nanosecond), date.New(y, m, d).AddDuration(23*time.Hour))
	if y == 1 && m == 1 && d == 1 { // the zero time on a variable that held something else
		x := used()
		x.FromTime(time.Time{})
		out = append(out, x)
		z := used()
		if z.Scan(time.Time{}) == nil {
			out = append(out, z)
		}
	}
	return out
}
