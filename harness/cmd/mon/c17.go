package main

import (
	"database/sql"
	"encoding"
	"encoding/gob"
	"encoding/json"
	"encoding/xml"
	"errors"
	"reflect"
	"runtime"
	"strconv"
	"sync"
	"sync/atomic"
	"unsafe"

	"bytes"
	"fmt"
	"strings"
	"time"

	"go.lstv.dev/util/constraint"
	"go.lstv.dev/util/date"
	"go.lstv.dev/util/roman"
	"go.lstv.dev/util/sem"
	"go.lstv.dev/util/size"
	"go.lstv.dev/util/uu"

	"verif/ref"
	"verif/rt"
)

// C17 — Failed parses leave receiver and input untouched; string and bytes agree.

func init() {
	props["C17"] = runC17
	replayers["C17/pairhelpers"] = func(v rt.Violation) string {
		c := rt.ReplayCtx("C17")
		c.Serial("replay", func(w *rt.W) { c17PairHelpers(w, rt.ArgString(v, "a"), rt.ArgString(v, "b")) })
		return c.Report()
	}
	replayers["C17/discovered"] = func(v rt.Violation) string {
		c := rt.ReplayCtx("C17")
		c.Serial("replay", c17DiscoveredAll)
		return c.Report()
	}
	replayers["C17/confparser"] = func(v rt.Violation) string {
		c := rt.ReplayCtx("C17")
		c17Configured(c)
		return c.Report()
	}
	replayers["C17/history"] = func(v rt.Violation) string {
		c := rt.ReplayCtx("C17")
		c.Serial("replay", func(w *rt.W) {
			for _, t := range c17Types() {
				if t.name == rt.ArgString(v, "type") {
					c17History(w, t, rt.NewRand(rt.ArgInt(v, "history_seed"), "C17/history/"+t.name, rt.ArgUint(v, "history_index")), rt.ArgInt(v, "history_seed"), rt.ArgUint(v, "history_index"))
				}
			}
		})
		return c.Report()
	}
	replayers["C17/instantiations"] = func(v rt.Violation) string {
		c := rt.ReplayCtx("C17")
		c.Serial("replay", func(w *rt.W) { c17Instantiations(w, rt.ArgString(v, "input")) })
		return c.Report()
	}
}

type (
	nStr   string
	nBytes []byte
)

// c17Op is one mutating call on the receiver of a history.
type c17Op struct {
	name  string
	bytes bool // takes a []byte input (buffer monitoring applies)
}

type c17Type struct {
	name string
	ops  []c17Op
	// newRecv returns a fresh receiver; call applies op i with the input and returns the error;
	// snap returns a deep copy of the receiver's value as a comparable string rendering.
	newRecv func() any
	call    func(recv any, op int, in []byte, src any) error
	snap    func(recv any) string
	gen     func(r *rt.Rand, op int, wantValid bool) (in []byte, src any)
}

func mutateBytes(r *rt.Rand, b []byte) []byte {
	out := append([]byte(nil), b...)
	if len(out) == 0 {
		return []byte{byte(r.Intn(256))}
	}
	switch r.Intn(4) {
	case 0:
		out[r.Intn(len(out))] = byte(r.Intn(256))
	case 1:
		p := r.Intn(len(out) + 1)
		out = append(out[:p], append([]byte{byte(r.Intn(256))}, out[p:]...)...)
	case 2:
		p := r.Intn(len(out))
		out = append(out[:p], out[p+1:]...)
	default:
		out = out[:r.Intn(len(out))]
	}
	return out
}

func invalidText(r *rt.Rand, valid []byte, limit int) []byte {
	switch r.Intn(6) {
	case 0:
		return nil
	case 1:
		return bytes.Repeat(valid, 1+limit/(len(valid)+1)+1) // over-long
	case 2:
		return []byte("\x00\xff garbage \xc3")
	}
	return mutateBytes(r, valid)
}

func c17Types() []c17Type {
	return []c17Type{
		{
			name: "date", ops: []c17Op{{"UnmarshalText", true}, {"UnmarshalBinary", true}, {"Scan", false}},
			newRecv: func() any { return new(date.Date) },
			call: func(recv any, op int, in []byte, src any) error {
				d := recv.(*date.Date)
				switch op {
				case 0:
					return d.UnmarshalText(in)
				case 1:
					return d.UnmarshalBinary(in)
				}
				return d.Scan(src)
			},
			snap: func(recv any) string {
				d := *recv.(*date.Date)
				y, m, dd := d.Date()
				b, _ := d.MarshalBinary()
				return fmt.Sprintf("%d-%d-%d/%x", y, int(m), dd, b)
			},
			gen: func(r *rt.Rand, op int, wantValid bool) ([]byte, any) {
				y := int64(1 + r.Intn(9998))
				m := 1 + r.Intn(12)
				d := 1 + r.Intn(ref.DaysIn(y, m))
				switch op {
				case 0:
					v := []byte(ref.DateText(y, m, d, r.Bool()))
					if wantValid {
						return v, nil
					}
					if r.Chance(1, 4) {
						return []byte(fmt.Sprintf("%04d-02-30", y)), nil
					}
					return invalidText(r, v, 10), nil
				case 1:
					v := c11Encode(y, m, d)
					if wantValid {
						return v, nil
					}
					switch r.Intn(5) {
					case 0:
						v[0] = byte(2 + r.Intn(250))
					case 1:
						v = v[:r.Intn(7)]
					case 2:
						v = append(v, 0)
					case 3:
						v[5] = byte(13 + r.Intn(200))
					default:
						v[6] = byte(32 + r.Intn(200))
					}
					return v, nil
				}
				if r.Chance(1, 6) { // times whose year does not fit the stored 32-bit year: whatever Scan decides, an error must leave the receiver alone
					return nil, time.Date(int([]int64{1<<31 + 2021, 5000000000, -(1 << 31) - 7, 1<<31 - 1, 1 << 32, 292277026596}[r.Intn(6)]), time.Month(m), d, 0, 0, 0, 0, time.UTC)
				}
				if wantValid {
					return nil, time.Date(int(y), time.Month(m), d, r.Intn(24), r.Intn(60), 0, 0, time.UTC)
				}
				if r.Chance(1, 3) {
					hs := hostileScanSources()
					return nil, hs[r.Intn(len(hs))]
				}
				t := ref.DateText(y, m, d, false)
				return nil, []any{nil, "2021-01-01", []byte("2021-01-01"), 42, 1.5, true, struct{}{}, &time.Time{}, t, []byte(t), t + " 25:61:00", t + "T12:00", t + " ", []byte(t + " 12:00:00x"), t + "x", []byte(t + "\x00"), int64(y), float64(d)}[r.Intn(18)]
			},
		},
		{
			name: "roman", ops: []c17Op{{"UnmarshalText", true}},
			newRecv: func() any { return new(roman.Number) },
			call:    func(recv any, op int, in []byte, src any) error { return recv.(*roman.Number).UnmarshalText(in) },
			snap:    func(recv any) string { return fmt.Sprint(uint64(*recv.(*roman.Number))) },
			gen: func(r *rt.Rand, op int, wantValid bool) ([]byte, any) {
				_, rf := romanFlags(r.Intn(128))
				v := []byte(ref.RomanFormat(uint64(1+r.Intn(20000)), rf))
				if wantValid {
					return v, nil
				}
				if r.Chance(1, 4) {
					return []byte("IIIIII"), nil
				}
				return invalidText(r, append(v, 'Q'), 128), nil
			},
		},
		{
			name: "sem", ops: []c17Op{{"UnmarshalText", true}},
			newRecv: func() any { return new(sem.Ver) },
			call:    func(recv any, op int, in []byte, src any) error { return recv.(*sem.Ver).UnmarshalText(in) },
			snap: func(recv any) string {
				v := *recv.(*sem.Ver)
				return fmt.Sprintf("%d.%d.%d|%s|%s", v.Major, v.Minor, v.Patch, strings.Clone(v.PreRelease), strings.Clone(v.Build))
			},
			gen: func(r *rt.Rand, op int, wantValid bool) ([]byte, any) {
				for {
					s := genVersionText(r)
					b := strings.TrimPrefix(s, "v")
					rv, ok := ref.RecogniseSemVer(b)
					valid := ok && rv.FitsU64() && len(s) <= 1024
					if wantValid && valid && (rv.Pre != "" || rv.Build != "" || r.Chance(1, 3)) {
						return []byte(s), nil
					}
					if !wantValid {
						if !valid {
							return []byte(s), nil
						}
						m := mutateBytes(r, []byte(s))
						b2 := strings.TrimPrefix(string(m), "v")
						if rv2, ok2 := ref.RecogniseSemVer(b2); !(ok2 && rv2.FitsU64()) {
							return m, nil
						}
					}
				}
			},
		},
		{
			name: "size", ops: []c17Op{{"UnmarshalText", true}, {"UnmarshalJSON", true}},
			newRecv: func() any { return new(size.Size) },
			call: func(recv any, op int, in []byte, src any) error {
				if op == 0 {
					return recv.(*size.Size).UnmarshalText(in)
				}
				return recv.(*size.Size).UnmarshalJSON(in)
			},
			snap: func(recv any) string { return fmt.Sprint(uint64(*recv.(*size.Size))) },
			gen: func(r *rt.Rand, op int, wantValid bool) ([]byte, any) {
				val := 1 + r.Intn(4000)
				unit := []string{"", "B", "kB", "KiB", "MB", "GiB"}[r.Intn(6)]
				text := fmt.Sprintf("%d%s", val, unit)
				if op == 0 {
					if wantValid {
						return []byte(text), nil
					}
					return [][]byte{nil, []byte("-1"), []byte("1.5kB"), []byte("10XB"), []byte("99999999999999999999999"), []byte("16EiB"), bytes.Repeat([]byte("1"), 200), mutateBytes(r, []byte(text+"!"))}[r.Intn(8)], nil
				}
				docs := []string{fmt.Sprint(val), `"` + text + `"`, `"` + strings.ReplaceAll(fmt.Sprintf("%d %s", val, unit), " ", `\u00a0`) + `"`, `"\u0031` + text + `\t"`[:0] + `"\u0031` + text[1:] + `"`, fmt.Sprintf(`{"value":%d,"unit":"KiB"}`, val), fmt.Sprintf(`{"x":[1,{"value":2}],"UNIT":"B","Value":%d}`, val)}
				if wantValid {
					return []byte(docs[r.Intn(len(docs))]), nil
				}
				bad := []string{"", "-1", "1.5", `"10XB"`, `{"value":1}`, `{"value":1,"value":2,"unit":"B"}`, `{"value":"1","unit":"B"}`, `[1]`, `true`, `null`, `{"value":1,"unit":"B"`, `10 20`, `{"value":16,"unit":"EiB"}`, strings.Repeat(" ", 200) + "1", docs[r.Intn(len(docs))] + "x"}
				return []byte(bad[r.Intn(len(bad))]), nil
			},
		},
		{
			name: "uu", ops: []c17Op{{"UnmarshalText", true}},
			newRecv: func() any { return new(uu.ID) },
			call:    func(recv any, op int, in []byte, src any) error { return recv.(*uu.ID).UnmarshalText(in) },
			snap:    func(recv any) string { id := *recv.(*uu.ID); return fmt.Sprintf("%016x%016x", id.Higher, id.Lower) },
			gen: func(r *rt.Rand, op int, wantValid bool) ([]byte, any) {
				t := ref.UUIDText(r.U64()|1, r.U64())
				if r.Bool() {
					t = "urn:uuid:" + t
				}
				if r.Chance(1, 4) {
					t = strings.ToUpper(t[:len(t)-36]) + strings.ToUpper(t[len(t)-36:])
					t = strings.Replace(t, "URN:UUID:", "URN:uuid:", 1)
				}
				if wantValid {
					return []byte(t), nil
				}
				if r.Chance(1, 3) { // a defect near the end, after most digits were consumed
					b := []byte(t)
					b[len(b)-1-r.Intn(4)] = "gG-:zx"[r.Intn(6)]
					return b, nil
				}
				return invalidText(r, []byte(t), 45), nil
			},
		},
	}
}

const c17HistoryLen = 40

// c17History runs one history of c17HistoryLen operations on one receiver.
func c17History(w *rt.W, t c17Type, r *rt.Rand, hseed int64, hindex uint64) (sawPattern bool) {
	recv := t.newRecv()
	model := t.snap(recv)
	lastOK := false
	for step := 0; step < c17HistoryLen; step++ {
		op := r.Intn(len(t.ops))
		wantValid := r.Chance(2, 5)
		if lastOK && r.Chance(2, 3) {
			wantValid = false // a failure right after a successful non-zero decode
		}
		in, src := t.gen(r, op, wantValid)
		args := func() map[string]any {
			return rt.Args("type", t.name, "op", t.ops[op].name, "step", step, "input", in, "history_seed", hseed, "history_index", fmt.Sprint(hindex), "model_before", model, "scan_source", fmt.Sprintf("%T", src))
		}
		// carve the input out of a larger array with guard bytes and spare capacity
		var backing, snapshot, buf []byte
		if t.ops[op].bytes {
			pre, post := 4+r.Intn(5), 4+r.Intn(9)
			backing = make([]byte, pre+len(in)+post)
			for i := range backing {
				backing[i] = 0xC7
			}
			copy(backing[pre:], in)
			snapshot = append([]byte(nil), backing...)
			buf = backing[pre : pre+len(in) : len(backing)-2]
			if in == nil && r.Bool() {
				buf = nil
			}
		}
		var err error
		panicked, msg := rt.Call(func() { err = t.call(recv, op, buf, src) })
		w.Eval(1)
		if panicked {
			w.Fail("panic-"+t.name, "history", args(), "panic: "+strings.SplitN(msg, "\n", 2)[0], "an error or a value", t.ops[op].name+" panicked")
			return
		}
		after := t.snap(recv)
		if t.ops[op].bytes && !bytes.Equal(backing, snapshot) {
			w.Fail("input-modified-"+t.name, "history", args(), fmt.Sprintf("%x", backing), fmt.Sprintf("%x", snapshot), t.ops[op].name+" modified the bytes it was given (or their surroundings)")
			copy(backing, snapshot)
		}
		if err != nil {
			if after != model {
				key := "receiver-changed-on-error-"
				if lastOK {
					key = "earlier-value-lost-on-error-"
				}
				w.Fail(key+t.name, "history", args(), after, model, t.ops[op].name+" returned an error but changed the receiver")
				model = after
			}
			if lastOK {
				sawPattern = true
				w.ClassN(t.name+"-failure-right-after-success", 1)
			}
			lastOK = false
		} else {
			model = after
			lastOK = true
			w.ClassN(t.name+"-successful-decode", 1)
		}
		errText := ""
		if err != nil {
			errText = err.Error()
		}
		// the caller reuses its buffer: a parsed value must not change
		if t.ops[op].bytes {
			for i := range backing {
				backing[i] = 0xA5 ^ byte(i*7)
			}
			if now := t.snap(recv); now != model {
				w.Fail("value-aliases-input-buffer-"+t.name, "history", args(), now, model, "the receiver changed when the caller overwrote the input buffer after "+t.ops[op].name+" returned")
				model = now
			}
			if err != nil {
				var now string
				if p, _ := rt.Call(func() { now = err.Error() }); p || now != errText {
					w.Fail("error-aliases-input-buffer-"+t.name, "history", args(), now, errText, "the error returned by "+t.ops[op].name+" reads differently after the caller overwrote the input buffer")
				}
			}
		}
	}
	return
}

// c17Instantiations calls every generic parser entry point on the same content as
// string, []byte, a named string type and a named byte-slice type.
func c17Instantiations(w *rt.W, s string) {
	type out struct {
		val string
		err string
	}
	mk := func(v any, err error) out {
		if err != nil {
			return out{fmt.Sprint(v), "err:" + err.Error()}
		}
		return out{fmt.Sprint(v), ""}
	}
	type entry struct {
		name string
		run  func() [4]out
	}
	// every byte slice handed to a parser is kept and compared with the content afterwards
	var handed [][]byte
	b := func() []byte {
		x := make([]byte, len(s), len(s)+8)
		copy(x, s)
		handed = append(handed, x)
		return x
	}
	entries := []entry{
		{"date.DefaultParser(0)", func() [4]out {
			return [4]out{mk(date.DefaultParser(s, 0)), mk(date.DefaultParser(b(), 0)), mk(date.DefaultParser(nStr(s), 0)), mk(date.DefaultParser(nBytes(b()), 0))}
		}},
		{"date.DefaultParser(RuleDisableBasic)", func() [4]out {
			return [4]out{mk(date.DefaultParser(s, date.RuleDisableBasic)), mk(date.DefaultParser(b(), date.RuleDisableBasic)), mk(date.DefaultParser(nStr(s), date.RuleDisableBasic)), mk(date.DefaultParser(nBytes(b()), date.RuleDisableBasic))}
		}},
		{"roman.DefaultParser(0)", func() [4]out {
			return [4]out{mk(roman.DefaultParser(s, 0)), mk(roman.DefaultParser(b(), 0)), mk(roman.DefaultParser(nStr(s), 0)), mk(roman.DefaultParser(nBytes(b()), 0))}
		}},
		{"roman.Valid(RuleDisableEmptyAsZero)", func() [4]out {
			return [4]out{mk(0, roman.Valid(s, roman.RuleDisableEmptyAsZero)), mk(0, roman.Valid(b(), roman.RuleDisableEmptyAsZero)), mk(0, roman.Valid(nStr(s), roman.RuleDisableEmptyAsZero)), mk(0, roman.Valid(nBytes(b()), roman.RuleDisableEmptyAsZero))}
		}},
		{"sem.Parse", func() [4]out {
			return [4]out{mk(sem.Parse(s)), mk(sem.Parse(b())), mk(sem.Parse(nStr(s))), mk(sem.Parse(nBytes(b())))}
		}},
		{"sem.ParseVersion", func() [4]out {
			return [4]out{mk(sem.ParseVersion(s)), mk(sem.ParseVersion(b())), mk(sem.ParseVersion(nStr(s))), mk(sem.ParseVersion(nBytes(b())))}
		}},
		{"sem.ParseTag", func() [4]out {
			return [4]out{mk(sem.ParseTag(s)), mk(sem.ParseTag(b())), mk(sem.ParseTag(nStr(s))), mk(sem.ParseTag(nBytes(b())))}
		}},
		{"sem.DefaultParser(RuleDisableTag)", func() [4]out {
			return [4]out{mk(sem.DefaultParser(s, sem.RuleDisableTag)), mk(sem.DefaultParser(b(), sem.RuleDisableTag)), mk(sem.DefaultParser(nStr(s), sem.RuleDisableTag)), mk(sem.DefaultParser(nBytes(b()), sem.RuleDisableTag))}
		}},
		{"sem.DefaultComparePreRelease(x, \"rc.1\")", func() [4]out {
			return [4]out{mk(sem.DefaultComparePreRelease(s, "rc.1"), nil), mk(sem.DefaultComparePreRelease(b(), []byte("rc.1")), nil), mk(sem.DefaultComparePreRelease(nStr(s), nBytes("rc.1")), nil), mk(sem.DefaultComparePreRelease(nBytes(b()), nStr("rc.1")), nil)}
		}},
		{"size.DefaultParser(0)", func() [4]out {
			return [4]out{mk(size.DefaultParser(s, 0)), mk(size.DefaultParser(b(), 0)), mk(size.DefaultParser(nStr(s), 0)), mk(size.DefaultParser(nBytes(b()), 0))}
		}},
		{"size.DefaultParser(DefaultRule)", func() [4]out {
			return [4]out{mk(size.DefaultParser(s, size.DefaultRule)), mk(size.DefaultParser(b(), size.DefaultRule)), mk(size.DefaultParser(nStr(s), size.DefaultRule)), mk(size.DefaultParser(nBytes(b()), size.DefaultRule))}
		}},
		{"size.DefaultParser(all rules)", func() [4]out {
			r := size.RuleDisableUnit | size.RuleEnableJSONStringForm | size.RuleEnableJSONObjectForm | size.RuleDisallowUnknownKeys
			return [4]out{mk(size.DefaultParser(s, r)), mk(size.DefaultParser(b(), r)), mk(size.DefaultParser(nStr(s), r)), mk(size.DefaultParser(nBytes(b()), r))}
		}},
		{"uu.DefaultParser(0)", func() [4]out {
			return [4]out{mk(uu.DefaultParser(s, 0)), mk(uu.DefaultParser(b(), 0)), mk(uu.DefaultParser(nStr(s), 0)), mk(uu.DefaultParser(nBytes(b()), 0))}
		}},
		{"uu.DefaultParser(all rules)", func() [4]out {
			r := uu.RuleDisableURN | uu.RuleDisableUpperCaseDigits
			return [4]out{mk(uu.DefaultParser(s, r)), mk(uu.DefaultParser(b(), r)), mk(uu.DefaultParser(nStr(s), r)), mk(uu.DefaultParser(nBytes(b()), r))}
		}},
		{"date.DefaultParser(0) [standard-library types]", func() [4]out {
			return [4]out{mk(date.DefaultParser(s, 0)), mk(date.DefaultParser(json.RawMessage(b()), 0)), mk(date.DefaultParser(json.Number(s), 0)), mk(date.DefaultParser(sql.RawBytes(b()), 0))}
		}},
		{"date.DefaultParser(RuleDisableBasic) [standard-library types]", func() [4]out {
			return [4]out{mk(date.DefaultParser(s, date.RuleDisableBasic)), mk(date.DefaultParser(json.RawMessage(b()), date.RuleDisableBasic)), mk(date.DefaultParser(json.Number(s), date.RuleDisableBasic)), mk(date.DefaultParser(sql.RawBytes(b()), date.RuleDisableBasic))}
		}},
		{"roman.DefaultParser(0) [standard-library types]", func() [4]out {
			return [4]out{mk(roman.DefaultParser(s, 0)), mk(roman.DefaultParser(json.RawMessage(b()), 0)), mk(roman.DefaultParser(json.Number(s), 0)), mk(roman.DefaultParser(sql.RawBytes(b()), 0))}
		}},
		{"roman.Valid(RuleDisableEmptyAsZero) [standard-library types]", func() [4]out {
			return [4]out{mk(0, roman.Valid(s, roman.RuleDisableEmptyAsZero)), mk(0, roman.Valid(json.RawMessage(b()), roman.RuleDisableEmptyAsZero)), mk(0, roman.Valid(json.Number(s), roman.RuleDisableEmptyAsZero)), mk(0, roman.Valid(sql.RawBytes(b()), roman.RuleDisableEmptyAsZero))}
		}},
		{"sem.Parse [standard-library types]", func() [4]out {
			return [4]out{mk(sem.Parse(s)), mk(sem.Parse(json.RawMessage(b()))), mk(sem.Parse(json.Number(s))), mk(sem.Parse(sql.RawBytes(b())))}
		}},
		{"sem.ParseVersion [standard-library types]", func() [4]out {
			return [4]out{mk(sem.ParseVersion(s)), mk(sem.ParseVersion(json.RawMessage(b()))), mk(sem.ParseVersion(json.Number(s))), mk(sem.ParseVersion(sql.RawBytes(b())))}
		}},
		{"sem.ParseTag [standard-library types]", func() [4]out {
			return [4]out{mk(sem.ParseTag(s)), mk(sem.ParseTag(json.RawMessage(b()))), mk(sem.ParseTag(json.Number(s))), mk(sem.ParseTag(sql.RawBytes(b())))}
		}},
		{"sem.DefaultParser(RuleDisableTag) [standard-library types]", func() [4]out {
			return [4]out{mk(sem.DefaultParser(s, sem.RuleDisableTag)), mk(sem.DefaultParser(json.RawMessage(b()), sem.RuleDisableTag)), mk(sem.DefaultParser(json.Number(s), sem.RuleDisableTag)), mk(sem.DefaultParser(sql.RawBytes(b()), sem.RuleDisableTag))}
		}},
		{"sem.DefaultComparePreRelease(x, \"rc.1\") [standard-library types]", func() [4]out {
			return [4]out{mk(sem.DefaultComparePreRelease(s, "rc.1"), nil), mk(sem.DefaultComparePreRelease(json.RawMessage(b()), []byte("rc.1")), nil), mk(sem.DefaultComparePreRelease(json.Number(s), sql.RawBytes("rc.1")), nil), mk(sem.DefaultComparePreRelease(sql.RawBytes(b()), json.Number("rc.1")), nil)}
		}},
		{"size.DefaultParser(0) [standard-library types]", func() [4]out {
			return [4]out{mk(size.DefaultParser(s, 0)), mk(size.DefaultParser(json.RawMessage(b()), 0)), mk(size.DefaultParser(json.Number(s), 0)), mk(size.DefaultParser(sql.RawBytes(b()), 0))}
		}},
		{"size.DefaultParser(DefaultRule) [standard-library types]", func() [4]out {
			return [4]out{mk(size.DefaultParser(s, size.DefaultRule)), mk(size.DefaultParser(json.RawMessage(b()), size.DefaultRule)), mk(size.DefaultParser(json.Number(s), size.DefaultRule)), mk(size.DefaultParser(sql.RawBytes(b()), size.DefaultRule))}
		}},
		{"size.DefaultParser(all rules) [standard-library types]", func() [4]out {
			r := size.RuleDisableUnit | size.RuleEnableJSONStringForm | size.RuleEnableJSONObjectForm | size.RuleDisallowUnknownKeys
			return [4]out{mk(size.DefaultParser(s, r)), mk(size.DefaultParser(json.RawMessage(b()), r)), mk(size.DefaultParser(json.Number(s), r)), mk(size.DefaultParser(sql.RawBytes(b()), r))}
		}},
		{"uu.DefaultParser(0) [standard-library types]", func() [4]out {
			return [4]out{mk(uu.DefaultParser(s, 0)), mk(uu.DefaultParser(json.RawMessage(b()), 0)), mk(uu.DefaultParser(json.Number(s), 0)), mk(uu.DefaultParser(sql.RawBytes(b()), 0))}
		}},
		{"uu.DefaultParser(all rules) [standard-library types]", func() [4]out {
			r := uu.RuleDisableURN | uu.RuleDisableUpperCaseDigits
			return [4]out{mk(uu.DefaultParser(s, r)), mk(uu.DefaultParser(json.RawMessage(b()), r)), mk(uu.DefaultParser(json.Number(s), r)), mk(uu.DefaultParser(sql.RawBytes(b()), r))}
		}},
	}
	for _, e := range entries {
		names := [4]string{"string", "[]byte", "named string", "named []byte"}
		if strings.HasSuffix(e.name, "[standard-library types]") {
			names = [4]string{"string", "json.RawMessage", "json.Number", "sql.RawBytes"}
		}
		var o [4]out
		panicked, msg := rt.Call(func() { o = e.run() })
		w.Eval(4)
		if panicked {
			w.Fail("panic-instantiation", "instantiations", rt.Args("input", s, "entry", e.name), "panic: "+strings.SplitN(msg, "\n", 2)[0], "four results", e.name+" panicked")
			continue
		}
		for i := 1; i < 4; i++ {
			if o[i] != o[0] {
				key := "instantiations-disagree-value"
				if o[i].val == o[0].val {
					key = "instantiations-disagree-error-text"
				}
				w.Fail(key, "instantiations", rt.Args("input", s, "entry", e.name, "instantiation", names[i]), fmt.Sprintf("%s: (%s, %q)", names[i], o[i].val, o[i].err), fmt.Sprintf("string: (%s, %q)", o[0].val, o[0].err), e.name+": parsing the same content as "+names[i]+" and as string must give identical values and error messages")
			}
		}
		for _, x := range handed {
			if string(x) != s || string(x[:cap(x)][len(x):]) != "\x00\x00\x00\x00\x00\x00\x00\x00" {
				w.Fail("input-modified-by-generic-parser", "instantiations", rt.Args("input", s, "entry", e.name), fmt.Sprintf("%q", x[:cap(x)]), fmt.Sprintf("%q", s), e.name+" modified the byte slice it was given")
				break
			}
		}
		handed = handed[:0]
		if o[0].err == "" {
			w.ClassN("instantiation-agreement-on-accepted", 1)
		} else {
			w.ClassN("instantiation-agreement-on-rejected", 1)
		}
	}
}

func runC17(c *rt.Ctx) {
	configuredEpisode() // the process has a past: failing configured Formatters and Parsers, since restored
	c.Extra("history_before_the_streams", "an episode of failing configured Formatter/Parser variables in all five packages")
	nHist := c.Pick(20000, 600000)
	c.SetRule(fmt.Sprintf("per type (date, roman, sem, size, uu) %d seeded histories of %d operations on one receiver: UnmarshalText (all), UnmarshalJSON (size), UnmarshalBinary and Scan (date), inputs drawn from valid texts of non-zero values, single-byte mutations, truncations, over-long and empty inputs, wrong-type Scan sources, wrong length/version and month/day-invalid binaries, with a failing call forced after two thirds of the successful ones; ", nHist, c17HistoryLen) +
		"every input is carved from a larger array with guard bytes (snapshot before, compare after, then overwritten) and the receiver is compared with a deep-copied model after every step and after the overwrite; separately a pool of valid and near-valid inputs goes through 14 generic entry points instantiated at string, []byte, a named string type and a named byte-slice type, and at the standard library's json.RawMessage, json.Number and sql.RawBytes. " +
		"distinct_nontrivial counts distinct histories (by seed/index) that contain the pattern success(non-zero) -> failure")
	c.Assume("the receiver's observable value is captured through its exported accessors/fields with string contents cloned; Go runtime trusted")
	{
		// a synthetic type that assigns before validating must be flagged
		bad := c17Type{name: "selftest", ops: []c17Op{{"UnmarshalText", true}},
			newRecv: func() any { return new(int) },
			call: func(recv any, op int, in []byte, src any) error {
				*recv.(*int) = len(in)
				if len(in)%2 == 1 {
					return fmt.Errorf("odd")
				}
				return nil
			},
			snap: func(recv any) string { return fmt.Sprint(*recv.(*int)) },
			gen: func(r *rt.Rand, op int, wantValid bool) ([]byte, any) {
				n := 2 * (1 + r.Intn(5))
				if !wantValid {
					n++
				}
				return bytes.Repeat([]byte("x"), n), nil
			}}
		sc := rt.ReplayCtx("C17")
		sc.Serial("selftest", func(w *rt.W) { c17History(w, bad, rt.NewRand(1, "selftest", 0), 1, 0) })
		c.SelfTest("monitor-flags-assign-before-validate", sc.Violations() >= 1)
	}
	for _, t := range c17Types() {
		t := t
		c.Parallel("history/"+t.name, 0, func(w *rt.W) {
			for i := w.Shard; i < nHist; i += w.NShards {
				r := rt.NewRand(c.Seed, "C17/history/"+t.name, uint64(i))
				if c17History(w, t, r, c.Seed, uint64(i)) {
					w.NT(1)
				}
			}
			if w.Class(t.name + "-sample") {
				r := rt.NewRand(c.Seed, "C17/sample/"+t.name, 0)
				var steps []string
				for k := 0; k < 6; k++ {
					op := r.Intn(len(t.ops))
					in, src := t.gen(r, op, k%2 == 0)
					steps = append(steps, fmt.Sprintf("%s(%q %v)", t.ops[op].name, in, src))
				}
				w.Sample(t.name+"-history-prefix", steps)
			}
		})
		c.Require(t.name+"-failure-right-after-success", 10000)
		c.Require(t.name+"-successful-decode", 10000)
	}
	// buffers shared read-only between goroutines: some parse them over and over, others only look at
	// them. A parser that changes its input and restores it before returning is invisible to a
	// before/after snapshot of a private buffer, but not to a concurrent reader.
	{
		var shared [][]byte
		var snaps []string
		gen := rt.NewRand(c.Seed, "C17/shared", 0)
		for _, t := range c17Types() {
			for k := 0; k < 12; k++ {
				in, _ := t.gen(gen, 0, k%4 != 3)
				if t.name == "roman" && k%2 == 0 {
					in = []byte(strings.ToLower(string(in)))
				}
				if t.name == "size" {
					in2, _ := t.gen(gen, 1, true)
					shared = append(shared, in2)
					snaps = append(snaps, string(in2))
				}
				shared = append(shared, in)
				snaps = append(snaps, string(in))
			}
		}
		shared = append(shared, []byte(`"1\u00a0536\u00a0kB"`), []byte(`"\u0031\u0030 KiB"`), []byte("mcmxciv"), []byte("urn:UUID:f81d4fae-7dec-11d0-a765-00a0c91e6bf6"), []byte("v1.0.0-RC.1+B"))
		for _, b := range shared[len(snaps):] {
			snaps = append(snaps, string(b))
		}
		rounds := c.Pick(4000, 60000)
		var stop int32
		var seenMod int64
		var witness atomic.Value
		var wg sync.WaitGroup
		for g := 0; g < 4; g++ { // watchers
			wg.Add(1)
			go func() {
				defer wg.Done()
				for atomic.LoadInt32(&stop) == 0 {
					for i, b := range shared {
						if cur := string(b); cur != snaps[i] {
							if atomic.AddInt64(&seenMod, 1) == 1 {
								witness.Store([2]string{cur, snaps[i]})
							}
						}
					}
				}
			}()
		}
		var pw sync.WaitGroup
		for g := 0; g < 12; g++ { // parsers
			pw.Add(1)
			go func(g int) {
				defer pw.Done()
				for r := 0; r < rounds; r++ {
					b := shared[(r*7+g)%len(shared)]
					switch r % 6 {
					case 0:
						_, _ = date.DefaultParser(b, 0)
						_, _ = roman.DefaultParser(b, 0)
					case 1:
						_, _ = sem.Parse(b)
						_, _ = uu.DefaultParser(b, 0)
					case 2:
						_, _ = size.DefaultParser(b, size.DefaultRule)
						_, _ = size.DefaultParser(b, 0)
					case 3:
						var n roman.Number
						_ = n.UnmarshalText(b)
						_ = roman.Valid(b, 0)
					case 4:
						var s size.Size
						_ = s.UnmarshalJSON(b)
						var v sem.Ver
						_ = v.UnmarshalText(b)
					default:
						var d date.Date
						_ = d.UnmarshalText(b)
						_ = d.UnmarshalBinary(b)
						var id uu.ID
						_ = id.UnmarshalText(b)
					}
				}
			}(g)
		}
		pw.Wait()
		atomic.StoreInt32(&stop, 1)
		wg.Wait()
		c.Serial("shared-buffers", func(w *rt.W) {
			w.Eval(int64(12 * rounds * 2))
			w.ClassN("shared-buffer-parse-rounds", int64(12*rounds))
			if n := atomic.LoadInt64(&seenMod); n > 0 {
				wt, _ := witness.Load().([2]string)
				w.Fail("input-modified-transiently", "shared-buffers", rt.Args("seen", wt[0], "original", wt[1]), fmt.Sprintf("a concurrent reader saw %q (%d observations)", wt[0], n), fmt.Sprintf("%q at all times", wt[1]), "a parser changed the bytes it was given while it ran (and put them back before returning)")
			}
		})
		c.Require("shared-buffer-parse-rounds", 10000)
	}

	nPool := c.Pick(40000, 1000000)
	c.Parallel("instantiations", 0, func(w *rt.W) {
		ts := c17Types()
		for i := w.Shard; i < nPool; i += w.NShards {
			r := rt.NewRand(c.Seed, "C17/pool", uint64(i))
			t := ts[r.Intn(len(ts))]
			op := 0
			in, _ := t.gen(r, op, r.Bool())
			c17Instantiations(w, string(in))
			w.NTHash(rt.Hash64(string(in)))
		}
		if w.Shard == 0 {
			for _, s := range []string{"", " ", "v", "1.0.0", "v1.0.0-rc.1+b", "2021-02-28", "20210228", "MMXXI", "mmxxi", "10 kB", `"10kB"`, `{"value":1,"unit":"B"}`, "urn:uuid:f81d4fae-7dec-11d0-a765-00a0c91e6bf6", "F81D4FAE-7DEC-11D0-A765-00A0C91E6BF6", "\xff\xfe", "ééa", "rc.1", "rc.01", "\x00"} {
				c17Instantiations(w, s)
			}
			// separators in every place of a number and its unit (in front, between the digits, before and inside the unit,
			// behind): two scanners written for strings and for bytes tend to differ in where they let a separator pass
			for _, base := range []string{"1", "0", "007", "10kB", "1024 KiB", "12 345 678", "5e3", "-1", "1.0MB"} {
				for pos := 0; pos <= len(base); pos++ {
					for _, deco := range []string{" ", "\u00a0", "_", "\t", "\n", "\u202f", "\u2007", "\ufeff", "\xa0", "\xc2", "+", "'", ","} {
						c17Instantiations(w, base[:pos]+deco+base[pos:])
						c17Instantiations(w, base[:pos]+deco+deco+base[pos:])
						w.ClassN("instantiation-separator-in-every-place", 2)
					}
				}
			}
			// JSON documents that are almost one value: something behind it, something missing at the end
			// several unknown keys at once (a message assembled from a map names them in another order every time)
			for rep := 0; rep < 12; rep++ {
				for _, doc := range []string{`{"value":1,"unit":"B","a":1,"b":2,"c":3,"d":4}`, `{"x":1,"y":2,"value":1,"unit":"B"}`, `{"p":null,"q":[],"r":{},"s":"","t":0,"value":7,"unit":"kB"}`, `{"value":1,"unit":"B","value2":2,"unit2":"x","Value":3}`} {
					c17Instantiations(w, doc)
				}
			}
			for _, doc := range []string{"1", "1024", `"1KiB"`, `"10 kB"`, `{"value":1,"unit":"KiB"}`, `{"unit":"MB","value":3}`, `{"value":"7"}`, "null", "1e3", "1.5e1"} {
				for _, tail := range []string{" x", " 2", " 1", ",", "}", "]", "\x00", " null", `""`, " trailing", "\n\n{}", "//c"} {
					c17Instantiations(w, doc+tail)
					c17Instantiations(w, " "+doc+tail)
				}
				for cut := 1; cut < len(doc); cut++ {
					c17Instantiations(w, doc[:cut])
				}
				w.ClassN("instantiation-json-almost-one-value", 1)
			}
		}
	})
	c.Require("instantiation-json-almost-one-value", 10)
	c.Require("instantiation-separator-in-every-place", 1000)
	{
		// inputs longer than any default limit, with the limits raised or removed: refused ones are printed (Error()) before the buffers are compared
		oD, oR, oS, oZ, oU := date.MaxInputLength, roman.MaxInputLength, sem.MaxInputLength, size.MaxInputLength, uu.MaxInputLength
		for _, limit := range []int{0, 1 << 20} {
			date.MaxInputLength, roman.MaxInputLength, sem.MaxInputLength, size.MaxInputLength, uu.MaxInputLength = limit, limit, limit, limit, limit
			c.Parallel(fmt.Sprintf("instantiations-long-%d", limit), 0, func(w *rt.W) {
				bases := []string{"2021-02-28", "MMXXI", "v1.0.0-rc.1+b", "1.2.3", "10 kB", `{"value":1,"unit":"B"}`, "f81d4fae-7dec-11d0-a765-00a0c91e6bf6", "x", ""}
				lens := []int{250, 253, 254, 255, 256, 257, 258, 260, 300, 511, 512, 513, 1000, 1023, 1024, 1025, 4096, 5000, 70000}
				n := 0
				for _, base := range bases {
					for _, l := range lens {
						n++
						if n%w.NShards != w.Shard {
							continue
						}
						for _, fill := range []string{"x", " ", "0", "M", ".1", "\xc3\xa9"} {
							if l <= len(base) {
								continue
							}
							pad := strings.Repeat(fill, (l-len(base))/len(fill)+1)[:l-len(base)]
							c17Instantiations(w, base+pad)
							c17Instantiations(w, pad+base)
							w.ClassN("instantiation-long-input-with-limit-raised", 2)
						}
					}
				}
			})
		}
		date.MaxInputLength, roman.MaxInputLength, sem.MaxInputLength, size.MaxInputLength, uu.MaxInputLength = oD, oR, oS, oZ, oU
		c.Require("instantiation-long-input-with-limit-raised", 1000)
	}
	// the caller refills one buffer with document after document (all five types, every []byte entry point)
	refillRun(c, c.Pick(30000, 300000), "date", "date-json", "roman", "sem", "size", "size-text", "uu")
	c17Configured(c)
	c.Require("configured-parser-call", 24)
	c.Parallel("pair-helpers", 0, func(w *rt.W) {
		texts := []string{"1.0.0-rc.1+b7", "v1.0.0-rc.1+b7", "1.0.0-rc.1+other", "v1.0.0-rc.1", "1.0.0-rc.1", "1.0.0", "v1.0.0+x", "2.0.0-a.b", "v2.0.0-a.b+c", "1.2", "v1.0.0-rc.2+b7", "", "x", "1.0.0-01", strings.Repeat("1", 1100) + ".0.0"}
		for i := w.Shard; i < len(texts); i += w.NShards {
			for _, tb := range texts {
				c17PairHelpers(w, texts[i], tb)
			}
		}
	})
	c.Require("pair-helper-on-byte-slices", 300)
	c.Require("pair-helper-on-mixed-types", 700)
	c17AddressReuse(c)
	c.Serial("discovered-methods", c17DiscoveredAll)
	for _, t := range []string{"date", "roman", "sem", "size", "uu"} {
		c.Require("discovered-method-call:"+t, 10)
	}
	// inputs bordering inaccessible pages: nothing but the bytes handed over may be touched
	guardedInputs(c, "C17", "date", []string{"2021-03-04", "20210304", "2021-02-30", "\x01\x00\x00\x07\xe5\x03\x04", "\x01\x00\x00\x07\xe5\x03", "x"})
	guardedInputs(c, "C17", "roman", []string{"MCMXCIV", "mmxxiv", "IIII", "VX", "i"})
	guardedInputs(c, "C17", "sem", []string{"1.2.3", "v10.20.30-rc.1+b7", "1.2", "v", "1.2.3-01"})
	guardedInputs(c, "C17", "size", []string{"10kB", "1 024 KiB", `{"value":1,"unit":"KiB"}`, `"10 kB"`, `{"value":1`, "1k"})
	guardedInputs(c, "C17", "uu", []string{"f81d4fae-7dec-11d0-a765-00a0c91e6bf6", "urn:uuid:f81d4fae-7dec-11d0-a765-00a0c91e6bf6", "f81d4fae-7dec-11d0-a765-00a0c91e6bf", "u"})
	c.Require("instantiation-agreement-on-accepted", 10000)
	c.Require("instantiation-agreement-on-rejected", 10000)
}

// c17PairHelpers: the two-argument helpers of sem given byte slices. The returned version must equal what the same
// texts give as strings, and must stay what it is when the caller overwrites its buffers afterwards.
// c17PairMix runs the five two-argument helpers whose arguments may have different types on one instantiation.
func c17PairMix[A, B constraint.ParserInput](a A, b B) (out [5][2]string) {
	rec := func(i int, v any, err error) {
		out[i][0] = fmt.Sprintf("%+v", v)
		if err != nil {
			out[i][1] = err.Error()
		}
	}
	v, err := sem.Latest(a, b)
	rec(0, v, err)
	v, err = sem.LatestTag(a, b)
	rec(1, v, err)
	v, err = sem.LatestVersion(a, b)
	rec(2, v, err)
	n, err := sem.Compare(a, b)
	rec(3, n, err)
	n, err = sem.CompareTag(a, b)
	rec(4, n, err)
	return out
}

func c17PairHelpers(w *rt.W, ta, tb string) {
	type hf struct {
		name string
		s    func(a, b string) (sem.Ver, error)
		b    func(a, b []byte) (sem.Ver, error)
	}
	for _, h := range []hf{
		{"Latest", func(a, b string) (sem.Ver, error) { return sem.Latest(a, b) }, func(a, b []byte) (sem.Ver, error) { return sem.Latest(a, b) }},
		{"LatestTag", func(a, b string) (sem.Ver, error) { return sem.LatestTag(a, b) }, func(a, b []byte) (sem.Ver, error) { return sem.LatestTag(a, b) }},
		{"LatestVersion", func(a, b string) (sem.Ver, error) { return sem.LatestVersion(a, b) }, func(a, b []byte) (sem.Ver, error) { return sem.LatestVersion(a, b) }},
	} {
		vs, es := h.s(ta, tb)
		ba, bb := []byte(ta), []byte(tb)
		vb, eb := h.b(ba, bb)
		w.Eval(2)
		args := rt.Args("helper", h.name, "a", ta, "b", tb)
		if (es == nil) != (eb == nil) || vs != vb {
			w.Fail("string-and-bytes-disagree-sem-pair", "pairhelpers", args, fmt.Sprintf("%+v %v", vb, eb), fmt.Sprintf("%+v %v", vs, es), h.name+" of byte slices differs from "+h.name+" of the same texts as strings")
		}
		if string(ba) != ta || string(bb) != tb {
			w.Fail("input-modified-sem-pair", "pairhelpers", args, string(ba)+" "+string(bb), ta+" "+tb, h.name+" modified its input")
		}
		for i := range ba {
			ba[i] = 'Z'
		}
		for i := range bb {
			bb[i] = '9'
		}
		if vb != vs && es == nil {
			w.Fail("value-aliases-input-buffer-sem-pair", "pairhelpers", args, fmt.Sprintf("%+v", vb), fmt.Sprintf("%+v", vs), "the version returned by "+h.name+" changed when the caller overwrote its buffers")
		}
		w.ClassN("pair-helper-on-byte-slices", 1)
	}
	// the two arguments need not have the same type: every mix gives the values and the messages of (string, string)
	want := c17PairMix(ta, tb)
	mixes := []struct {
		name string
		run  func() [5][2]string
	}{
		{"(string, []byte)", func() [5][2]string { return c17PairMix(ta, []byte(tb)) }},
		{"([]byte, string)", func() [5][2]string { return c17PairMix([]byte(ta), tb) }},
		{"([]byte, []byte)", func() [5][2]string { return c17PairMix([]byte(ta), []byte(tb)) }},
		{"(named string, []byte)", func() [5][2]string { return c17PairMix(nStr(ta), []byte(tb)) }},
		{"(string, named []byte)", func() [5][2]string { return c17PairMix(ta, nBytes(tb)) }},
		{"(named []byte, named string)", func() [5][2]string { return c17PairMix(nBytes(ta), nStr(tb)) }},
		{"(json.RawMessage, json.Number)", func() [5][2]string { return c17PairMix(json.RawMessage(ta), json.Number(tb)) }},
	}
	for _, m := range mixes {
		var got [5][2]string
		panicked, msg := rt.Call(func() { got = m.run() })
		w.Eval(5)
		if panicked {
			w.Fail("panic-sem-pair-mixed-types", "pairhelpers", rt.Args("a", ta, "b", tb, "types", m.name), "panic: "+firstLine(msg), "five results", "a two-argument helper panicked")
			continue
		}
		for i, name := range []string{"Latest", "LatestTag", "LatestVersion", "Compare", "CompareTag"} {
			if got[i] != want[i] {
				key := "mixed-types-disagree-value-sem-pair"
				if got[i][0] == want[i][0] {
					key = "mixed-types-disagree-error-text-sem-pair"
				}
				w.Fail(key, "pairhelpers", rt.Args("helper", name, "a", ta, "b", tb, "types", m.name), fmt.Sprintf("%s: (%s, %q)", m.name, got[i][0], got[i][1]), fmt.Sprintf("(string, string): (%s, %q)", want[i][0], want[i][1]), name+": the same two texts given as "+m.name+" must give the value and the error message of (string, string)")
			}
		}
		w.ClassN("pair-helper-on-mixed-types", 1)
	}
}

var c17Keep []string

func c17HeapString(text string) string {
	b := make([]byte, 0, len(text))
	b = append(b, text...)
	s := string(b)
	c17Keep = append(c17Keep, s)
	return s
}

func c17Addr(s string) uintptr { return *(*uintptr)(unsafe.Pointer(&s)) }

// c17AddressReuse: a string is parsed, dropped and collected; the allocator hands its memory to another text of the
// same length, which is parsed next. A string's address and length identify a text only while that string is alive.
func c17AddressReuse(c *rt.Ctx) {
	pairs := []struct {
		pkg           string
		first, second string
		parse         func(s string) (string, string) // result from the string, result from its bytes
	}{
		{"roman", strings.Repeat("M", 40) + "III", strings.Repeat("M", 40) + "VII", func(s string) (string, string) {
			a, ea := roman.DefaultParser(s, 0)
			b, eb := roman.DefaultParser([]byte(s), 0)
			return fmt.Sprint(uint64(a), ea), fmt.Sprint(uint64(b), eb)
		}},
		{"roman-short", "MCMXCIV", "MCMXCVI", func(s string) (string, string) {
			a, ea := roman.DefaultParser(s, 0)
			b, eb := roman.DefaultParser([]byte(s), 0)
			return fmt.Sprint(uint64(a), ea), fmt.Sprint(uint64(b), eb)
		}},
		{"date", "2021-02-28", "1999-12-31", func(s string) (string, string) {
			a, ea := date.DefaultParser(s, 0)
			b, eb := date.DefaultParser([]byte(s), 0)
			return fmt.Sprint(a, ea), fmt.Sprint(b, eb)
		}},
		{"sem", "1.2.3-rc.1+build.aaaaaaaaaaaaaaaaaaaaaaaaaaaaaa", "4.5.6-rc.2+build.bbbbbbbbbbbbbbbbbbbbbbbbbbbbbb", func(s string) (string, string) {
			a, ea := sem.Parse(s)
			b, eb := sem.Parse([]byte(s))
			return fmt.Sprintf("%+v %v", a, ea), fmt.Sprintf("%+v %v", b, eb)
		}},
		{"size", "  1 234 567 890 123 kB                    ", "  9 876 543 210 987 kB                    ", func(s string) (string, string) {
			a, ea := size.DefaultParser(s, 0)
			b, eb := size.DefaultParser([]byte(s), 0)
			return fmt.Sprint(uint64(a), ea), fmt.Sprint(uint64(b), eb)
		}},
		{"uu", "f81d4fae-7dec-11d0-a765-00a0c91e6bf6", "0a1b2c3d-4e5f-4a7b-8c9d-0e1f2a3b4c5d", func(s string) (string, string) {
			a, ea := uu.DefaultParser(s, 0)
			b, eb := uu.DefaultParser([]byte(s), 0)
			return fmt.Sprint(a, ea), fmt.Sprint(b, eb)
		}},
	}
	reused := 0
	c.Serial("address-reuse", func(w *rt.W) {
		for _, p := range pairs {
			for round := 0; round < 3; round++ {
				first := c17HeapString(p.first)
				fs, fb := p.parse(first)
				w.Eval(2)
				if fs != fb {
					w.Fail("string-and-bytes-disagree-after-address-reuse:"+p.pkg, "addrreuse", rt.Args("package", p.pkg, "text", p.first), fs, fb, "string and bytes of the same text parse differently")
				}
				firstAddr := c17Addr(first)
				first = ""
				c17Keep = nil
				runtime.GC()
				runtime.GC()
				for i := 0; i < 300000; i++ {
					s := c17HeapString(p.second)
					if c17Addr(s) != firstAddr {
						continue
					}
					reused++
					gs, gb := p.parse(s)
					w.Eval(2)
					if gs != gb {
						w.Fail("string-and-bytes-disagree-after-address-reuse:"+p.pkg, "addrreuse", rt.Args("package", p.pkg, "text", p.second, "previous_text_at_this_address", p.first), "string: "+gs, "bytes: "+gb,
							"the string occupies the memory of a collected string of the same length that was parsed before; it must parse like its own bytes")
					}
					c17Instantiations(w, s)
					w.ClassN("parsed-at-the-address-of-a-collected-string", 1)
					break
				}
				c17Keep = nil
			}
		}
	})
	c.Extra("address_reuse", fmt.Sprintf("%d of %d attempts saw the allocator hand the address of a collected, parsed string to another text of the same length", reused, 3*len(pairs)))
}

func c17DiscoveredAll(w *rt.W) {
	c17Discovered(w, "date", date.New(1999, 9, 9), []string{"2021-02-30", "2021-03-04 25:00:00", "2021-03-04T12", "x", "", "20210304x", "2021-03-04\x00"})
	c17Discovered(w, "roman", roman.Number(14), []string{"IIII I", "VX", "x!", "MMXXIVv", "14"})
	c17Discovered(w, "sem", sem.Ver{Major: 9, Minor: 8, Patch: 7, PreRelease: "old", Build: "old"}, []string{"1.2", "v1.02.3", "", "1.2.3-", "1.2.3-01", "x"})
	c17Discovered(w, "size", size.Size(4242), []string{"12 kiB", "-8", "1.5kB", `{"value":5`, "99999999999999999999999", "kB"})
	c17Discovered(w, "uu", uu.ID{Higher: 5, Lower: 6}, []string{"x", "f81d4fae-7dec-11d0-a765-00a0c91e6bf", "urn:uuid:zz", ""})
}

// c17Discovered calls every mutating method the pointer type is found to have at run time - not only the ones the
// histories above name: sql.Scanner, json/binary/text unmarshalers, xml attribute and element unmarshalers, gob,
// flag.Value-style Set - with inputs that are refused. A method that returns an error leaves the receiver as it was.
func c17Discovered[T any](w *rt.W, typ string, valid T, texts []string) {
	p := new(T)
	*p = valid
	try := func(op string, input any, f func() error) {
		var err error
		panicked, msg := rt.Call(func() { err = f() })
		w.Eval(1)
		args := rt.Args("type", typ, "op", op, "input", fmt.Sprintf("%T %q", input, fmt.Sprint(input)))
		switch {
		case panicked:
			w.Fail("panic-in-discovered-method-"+typ, "discovered", args, "panic: "+firstLine(msg), "an error or a value", op+" panicked")
		case err != nil && !reflect.DeepEqual(*p, valid):
			w.Fail("receiver-changed-on-error-"+typ, "discovered", args, fmt.Sprintf("%+v", *p), fmt.Sprintf("%+v", valid), op+" returned an error but changed the receiver")
		}
		*p = valid
		w.ClassN("discovered-method-call:"+typ, 1)
	}
	var srcs []any
	for _, t := range texts {
		srcs = append(srcs, t, []byte(t))
	}
	srcs = append(srcs, hostileScanSources()...)
	if m, ok := any(p).(sql.Scanner); ok {
		for _, src := range srcs {
			src := src
			try("Scan", src, func() error { return m.Scan(src) })
		}
	}
	if m, ok := any(p).(json.Unmarshaler); ok {
		// documents shaped after the type itself: an object with the struct's own field names (exact and lower case) in
		// which the first members are well typed and a later one is not - a decoder that fills the receiver directly
		// has stored the good ones when it reports the bad one; arrays and numbers likewise
		docs := []string{`[1,2,"x"]`, `[2,"x"]`, `{"value":2,"unit":7}`, `{"unit":"kB","value":"x"}`, `2e400`, `-1`, `{"a":1,"a":"x"}`}
		if rt0 := reflect.TypeOf(valid); rt0.Kind() == reflect.Struct {
			for _, lower := range []bool{false, true} {
				var good, bad []string
				for i := 0; i < rt0.NumField(); i++ {
					f := rt0.Field(i)
					if !f.IsExported() {
						continue
					}
					name := f.Name
					if lower {
						name = strings.ToLower(name)
					}
					switch f.Type.Kind() {
					case reflect.String:
						good = append(good, fmt.Sprintf("%q:%q", name, "zz9"))
						bad = append(bad, fmt.Sprintf("%q:%d", name, 5))
					case reflect.Int, reflect.Int8, reflect.Int16, reflect.Int32, reflect.Int64, reflect.Uint, reflect.Uint8, reflect.Uint16, reflect.Uint32, reflect.Uint64:
						good = append(good, fmt.Sprintf("%q:%d", name, 2+i))
						bad = append(bad, fmt.Sprintf("%q:%q", name, "x"))
					}
				}
				for i := range good {
					for j := range bad {
						if i != j {
							docs = append(docs, "{"+good[i]+","+bad[j]+"}", "{"+strings.Join(good[:i+1], ",")+","+bad[j]+"}")
						}
					}
				}
			}
		}
		for _, d := range docs {
			d := d
			try("UnmarshalJSON", d, func() error { return m.UnmarshalJSON([]byte(d)) })
			try("json.Unmarshal", d, func() error { return json.Unmarshal([]byte(d), p) })
		}
	}
	for _, t := range texts {
		t := t
		if m, ok := any(p).(json.Unmarshaler); ok {
			try("UnmarshalJSON", t, func() error { return m.UnmarshalJSON([]byte(t)) })
			try("UnmarshalJSON", strconv.Quote(t), func() error { return m.UnmarshalJSON([]byte(strconv.Quote(t))) })
		}
		if m, ok := any(p).(encoding.BinaryUnmarshaler); ok {
			try("UnmarshalBinary", t, func() error { return m.UnmarshalBinary([]byte(t)) })
		}
		if m, ok := any(p).(encoding.TextUnmarshaler); ok {
			try("UnmarshalText", t, func() error { return m.UnmarshalText([]byte(t)) })
		}
		if m, ok := any(p).(xml.UnmarshalerAttr); ok {
			try("UnmarshalXMLAttr", t, func() error { return m.UnmarshalXMLAttr(xml.Attr{Name: xml.Name{Local: "a"}, Value: t}) })
		}
		if m, ok := any(p).(gob.GobDecoder); ok {
			try("GobDecode", t, func() error { return m.GobDecode([]byte(t)) })
		}
		if m, ok := any(p).(interface{ Set(string) error }); ok {
			try("Set", t, func() error { return m.Set(t) })
		}
		// through the standard consumers, which pick whatever method the type offers
		try("json.Unmarshal", t, func() error { return json.Unmarshal([]byte(strconv.Quote(t)), p) })
		try("xml.Unmarshal", t, func() error {
			var buf bytes.Buffer
			_ = xml.EscapeText(&buf, []byte(t))
			return xml.Unmarshal([]byte("<v>"+buf.String()+"</v>"), p)
		})
	}
}

// c17Configured: the exported Parser variables replaced by parsers of the program's own (lenient ones, ones that
// return a value together with an error, ones that return values the default parser never would). Whatever the
// configured parser returns: when UnmarshalText/UnmarshalJSON returns an error the receiver is as it was.
func c17Configured(c *rt.Ctx) {
	{
		oD, oR, oS, oZ, oU := date.Parser, roman.Parser, sem.Parser, size.Parser, uu.Parser
		for mode := 0; mode < 4; mode++ {
			mode := mode
			fail := errors.New("configured parser refuses")
			date.Parser = func(in []byte, r date.Rule) (date.Date, error) {
				return []date.Date{date.New(2001, 2, 3), {}, date.New(-5, 1, 1), date.New(2001, 2, 3)}[mode], []error{nil, nil, fail, fail}[mode]
			}
			roman.Parser = func(in []byte, r roman.Rule) (roman.Number, error) {
				return []roman.Number{77, 0, 5000000, 77}[mode], []error{nil, nil, fail, fail}[mode]
			}
			sem.Parser = func(in []byte, r sem.Rule) (sem.Ver, error) {
				return []sem.Ver{{Major: 1, PreRelease: "rc.1"}, {Major: 2, PreRelease: "(nightly)", Build: "b d"}, {Major: 3, Build: "\x00"}, {Major: 4, PreRelease: "01"}}[mode], []error{nil, nil, fail, fail}[mode]
			}
			size.Parser = func(in []byte, r size.Rule) (size.Size, error) {
				return []size.Size{1536, 0, ^size.Size(0), 7}[mode], []error{nil, nil, fail, fail}[mode]
			}
			uu.Parser = func(in []byte, r uu.Rule) (uu.ID, error) {
				return []uu.ID{{Higher: 1, Lower: 2}, {}, {Higher: ^uint64(0)}, {Lower: 9}}[mode], []error{nil, nil, fail, fail}[mode]
			}
			c.Serial("configured-parsers", func(w *rt.W) {
				check := func(typ, op string, before, after string, err error) {
					w.Eval(1)
					if err != nil && before != after {
						w.Fail("receiver-changed-on-error-under-configured-parser-"+typ, "confparser", rt.Args("type", typ, "op", op, "mode", mode), after, before, op+" returned an error but changed the receiver (the configured Parser returned "+[]string{"a value", "a zero or unusual value", "a value together with an error", "a value together with an error"}[mode]+")")
					}
					w.ClassN("configured-parser-call", 1)
				}
				in := []byte("anything")
				d := date.New(1999, 9, 9)
				b := d.String()
				err := d.UnmarshalText(in)
				check("date", "Date.UnmarshalText", b, d.String(), err)
				// Scan of the same content as string and as bytes: identical outcome, whatever Parser is configured
				ds, db := date.New(1999, 9, 9), date.New(1999, 9, 9)
				for _, txt := range []string{"2002-08-07", "2002-08-07  ", " 2002-08-07", "x", ""} {
					ds, db = date.New(1999, 9, 9), date.New(1999, 9, 9)
					es, eb := ds.Scan(txt), db.Scan([]byte(txt))
					w.Eval(2)
					if (es == nil) != (eb == nil) || ds != db || (es != nil && eb != nil && es.Error() != strings.Replace(eb.Error(), "[]uint8", "string", 1) && es.Error() != eb.Error()) {
						w.Fail("string-and-bytes-disagree-under-configured-parser-date", "confparser", rt.Args("type", "date", "op", "Date.Scan", "mode", mode, "input", txt), fmt.Sprint(ds, " ", es, " / ", db, " ", eb), "identical values and errors", "Scan of a string and of the same bytes must agree")
					}
					check("date", "Date.Scan(string)", "1999-09-09", map[bool]string{true: "1999-09-09", false: ds.String()}[es == nil], es)
				}
				n := roman.Number(14)
				err = n.UnmarshalText(in)
				check("roman", "Number.UnmarshalText", "14", fmt.Sprint(uint64(n)), err)
				v := sem.Ver{Major: 9, Minor: 8, Patch: 7, PreRelease: "old", Build: "old"}
				bv := fmt.Sprintf("%+v", v)
				err = v.UnmarshalText(in)
				check("sem", "Ver.UnmarshalText", bv, fmt.Sprintf("%+v", v), err)
				z := size.Size(4242)
				err = z.UnmarshalText(in)
				check("size", "Size.UnmarshalText", "4242", fmt.Sprint(uint64(z)), err)
				z = 4242
				err = z.UnmarshalJSON(in)
				check("size", "Size.UnmarshalJSON", "4242", fmt.Sprint(uint64(z)), err)
				id := uu.ID{Higher: 5, Lower: 6}
				err = id.UnmarshalText(in)
				check("uu", "ID.UnmarshalText", fmt.Sprint(uu.ID{Higher: 5, Lower: 6}), fmt.Sprint(id), err)
			})
		}
		date.Parser, roman.Parser, sem.Parser, size.Parser, uu.Parser = oD, oR, oS, oZ, oU
	}
}
