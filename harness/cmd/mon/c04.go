package main

import (
	"bytes"
	"encoding/json"
	"fmt"
	"math/big"
	"reflect"
	"strconv"
	"strings"

	"go.lstv.dev/util/date"
	"go.lstv.dev/util/size"
	"go.lstv.dev/util/uu"

	"verif/ref"
	"verif/rt"
)

// C04 — A size survives every marshal form and configuration.

func init() {
	props["C04"] = runC04
	replayers["C04/crossread"] = func(v rt.Violation) string {
		c := rt.ReplayCtx("C04")
		defer c04Apply(0)()
		c.Serial("replay", func(w *rt.W) {
			s := rt.ArgUint(v, "size")
			c04Apply(int(rt.ArgInt(v, "written_under")))
			t, _ := size.Size(s).MarshalText()
			j, _ := size.Size(s).MarshalJSON()
			c04Apply(int(rt.ArgInt(v, "read_under")))
			var a, b size.Size
			e1, e2 := a.UnmarshalText(t), b.UnmarshalJSON(j)
			w.Eval(2)
			if e1 != nil || e2 != nil || uint64(a) != s || uint64(b) != s {
				w.Fail("cross-switch-roundtrip", "crossread", v.Args, fmt.Sprint(uint64(a), " ", e1, " / ", uint64(b), " ", e2), fmt.Sprint(s), "text "+string(t)+" / JSON "+string(j))
			}
		})
		return c.Report()
	}
	replayers["C04/roundtrip"] = func(v rt.Violation) string {
		c := rt.ReplayCtx("C04")
		cfg := int(rt.ArgInt(v, "switches"))
		restore := c04Apply(cfg)
		defer restore()
		c.Serial("replay", func(w *rt.W) { c04Case(w, rt.ArgUint(v, "size"), cfg, true) })
		return c.Report()
	}
}

// switches bit 0: DisableMarshalTextUnit, bit 1: DisableMarshalJSONStringForm, bit 2: DisableMarshalJSONObjectForm
func c04Apply(cfg int) func() {
	a, b, c := size.DisableMarshalTextUnit, size.DisableMarshalJSONStringForm, size.DisableMarshalJSONObjectForm
	size.DisableMarshalTextUnit, size.DisableMarshalJSONStringForm, size.DisableMarshalJSONObjectForm = cfg&1 != 0, cfg&2 != 0, cfg&4 != 0
	return func() {
		size.DisableMarshalTextUnit, size.DisableMarshalJSONStringForm, size.DisableMarshalJSONObjectForm = a, b, c
	}
}

type c04Inner struct {
	X size.Size    `json:"x"`
	Y []*size.Size `json:"y"`
}

type c04Doc struct {
	A size.Size            `json:"a"`
	P *size.Size           `json:"p"`
	L []size.Size          `json:"l"`
	M map[string]size.Size `json:"m"`
	N c04Inner             `json:"n"`
	K map[size.Size]int    `json:"k"`
}

func c04Case(w *rt.W, s uint64, cfg int, containers bool) {
	sz := size.Size(s)
	dec := strconv.FormatUint(s, 10)
	fail := func(key, path, got, want string) {
		w.Fail(key, "roundtrip", rt.Args("size", dec, "switches", cfg, "path", path), got, want, path+": marshalled form does not unmarshal to the same size / is not of the selected kind")
	}
	// a refused parse right before the round trips (whatever a refused input leaves behind must not
	// leak into the next, valid one)
	poisons := []string{"12 kiB", "77XB", "99999999999999999999999", "16EiB", `{"value":31,"unit":"kib"}`, `"45 Kb"`, "-8", "3.5kB", "", `{"value":5`, "null", "true", "false", "[]", "{}", `{"value":null,"unit":"B"}`, `"null"`, " null "}
	poison := poisons[s%uint64(len(poisons))]
	if _, perr := size.DefaultParser(poison, size.DefaultRule); perr == nil {
		fail("refused-input-accepted", "DefaultParser("+poison+")", "accepted", "an error")
	}
	// refusals that only a rule causes (a unit under RuleDisableUnit, an unknown key under RuleDisallowUnknownKeys, a disabled form)
	switch s % 5 {
	case 0:
		_, _ = size.DefaultParser("1B", size.RuleDisableUnit)
	case 1:
		_, _ = size.DefaultParser([]byte(`{"value":1,"unit":"B","x":1}`), size.RuleEnableJSONObjectForm|size.RuleDisallowUnknownKeys)
	case 2:
		_, _ = size.DefaultParser(`"1 kB"`, size.RuleEnableJSONObjectForm)
	case 3:
		_, _ = size.DefaultParser(`{"value":1,"unit":"B"}`, size.RuleEnableJSONStringForm|size.RuleDisableUnit)
	}
	if s%3 == 0 { // the same refusal through the method encoding/json calls
		var pz size.Size
		if perr := pz.UnmarshalJSON([]byte(poison)); perr == nil && poison != "null" && poison != " null " {
			fail("refused-input-accepted", "UnmarshalJSON("+poison+")", "accepted", "an error")
		}
	}
	// text
	foreignActivity(int(s%1000), "size") // a date, an ID, a numeral formatted or refused right before
	mt, err := sz.MarshalText()
	w.Eval(1)
	if err != nil {
		fail("marshaltext-error", "MarshalText", err.Error(), "nil")
		return
	}
	if cfg&1 != 0 {
		if string(mt) != dec {
			fail("text-form-kind", "MarshalText with DisableMarshalTextUnit", string(mt), dec)
		}
	} else if len(mt) == 0 || mt[len(mt)-1] != 'B' || string(mt) == dec {
		fail("text-form-kind", "MarshalText with unit", string(mt), "digits followed by a unit")
	}
	{ // the marshalled text written over a longer record in a reused buffer: digits stay behind its end
		rec := append(append(make([]byte, 0, len(mt)+24), mt...), "7216543298765432"...)
		var ur size.Size
		if err := ur.UnmarshalText(rec[:len(mt)]); err != nil || ur != sz {
			fail("text-roundtrip", "MarshalText -> UnmarshalText of the text in front of spare capacity holding digits ("+string(mt)+")", fmt.Sprint(uint64(ur), " err=", err), dec)
		}
		rec2 := append(append(make([]byte, 0, len(dec)+24), dec...), "7216543298765432"...)
		if g, err := size.DefaultParser(rec2[:len(dec)], 0); err != nil || g != sz {
			fail("rendering-roundtrip", "BytesString -> DefaultParser of the digits in front of spare capacity holding digits", fmt.Sprint(uint64(g), " err=", err), dec)
		}
		w.Eval(2)
	}
	ut := size.Size(s ^ 0x7777) // the receivers already hold another size
	err = ut.UnmarshalText(append([]byte(nil), mt...))
	w.Eval(1)
	if err != nil || ut != sz {
		fail("text-roundtrip", "MarshalText -> UnmarshalText ("+string(mt)+")", fmt.Sprint(uint64(ut), " err=", err), dec)
	}
	// JSON standalone
	foreignActivity(int(s%1000)+3, "size")
	mj, err := sz.MarshalJSON()
	w.Eval(1)
	if err != nil {
		fail("marshaljson-error", "MarshalJSON", err.Error(), "nil")
		return
	}
	tree, ok := ref.ParseJSONTree(mj)
	switch {
	case !ok:
		fail("json-not-well-formed", "MarshalJSON", string(mj), "one well-formed JSON value")
	case cfg&4 == 0: // object form
		good := tree.Kind == 'o' && len(tree.Keys) == 2
		if good {
			var val, unit *ref.JNode
			for i, k := range tree.Keys {
				switch k {
				case "value":
					val = &tree.Members[i]
				case "unit":
					unit = &tree.Members[i]
				}
			}
			good = val != nil && unit != nil && val.Kind == 'n' && unit.Kind == 's'
			if good {
				n, okN := new(big.Int).SetString(val.Num, 10)
				p, okP := uint64(0), false
				if okN {
					p, okP = ref.SizeProduct(n, unit.Str)
				}
				good = okN && okP && p == s
			}
		}
		if !good {
			fail("json-form-kind", "MarshalJSON object form", string(mj), `{"value":N,"unit":"U"} with N x U == size`)
		}
	case cfg&2 == 0: // string form
		if tree.Kind != 's' || tree.Str != string(mt) {
			fail("json-form-kind", "MarshalJSON string form", string(mj), strconv.Quote(string(mt)))
		}
	default:
		if tree.Kind != 'n' || tree.Num != dec {
			fail("json-form-kind", "MarshalJSON number form", string(mj), dec)
		}
	}
	uj := size.Size(s + 999)
	err = uj.UnmarshalJSON(append([]byte(nil), mj...))
	w.Eval(1)
	if err != nil || uj != sz {
		fail("json-roundtrip", "MarshalJSON -> UnmarshalJSON ("+string(mj)+")", fmt.Sprint(uint64(uj), " err=", err), dec)
	}
	// renderings
	// the renderings are requested in different orders (HTML before plain pretty and the other way
	// round): what is parsed back must not depend on what was rendered just before
	foreignActivity(int(s%1000)+5, "size")
	var pretty string
	if s%2 == 0 {
		_ = sz.PrettyHTML()
		pretty = sz.PrettyString()
	} else {
		pretty = sz.PrettyString()
		_ = sz.PrettyHTML()
	}
	for _, p := range []struct{ name, text string }{{"String", sz.String()}, {"PrettyString", pretty}, {"PrettyString (again)", sz.PrettyString()}, {"BytesString", sz.BytesString()}} {
		g, err := size.DefaultParser(p.text, 0)
		w.Eval(1)
		if err != nil || g != sz {
			fail("rendering-roundtrip", p.name+" -> DefaultParser ("+p.text+")", fmt.Sprint(uint64(g), " err=", err), dec)
		}
		var ur size.Size
		err = ur.UnmarshalText([]byte(p.text))
		w.Eval(1)
		if err != nil || ur != sz {
			fail("rendering-roundtrip-unmarshaltext", p.name+" -> UnmarshalText ("+p.text+")", fmt.Sprint(uint64(ur), " err=", err), dec)
		}
	}
	if g, err := size.DefaultParser(sz.BytesJSONNumber().String(), size.DefaultRule); err != nil || g != sz {
		fail("rendering-roundtrip", "BytesJSONNumber -> DefaultParser(DefaultRule)", fmt.Sprint(uint64(g), " err=", err), dec)
	}
	w.Eval(1)
	if !containers {
		return
	}
	{ // a record as programs have them: a date and an ID in front of the size
		type record struct {
			Day   date.Date `json:"day"`
			ID    uu.ID     `json:"id"`
			Quota size.Size `json:"quota"`
			Day2  date.Date `json:"day2"`
			Used  size.Size `json:"used"`
		}
		rec := record{date.New(2024, 2, 29), uu.ID{Higher: s, Lower: ^s}, sz, date.New(1999, 12, 31), size.Size(s ^ 0x3333)}
		rb, err := json.Marshal(rec)
		var rback record
		if err == nil {
			err = json.Unmarshal(rb, &rback)
		}
		w.Eval(2)
		if err != nil || rback != rec {
			fail("container-roundtrip-mixed-record", "json.Marshal -> json.Unmarshal of a record with date, ID and sizes ("+string(rb)+")", fmt.Sprint(rback, " err=", err), fmt.Sprint(rec))
		}
	}
	other := size.Size(s ^ 0x5555)
	doc := c04Doc{A: sz, P: &sz, L: []size.Size{sz, 0, other, sz}, M: map[string]size.Size{"one": sz, "two": other}, N: c04Inner{X: sz, Y: []*size.Size{&other, nil, &sz}}, K: map[size.Size]int{sz: 1, other: 2}}
	b, err := json.Marshal(doc)
	w.Eval(1)
	if err != nil {
		fail("container-marshal-error", "json.Marshal(document)", err.Error(), "nil")
		return
	}
	var back c04Doc
	err = json.Unmarshal(b, &back)
	w.Eval(1)
	if err != nil {
		fail("container-unmarshal-error", "json.Unmarshal(document "+string(b)+")", err.Error(), "nil")
		return
	}
	if !reflect.DeepEqual(doc, back) {
		bb, _ := json.Marshal(back)
		key := "container-roundtrip"
		switch {
		case back.A != doc.A:
			key += "-struct-field"
		case back.P == nil || *back.P != *doc.P:
			key += "-pointer-field"
		case !reflect.DeepEqual(back.L, doc.L):
			key += "-slice"
		case !reflect.DeepEqual(back.M, doc.M):
			key += "-map-value"
		case !reflect.DeepEqual(back.N, doc.N):
			key += "-nested"
		default:
			key += "-map-key"
		}
		fail(key, "json.Marshal -> json.Unmarshal of a document ("+string(b)+")", string(bb), "same document")
	}
	// the same documents as another writer lays them out (indented, a space after every colon and comma):
	// insignificant white space must not change what is read
	if w.C.Quick() && s%4 != 1 && s%64 != 0 { // quick tier: about a quarter of the container cases take the other layouts
		w.ClassN("container-roundtrip", 1)
		return
	}
	var ind1, ind2 bytes.Buffer
	_ = json.Indent(&ind1, b, "", "\t")
	_ = json.Indent(&ind2, b, " ", "    ")
	for vi, layout := range [][]byte{ind1.Bytes(), ind2.Bytes(), jsonSpaced(b)} {
		var again c04Doc
		err = json.Unmarshal(layout, &again)
		w.Eval(1)
		if err != nil || !reflect.DeepEqual(doc, again) {
			bb, _ := json.Marshal(again)
			fail("container-roundtrip-other-layout", fmt.Sprintf("json.Unmarshal of the marshalled document in layout %d (%s)", vi, layout), fmt.Sprint(string(bb), " err=", err), "same document")
		}
	}
	var indj bytes.Buffer
	_ = json.Indent(&indj, mj, "", "  ")
	for vi, layout := range [][]byte{indj.Bytes(), jsonSpaced(mj), append(append([]byte(" \n"), mj...), "\r\n\t "...)} {
		ul := size.Size(s + 5)
		err = ul.UnmarshalJSON(append([]byte(nil), layout...))
		w.Eval(1)
		if err != nil || ul != sz {
			fail("json-roundtrip-other-layout", fmt.Sprintf("MarshalJSON, layout %d -> UnmarshalJSON (%s)", vi, layout), fmt.Sprint(uint64(ul), " err=", err), dec)
		}
	}
	w.ClassN("container-roundtrip", 1)
}

// jsonSpaced puts a space after every colon and comma outside strings (the layout Python's json.dumps writes).
func jsonSpaced(b []byte) []byte {
	out := make([]byte, 0, len(b)+len(b)/4)
	inStr, esc := false, false
	for _, c := range b {
		out = append(out, c)
		switch {
		case esc:
			esc = false
		case inStr && c == '\\':
			esc = true
		case c == '"':
			inStr = !inStr
		case !inStr && (c == ':' || c == ','):
			out = append(out, ' ')
		}
	}
	return out
}

func init() {
	coldCases["C04"] = func(c *rt.Ctx, idx int) {
		first := []func(s uint64){
			func(s uint64) { var z size.Size; _ = z.UnmarshalText([]byte("0B")) },
			func(s uint64) { var z size.Size; _ = z.UnmarshalJSON([]byte(`{"value":0,"unit":"B"}`)) },
			func(s uint64) { _ = size.Size(0).String() },
			func(s uint64) { _, _ = size.New(0, "KiB") },
			func(s uint64) { _, _ = size.DefaultParser("0 YiB", 0) },
			func(s uint64) { _ = size.Size(s).PrettyString() },
			func(s uint64) { _, _ = size.Size(0).MarshalJSON() },
			func(s uint64) { _, _ = size.Size(s).MarshalText() },
			func(s uint64) { _, _ = size.DefaultParser(`"1kB"`, size.DefaultRule) },
			func(s uint64) {},
		}[idx%10]
		cfg := (idx / 10) % 8
		restore := c04Apply(cfg)
		defer restore()
		sizes := []uint64{0, 1, 1023, 1024, 7 << 20, 1536 << 30, 1 << 60, ^uint64(0), 1000000, 0}
		if idx >= 20 { // the very first calls of the process arrive from 16 goroutines at once
			var ready int32
			c.Parallel("cold", 16, func(w *rt.W) {
				coldBarrier(&ready, 16)
				first(sizes[w.Shard%len(sizes)])
				for k := 0; k < 3; k++ {
					c04Case(w, sizes[(w.Shard+k)%len(sizes)], cfg, true)
				}
			})
			return
		}
		c.Serial("cold", func(w *rt.W) {
			first(sizes[idx%len(sizes)])
			for _, s := range sizes {
				c04Case(w, s, cfg, true)
			}
		})
	}
}

func runC04(c *rt.Ctx) {
	soloRun(c, "size")
	appenderSweep(c, func() []any {
		var out []any
		for _, v := range []size.Size{size.Size(0), size.Size(1), size.Size(1000), size.Size(1024), size.Size(1536), size.Size(1 << 60), size.Size(1<<64 - 1)} {
			v := v
			out = append(out, v, &v)
		}
		return out
	}())
	configuredEpisode() // the process has a past: failing configured Formatters and Parsers, since restored
	c.Extra("history_before_the_streams", "an episode of failing configured Formatter/Parser variables in all five packages")
	c.SetRule("sizes: all values below 2^20 (exhaustive), odd x 2^k for every k in 0..63, every decimal length 1..20, neighbours of 1000^k and 1024^k, the largest multiples of each 1024^k, 2^64-1..2^64-4, seeded 64-bit values; x all 8 combinations of DisableMarshalTextUnit / DisableMarshalJSONStringForm / DisableMarshalJSONObjectForm; " +
		"paths: MarshalText->UnmarshalText, MarshalJSON->UnmarshalJSON (plus a check that the form is the one the switches select), String/PrettyString/BytesString/BytesJSONNumber -> parser, json.Marshal->json.Unmarshal of a document with struct field, pointer field, slice, map value, nested struct with pointer slice, and map key. " +
		"distinct_nontrivial counts distinct (size, switches) pairs with size >= 1024 or not a multiple of 1024 (by value hash)")
	c.Assume("encoding/json trusted; well-formedness and form of the marshalled JSON read through harness/ref/jsontree.go; arithmetic through harness/ref/size.go")
	{
		sc := rt.ReplayCtx("C04")
		sc.Serial("selftest", func(w *rt.W) {
			w.Fail("k", "roundtrip", nil, "9007199254740992", "9007199254740993", "synthetic float rounding")
		})
		c.SelfTest("monitor-records-a-mismatch", sc.Violations() == 1)
	}
	nSeeded := c.Pick(100000, 6000000)
	defer c04Apply(0)()
	for cfg := 0; cfg < 8; cfg++ {
		cfg := cfg
		c04Apply(cfg)
		c.Parallel(fmt.Sprintf("switches-%d", cfg), 0, func(w *rt.W) {
			k := 0
			visit := func(s uint64) {
				k++
				c04Case(w, s, cfg, k%8 == 0 || s >= 1<<62)
				if s >= 1024 || s%1024 != 0 {
					w.NTHash(rt.HashU(s, uint64(cfg)))
				}
			}
			for s := uint64(w.Shard); s < 1<<20; s += uint64(w.NShards) {
				visit(s)
			}
			if w.Shard == 0 {
				sizeValueSet(rt.NewRand(c.Seed, "C04/values", 0), 0, visit)
				w.ClassN("stratified-set-under-switches", 1)
			}
			for i := 0; i < nSeeded/w.NShards; i++ {
				var s uint64
				switch i % 4 {
				case 0:
					s = w.Rng.U64()
				case 1:
					s = w.Rng.U64() >> uint(w.Rng.Intn(64))
				case 2:
					kk := w.Rng.Intn(64)
					s = (w.Rng.U64() >> uint(kk)) << uint(kk)
				default:
					kk := 10 * w.Rng.Intn(7)
					s = (w.Rng.U64()>>uint(kk) | 1) << uint(kk)
				}
				visit(s)
			}
			if w.Class("sample-forms") {
				z := size.Size(1536 << 20)
				t, _ := z.MarshalText()
				j, _ := z.MarshalJSON()
				d, _ := json.Marshal(map[string]any{"s": z, "l": []size.Size{z}})
				w.Sample("forms", map[string]any{"switches": cfg, "size": uint64(z), "text": string(t), "json": string(j), "document": string(d)})
			}
		})
	}
	// what was written under one combination of the marshalling switches is read under every other one:
	// the switches select what Marshal* writes, reading is "under the default rule" whatever they are
	c.Serial("written-under-one-switch-set-read-under-another", func(w *rt.W) {
		var vals []uint64
		sizeValueSet(rt.NewRand(c.Seed, "C04/cross", 0), 40, func(s uint64) {
			if len(vals) < 4000 && (s%7 == 0 || s < 5000 || s > 1<<60) {
				vals = append(vals, s)
			}
		})
		type written struct {
			s        uint64
			text, js []byte
			doc      []byte
		}
		for wr := 0; wr < 8; wr++ {
			c04Apply(wr)
			ws := make([]written, 0, len(vals))
			for _, s := range vals {
				sz := size.Size(s)
				t, _ := sz.MarshalText()
				j, _ := sz.MarshalJSON()
				d, _ := json.Marshal(map[string]any{"a": sz, "l": []size.Size{sz}})
				ws = append(ws, written{s, t, j, d})
			}
			for rd := 0; rd < 8; rd++ {
				if rd == wr {
					continue
				}
				c04Apply(rd)
				for _, x := range ws {
					fail := func(path, got string) {
						w.Fail("cross-switch-roundtrip", "crossread", rt.Args("size", fmt.Sprint(x.s), "written_under", wr, "read_under", rd, "path", path), got, fmt.Sprint(x.s), path+": a text written under one combination of the marshalling switches must read back under any other")
					}
					var a, b size.Size
					if err := a.UnmarshalText(x.text); err != nil || uint64(a) != x.s {
						fail("UnmarshalText("+string(x.text)+")", fmt.Sprint(uint64(a), " err=", err))
					}
					if err := b.UnmarshalJSON(x.js); err != nil || uint64(b) != x.s {
						fail("UnmarshalJSON("+string(x.js)+")", fmt.Sprint(uint64(b), " err=", err))
					}
					var doc struct {
						A size.Size   `json:"a"`
						L []size.Size `json:"l"`
					}
					if err := json.Unmarshal(x.doc, &doc); err != nil || uint64(doc.A) != x.s || len(doc.L) != 1 || uint64(doc.L[0]) != x.s {
						fail("json.Unmarshal("+string(x.doc)+")", fmt.Sprint(uint64(doc.A), " ", doc.L, " err=", err))
					}
					w.Eval(3)
				}
				w.ClassN("write-switches-x-read-switches", 1)
			}
		}
		w.NT(int64(len(vals)) * 56)
		c04Apply(0)
	})
	c.Require("write-switches-x-read-switches", 56)
	// a long-lived process has refused millions of inputs before it marshals and unmarshals the next size: over-long ones
	// (a slot or a counter taken before the length check and given back only behind it), malformed ones
	c.Serial("after-millions-of-refused-inputs", func(w *rt.W) {
		long := strings.Repeat("9", 200)
		longB := []byte(long)
		n := 0
		for i := 0; i < 4500000; i++ {
			var err error
			if i%2 == 0 {
				_, err = size.DefaultParser(long, 0)
			} else {
				_, err = size.DefaultParser(longB, size.DefaultRule)
			}
			if err != nil {
				n++
			}
		}
		for i := 0; i < 300000; i++ {
			if _, err := size.DefaultParser("12 kiB", 0); err != nil {
				n++
			}
			var z size.Size
			if err := z.UnmarshalJSON([]byte(`{"value":5`)); err != nil {
				n++
			}
		}
		w.Eval(int64(n))
		for _, s := range []uint64{0, 1, 1000, 1024, 1536, 123456789, 1 << 40, 15 << 60, 18446744073709551615} {
			for cfg := 0; cfg < 8; cfg += 3 {
				restore := c04Apply(cfg)
				c04Case(w, s, cfg, true)
				restore()
			}
		}
		w.ClassN("refused-inputs-before-the-round-trips", int64(n))
	})
	c.Require("refused-inputs-before-the-round-trips", 5000000)
	c.Serial("same-number-other-unit", func(w *rt.W) {
		for _, m := range []uint64{999, 1000, 1500, 12345, 1000000} {
			for ka := uint(0); ka <= 50; ka += 10 {
				for kb := uint(0); kb <= 50; kb += 10 {
					c04Case(w, m<<ka, 0, false)
					c04Case(w, m<<kb, 0, false)
				}
			}
			w.ClassN("same-number-other-unit", 1)
		}
	})
	c.Require("same-number-other-unit", 5)
	coldStart(c, "C04", 140)
	c.Exhaustive("all sizes below 2^20 x 8 switch combinations")
	c.Require("stratified-set-under-switches", 8)
	c.Require("container-roundtrip", 100000)
}
