// Command mon runs one property's workload under its monitor:
//
//	mon Cxx            (tier from VERIF_TIER, seed from VERIF_SEED)
//	mon --replay file  re-executes one recorded refuting event against the current tree
//
// One OS process per property.
package main

import (
	"fmt"
	"os"
	"runtime/debug"
	"sort"

	"verif/rt"
)

// props maps a property id to its workload+monitor program.
var props = map[string]func(c *rt.Ctx){}

// replayers maps "Cxx/op" to a function that re-executes the recorded event and
// returns a description of what the current tree does and what was expected.
var replayers = map[string]func(v rt.Violation) string{}

func main() {
	if len(os.Args) < 2 {
		fmt.Println("usage: mon Cxx | mon --replay <file> | mon --list")
		os.Exit(rt.ExitInconclusive)
	}
	switch os.Args[1] {
	case "--list":
		ids := []string{}
		for id := range props {
			ids = append(ids, id)
		}
		sort.Strings(ids)
		for _, id := range ids {
			fmt.Println(id)
		}
		return
	case "--replay":
		if len(os.Args) < 3 {
			fmt.Println("usage: mon --replay <file>")
			os.Exit(rt.ExitInconclusive)
		}
		v, err := rt.ReadReplay(os.Args[2])
		if err != nil {
			fmt.Println("cannot read replay:", err)
			os.Exit(rt.ExitInconclusive)
		}
		fmt.Printf("replay property=%s key=%s op=%s\nrecorded: observed=%s expected=%s reason=%s\n", v.Property, v.Key, v.Op, v.Observed, v.Expected, v.Reason)
		if v.Op == "library-panic" {
			// the recorded event is a panic of the code under test somewhere in the property's
			// deterministic workload: re-run that workload at the recorded tier and seed
			tmp, _ := os.MkdirTemp("", "verif-replay-")
			defer os.RemoveAll(tmp)
			os.Setenv("VERIF_TIER", v.Tier)
			os.Setenv("VERIF_SEED", fmt.Sprint(v.Seed))
			os.Setenv("VERIF_OUT", tmp)
			debug.SetGCPercent(1600)
			debug.SetMemoryLimit(8 << 30) // soft: the collector works harder near 8 GiB instead of letting the heap grow to seventeen times the live set (an out-of-memory kill when several checks share a machine)
			c := rt.New(v.Property)
			runGuarded(c, props[v.Property])
			fmt.Println("now:", c.Report())
			return
		}
		f, ok := replayers[v.Property+"/"+v.Op]
		if !ok {
			fmt.Println("no automatic replayer for this op; the args in the file reproduce the call by hand")
			os.Exit(rt.ExitInconclusive)
		}
		fmt.Println("now:", f(v))
		return
	}
	if spec := os.Getenv("VERIF_COLD"); spec != "" {
		coldChildMain(spec)
		return
	}
	f, ok := props[os.Args[1]]
	if !ok {
		fmt.Println("unknown property", os.Args[1])
		os.Exit(rt.ExitInconclusive)
	}
	// the workloads allocate many tiny objects on all cores; a small heap makes the
	// collector run continuously and serialises the workers
	debug.SetGCPercent(1600)
	debug.SetMemoryLimit(8 << 30) // soft: the collector works harder near 8 GiB instead of letting the heap grow to seventeen times the live set (an out-of-memory kill when several checks share a machine)
	c := rt.New(os.Args[1])
	if names := exploreUnknownMethods(); len(names) > 0 {
		c.Extra("methods_outside_the_pinned_api_called_before_the_streams", names)
	}
	runGuarded(c, f)
	c.Finish()
}

func runGuarded(c *rt.Ctx, f func(c *rt.Ctx)) {
	defer func() {
		if r := recover(); r != nil {
			c.Panicked("main goroutine", r, debug.Stack())
		}
	}()
	f(c)
}
