package main

import (
	"fmt"

	"go.lstv.dev/util/date"
	"go.lstv.dev/util/roman"
	"go.lstv.dev/util/sem"
	"go.lstv.dev/util/size"
	"go.lstv.dev/util/uu"
)

// foreignActivity uses the other packages of the library right before a monitored call, as a program
// that marshals a record with a date, an ID and a size does. The packages share internal helpers;
// whatever one of them leaves behind there must not show up in the next one's result. k selects the
// activity; pkg is the package under the monitor and is left out.
func foreignActivity(k int, pkg string) {
	if k < 0 {
		k = -k
	}
	acts := []struct {
		pkg string
		f   func()
	}{
		{"date", func() { _, _ = date.DefaultFormatter(nil, date.New(2024, 2, 29), 0) }},
		{"uu", func() { _ = uu.ID{Higher: 0xf81d4fae7dec11d0, Lower: 0xa76500a0c91e6bf6}.String() }},
		{"date", func() { _ = fmt.Sprintf("%b", date.New(1999, 12, 31)) }},
		{"uu", func() { _ = uu.ID{Higher: 1, Lower: 2}.URN() }},
		{"roman", func() { _ = roman.Number(1994).String() }},
		{"sem", func() { _ = sem.New(1, 2, 3, "rc.1", "b7").StringTag() }},
		{"size", func() { _ = size.Size(1536 << 20).PrettyString() }},
		{"date", func() { _, _ = date.DefaultParser("2021-02-30", 0) }},
		{"uu", func() { _, _ = uu.DefaultParser("urn:uuid:zzzz", 0) }},
		{"size", func() { _, _ = size.DefaultParser("12 kiB", size.DefaultRule) }},
		{"sem", func() { _, _ = sem.Parse("1.2") }},
		{"roman", func() { _, _ = roman.DefaultParser("IIII I", 0) }},
		{"date", func() { _, _ = date.New(12345, 6, 7).MarshalText() }},
		{"size", func() { _, _ = size.Size(999).MarshalText() }},
	}
	for i := 0; i < len(acts); i++ {
		a := acts[(k+i)%len(acts)]
		if a.pkg != pkg {
			a.f()
			return
		}
	}
}
