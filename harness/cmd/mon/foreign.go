package main

import (
	"errors"
	"fmt"
	"runtime"
	"strings"
	"time"

	"verif/rt"

	"go.lstv.dev/util/date"
	"go.lstv.dev/util/roman"
	"go.lstv.dev/util/sem"
	"go.lstv.dev/util/size"
	"go.lstv.dev/util/uu"
)

// foreignActivity uses the other packages of the library right before a monitored call, as a program
// that marshals a record with a date, an ID and a size does. The packages share internal helpers;
// whatever one of them leaves behind there must not show up in the next one's result. k selects the
// activity; pkg is the package under the monitor and is left out.
func foreignActivity(k int, pkg string) {
	if k < 0 {
		k = -k
	}
	acts := []struct {
		pkg string
		f   func()
	}{
		{"date", func() { _, _ = date.DefaultFormatter(nil, date.New(2024, 2, 29), 0) }},
		{"uu", func() { _ = uu.ID{Higher: 0xf81d4fae7dec11d0, Lower: 0xa76500a0c91e6bf6}.String() }},
		{"date", func() { _ = fmt.Sprintf("%b", date.New(1999, 12, 31)) }},
		{"uu", func() { _ = uu.ID{Higher: 1, Lower: 2}.URN() }},
		{"roman", func() { _ = roman.Number(1994).String() }},
		{"sem", func() { _ = sem.New(1, 2, 3, "rc.1", "b7").StringTag() }},
		{"size", func() { _ = size.Size(1536 << 20).PrettyString() }},
		{"date", func() { _, _ = date.DefaultParser("2021-02-30", 0) }},
		{"uu", func() { _, _ = uu.DefaultParser("urn:uuid:zzzz", 0) }},
		{"size", func() { _, _ = size.DefaultParser("12 kiB", size.DefaultRule) }},
		{"sem", func() { _, _ = sem.Parse("1.2") }},
		{"roman", func() { _, _ = roman.DefaultParser("IIII I", 0) }},
		{"date", func() { _, _ = date.New(12345, 6, 7).MarshalText() }},
		{"size", func() { _, _ = size.Size(999).MarshalText() }},
	}
	for i := 0; i < len(acts); i++ {
		a := acts[(k+i)%len(acts)]
		if a.pkg != pkg {
			a.f()
			return
		}
	}
}

// configuredEpisode is a piece of program history: for a while every package's Formatter and Parser variable is
// one of the program's own that fails, the documented fallbacks, errors and panics happen, then the defaults are
// back. Nothing of it may be left behind: the monitored streams that follow run on a process with this past.
// (What the fallbacks return is judged where the properties speak of it; here they only have to have happened.)
func configuredEpisode() {
	oDF, oRF, oSF, oZF, oUF := date.Formatter, roman.Formatter, sem.Formatter, size.Formatter, uu.Formatter
	oDP, oRP, oSP, oZP, oUP := date.Parser, roman.Parser, sem.Parser, size.Parser, uu.Parser
	refuse := errors.New("configured function refuses")
	date.Formatter = func([]byte, date.Date, date.Format) ([]byte, error) { return nil, refuse }
	roman.Formatter = func([]byte, roman.Number, roman.Format) ([]byte, error) { return nil, refuse }
	sem.Formatter = func([]byte, sem.Ver, sem.Format) ([]byte, error) { return nil, refuse }
	size.Formatter = func([]byte, size.Size, size.Format) ([]byte, error) { return nil, refuse }
	uu.Formatter = func([]byte, uu.ID, uu.Format) ([]byte, error) { return nil, refuse }
	date.Parser = func([]byte, date.Rule) (date.Date, error) { return date.Date{}, refuse }
	roman.Parser = func([]byte, roman.Rule) (roman.Number, error) { return 0, refuse }
	sem.Parser = func([]byte, sem.Rule) (sem.Ver, error) { return sem.Ver{}, refuse }
	size.Parser = func([]byte, size.Rule) (size.Size, error) { return 0, refuse }
	uu.Parser = func([]byte, uu.Rule) (uu.ID, error) { return uu.ID{}, refuse }
	quiet := func(f func()) {
		defer func() { _ = recover() }()
		f()
	}
	for k := 0; k < 3; k++ {
		d, n, v, z, id := date.New(2024, 2, 29), roman.Number(1994), sem.New(1, 2, 3, "rc.1", "b7"), size.Size(1536<<20), uu.ID{Higher: 1, Lower: 2}
		quiet(func() { _ = d.String(); _, _ = d.MarshalText(); _ = fmt.Sprintf("%b %s", d, d) })
		quiet(func() { _ = n.String(); _, _ = n.MarshalText(); _ = fmt.Sprintf("%R %l", n, n) })
		quiet(func() { _ = v.String(); _ = v.StringTag(); _, _ = v.MarshalText(); _ = fmt.Sprintf("%t", v) })
		quiet(func() { _ = z.String() })
		quiet(func() { _ = z.PrettyString() })
		quiet(func() { _ = z.PrettyHTML() })
		quiet(func() { _, _ = z.MarshalText(); _, _ = z.MarshalJSON() })
		quiet(func() { _ = id.String(); _ = id.URN(); _, _ = id.MarshalText(); _ = fmt.Sprintf("%u", id) })
		quiet(func() {
			_ = d.UnmarshalText([]byte("2021-01-01"))
			_ = n.UnmarshalText([]byte("XIV"))
			_ = v.UnmarshalText([]byte("1.0.0"))
		})
		quiet(func() {
			_ = z.UnmarshalText([]byte("1kB"))
			_ = z.UnmarshalJSON([]byte("1"))
			_ = id.UnmarshalText([]byte("x"))
		})
	}
	date.Formatter, roman.Formatter, sem.Formatter, size.Formatter, uu.Formatter = oDF, oRF, oSF, oZF, oUF
	date.Parser, roman.Parser, sem.Parser, size.Parser, uu.Parser = oDP, oRP, oSP, oZP, oUP
}

// tripleHistories runs every history of three steps over a small set of (input, configuration) steps on one
// goroutine, nothing else running: what one call leaves behind for the next (a remembered input, a result kept per
// rule) shows only when the calls are back to back. Each step is the property's ordinary monitored case.
func tripleHistories(c *rt.Ctx, steps []func(w *rt.W)) {
	c.Serial("three-call-histories", func(w *rt.W) {
		for _, a := range steps {
			for _, b := range steps {
				for _, d := range steps {
					a(w)
					b(w)
					d(w)
				}
			}
		}
		n := int64(len(steps))
		w.ClassN("three-call-history", n*n*n)
		w.NT(n * n * n)
	})
	c.Require("three-call-history", 1000)
	randomHistories(c, steps, 4000, 24)
}

// randomHistories: longer single-threaded histories drawn from the same steps (n histories of the given length): tables
// of the last few results, move-to-front caches and counters need more than three calls to go wrong.
func randomHistories(c *rt.Ctx, steps []func(w *rt.W), n, length int) {
	if len(steps) == 0 {
		return
	}
	c.Serial("random-call-histories", func(w *rt.W) {
		r := rt.NewRand(c.Seed, "random-histories/"+c.Prop, uint64(len(steps)))
		for h := 0; h < n; h++ {
			// a history dwells on a few steps (the same entry is hit again after others came in between)
			k := 2 + r.Intn(7)
			pick := make([]int, k)
			for i := range pick {
				pick[i] = r.Intn(len(steps))
			}
			for i := 0; i < length; i++ {
				steps[pick[r.Intn(k)]](w)
			}
		}
		w.ClassN("random-call-history", int64(n))
		w.NT(int64(n))
	})
	c.Require("random-call-history", int64(n))
}

// callMustReturn runs f (a call into the library that is a few microseconds of CPU) on its own goroutine. If it has not
// returned after 15 s, the goroutine's stack is looked at twice, 5 s apart: parked on a lock, channel or semaphore with
// library frames on it both times, it is blocked for good (a lock taken twice on one call path) - that is reported and
// the run ends there, because every later call would queue up behind it. Otherwise the run is inconclusive.
func callMustReturn(w *rt.W, what string, args map[string]any, f func()) bool {
	done := make(chan struct{})
	go func() {
		defer close(done)
		rt.Call(f)
	}()
	select {
	case <-done:
		return true
	case <-time.After(15 * time.Second):
	}
	blocked := func() string {
		buf := make([]byte, 4<<20)
		n := runtime.Stack(buf, true)
		for _, g := range strings.Split(string(buf[:n]), "\n\n") {
			head, _, _ := strings.Cut(g, "\n")
			if strings.Contains(g, "callMustReturn.func1") && strings.Contains(g, rt.LibraryPrefix) &&
				(strings.Contains(head, "sync.") || strings.Contains(head, "semacquire") || strings.Contains(head, "chan ") || strings.Contains(head, "select")) {
				return g
			}
		}
		return ""
	}
	s1 := blocked()
	select {
	case <-done:
		return true
	case <-time.After(5 * time.Second):
	}
	s2 := blocked()
	if s1 != "" && s2 != "" {
		if len(s2) > 1800 {
			s2 = s2[:1800]
		}
		args["goroutine"] = s2
		w.Fail("call-never-returns:"+what, "reentrant", args, "still parked inside the library after 20 s:\n"+s2, "the call returns", "a call that is a few microseconds of work is blocked for good inside the library")
		w.C.Finish()
	}
	w.C.Inconclusive(what + ": a call did not return within 20 s and is not visibly parked on a lock inside the library")
	return false
}
