package main

import (
	"math/rand"
	"reflect"
	"sort"

	"go.lstv.dev/util/date"
	"go.lstv.dev/util/roman"
	"go.lstv.dev/util/sem"
	"go.lstv.dev/util/size"
	"go.lstv.dev/util/uu"
)

// The exported method sets of the library's types as they are at the pinned commit (listed by
// cmd/methodlist). A tree under test may have more: a setter, a convenience accessor, a method on an
// error type. What such a method does cannot be judged - no property speaks of it - but a program may
// call it, and what it leaves behind (a second source of configuration, a shared table lower-cased in
// place, a returned slice that aliases a package table) is judged by the ordinary streams that run
// afterwards. exploreUnknownMethods calls every method that is not in this list, with a few plausible
// arguments, and shuffles what slices and maps they return, before the streams start.
var knownMethods = map[string]bool{
	"*date.Date.Add":                          true,
	"*date.Date.AddDuration":                  true,
	"*date.Date.After":                        true,
	"*date.Date.Before":                       true,
	"*date.Date.Date":                         true,
	"*date.Date.Day":                          true,
	"*date.Date.DaysBetween":                  true,
	"*date.Date.Equal":                        true,
	"*date.Date.Format":                       true,
	"*date.Date.FromTime":                     true,
	"*date.Date.IsZero":                       true,
	"*date.Date.MarshalBinary":                true,
	"*date.Date.MarshalText":                  true,
	"*date.Date.Month":                        true,
	"*date.Date.Scan":                         true,
	"*date.Date.String":                       true,
	"*date.Date.Sub":                          true,
	"*date.Date.Time":                         true,
	"*date.Date.UnmarshalBinary":              true,
	"*date.Date.UnmarshalText":                true,
	"*date.Date.Value":                        true,
	"*date.Date.Year":                         true,
	"*date.ParseError[string].Error":          true,
	"*date.ParseError[string].Unwrap":         true,
	"*fmt.wrapError.Error":                    true,
	"*fmt.wrapError.Unwrap":                   true,
	"*roman.Number.Format":                    true,
	"*roman.Number.MarshalText":               true,
	"*roman.Number.String":                    true,
	"*roman.Number.UnmarshalText":             true,
	"*roman.NumberFormatError[string].Error":  true,
	"*roman.NumberFormatError[string].Unwrap": true,
	"*sem.ParseError[string].Error":           true,
	"*sem.ParseError[string].Unwrap":          true,
	"*sem.Ver.Compare":                        true,
	"*sem.Ver.Core":                           true,
	"*sem.Ver.Format":                         true,
	"*sem.Ver.IsZero":                         true,
	"*sem.Ver.Latest":                         true,
	"*sem.Ver.MarshalText":                    true,
	"*sem.Ver.NextMajor":                      true,
	"*sem.Ver.NextMinor":                      true,
	"*sem.Ver.NextPatch":                      true,
	"*sem.Ver.String":                         true,
	"*sem.Ver.StringTag":                      true,
	"*sem.Ver.UnmarshalText":                  true,
	"*sem.Ver.Valid":                          true,
	"*size.InvalidUnitError.Error":            true,
	"*size.ParseError[string].Error":          true,
	"*size.ParseError[string].Unwrap":         true,
	"*size.Size.BytesJSONNumber":              true,
	"*size.Size.BytesString":                  true,
	"*size.Size.MarshalJSON":                  true,
	"*size.Size.MarshalText":                  true,
	"*size.Size.PrettyHTML":                   true,
	"*size.Size.PrettyString":                 true,
	"*size.Size.Shorten":                      true,
	"*size.Size.String":                       true,
	"*size.Size.UnmarshalJSON":                true,
	"*size.Size.UnmarshalText":                true,
	"*uu.ID.Format":                           true,
	"*uu.ID.MarshalText":                      true,
	"*uu.ID.String":                           true,
	"*uu.ID.URN":                              true,
	"*uu.ID.UnmarshalText":                    true,
	"*uu.ID.Variant":                          true,
	"*uu.ID.Version":                          true,
	"*uu.ParseError[string].Error":            true,
	"*uu.ParseError[string].Unwrap":           true,
	"date.Date.Add":                           true,
	"date.Date.AddDuration":                   true,
	"date.Date.After":                         true,
	"date.Date.Before":                        true,
	"date.Date.Date":                          true,
	"date.Date.Day":                           true,
	"date.Date.DaysBetween":                   true,
	"date.Date.Equal":                         true,
	"date.Date.Format":                        true,
	"date.Date.IsZero":                        true,
	"date.Date.MarshalBinary":                 true,
	"date.Date.MarshalText":                   true,
	"date.Date.Month":                         true,
	"date.Date.String":                        true,
	"date.Date.Sub":                           true,
	"date.Date.Time":                          true,
	"date.Date.Value":                         true,
	"date.Date.Year":                          true,
	"roman.Number.Format":                     true,
	"roman.Number.MarshalText":                true,
	"roman.Number.String":                     true,
	"sem.Ver.Compare":                         true,
	"sem.Ver.Core":                            true,
	"sem.Ver.Format":                          true,
	"sem.Ver.IsZero":                          true,
	"sem.Ver.Latest":                          true,
	"sem.Ver.MarshalText":                     true,
	"sem.Ver.NextMajor":                       true,
	"sem.Ver.NextMinor":                       true,
	"sem.Ver.NextPatch":                       true,
	"sem.Ver.String":                          true,
	"sem.Ver.StringTag":                       true,
	"sem.Ver.Valid":                           true,
	"size.Size.BytesJSONNumber":               true,
	"size.Size.BytesString":                   true,
	"size.Size.MarshalJSON":                   true,
	"size.Size.MarshalText":                   true,
	"size.Size.PrettyHTML":                    true,
	"size.Size.PrettyString":                  true,
	"size.Size.Shorten":                       true,
	"size.Size.String":                        true,
	"time.Month.String":                       true,
	"uu.ID.Format":                            true,
	"uu.ID.MarshalText":                       true,
	"uu.ID.String":                            true,
	"uu.ID.URN":                               true,
	"uu.ID.Variant":                           true,
	"uu.ID.Version":                           true,
	"uu.InvalidDigitError.Error":              true,
}

func exploreUnknownMethods() (called []string) {
	rn := roman.Number(1994)
	sz := size.Size(1536)
	d := date.New(2024, 2, 29)
	v := sem.New(1, 2, 3, "rc.1", "b7")
	id := uu.ID{Higher: 1, Lower: 2}
	vals := []any{d, &d, date.Format(0), date.FormatBasic, date.Rule(0), date.Month(2), rn, &rn, roman.Format(0), roman.FormatLowerCase, roman.FormatLong, roman.Rule(0), v, &v, sem.Format(0), sem.Rule(0), sz, &sz, size.Format(0), size.Rule(0), id, &id, uu.Format(0), uu.Rule(0)}
	_, e1 := date.DefaultParser("x", 0)
	_, e2 := roman.DefaultParser("x!", 0)
	_, e3 := sem.Parse("x")
	_, e4 := size.DefaultParser("1xb", 0)
	_, e5 := uu.DefaultParser("x", 0)
	_, e6 := size.New(5, "kb")
	_, e7 := uu.DefaultParser("f81d4fae-7dec-11d0-a765-00a0c91e6bfg", 0)
	for _, e := range []error{e1, e2, e3, e4, e5, e6, e7} {
		for x := e; x != nil; {
			vals = append(vals, x)
			u, ok := x.(interface{ Unwrap() error })
			if !ok {
				break
			}
			x = u.Unwrap()
		}
	}
	seen := map[string]bool{}
	for _, val := range vals {
		rv := reflect.ValueOf(val)
		t := rv.Type()
		for i := 0; i < t.NumMethod(); i++ {
			key := t.String() + "." + t.Method(i).Name
			if knownMethods[key] {
				continue
			}
			if !seen[key] { // (listed once, called on every receiver value: a flag value matters)
				seen[key] = true
				called = append(called, key)
			}
			m := rv.Method(i)
			for variant := 0; variant < 4; variant++ {
				exploreCall(m, rv, variant)
			}
		}
	}
	sort.Strings(called)
	return called
}

// exploreValue calls every method of v that is outside the pinned API (variant 0 arguments) and returns what they returned.
func exploreValue(v any) (results []reflect.Value) {
	rv := reflect.ValueOf(v)
	t := rv.Type()
	for i := 0; i < t.NumMethod(); i++ {
		if knownMethods[t.String()+"."+t.Method(i).Name] {
			continue
		}
		results = append(results, exploreCall(rv.Method(i), rv, 0)...)
	}
	return results
}

func exploreCall(m, recv reflect.Value, variant int) (results []reflect.Value) {
	defer func() { _ = recover() }()
	mt := m.Type()
	if mt.IsVariadic() {
		return
	}
	ints := []int64{1000, 0, 4999, 1}
	strs := []string{"x", "", "kB", "2021-01-01"}
	args := make([]reflect.Value, mt.NumIn())
	for k := range args {
		pt := mt.In(k)
		a := reflect.New(pt).Elem()
		switch pt.Kind() {
		case reflect.Int, reflect.Int8, reflect.Int16, reflect.Int32, reflect.Int64:
			a.SetInt(ints[variant] % 100)
			if pt.Bits() >= 16 {
				a.SetInt(ints[variant])
			}
		case reflect.Uint, reflect.Uint8, reflect.Uint16, reflect.Uint32, reflect.Uint64:
			a.SetUint(uint64(ints[variant]) % 100)
			if pt.Bits() >= 16 {
				a.SetUint(uint64(ints[variant]))
			}
		case reflect.String:
			a.SetString(strs[variant])
		case reflect.Bool:
			a.SetBool(variant%2 == 0)
		case reflect.Slice:
			if pt.Elem().Kind() == reflect.Uint8 {
				a.SetBytes([]byte(strs[variant]))
			}
		case reflect.Interface:
			if reflect.TypeOf(strs[variant]).Implements(pt) || pt.NumMethod() == 0 {
				a.Set(reflect.ValueOf(strs[variant]))
			}
		case reflect.Ptr:
			if pt == reflect.TypeOf((*rand.Rand)(nil)) { // a reproducibly seeded generator, as property-test drivers pass
				a.Set(reflect.ValueOf(rand.New(rand.NewSource(42))))
			} else if recv.Type().AssignableTo(pt) {
				a.Set(recv)
			}
		default:
			if recv.Type().AssignableTo(pt) {
				a.Set(recv)
			}
		}
		args[k] = a
	}
	results = m.Call(args)
	for _, r := range results {
		switch r.Kind() {
		case reflect.Slice: // the caller owns what it is handed: reorder it, clear it
			for i, j := 0, r.Len()-1; i < j; i, j = i+1, j-1 {
				x, y := r.Index(i), r.Index(j)
				if x.CanSet() && y.CanSet() {
					tmp := reflect.New(x.Type()).Elem()
					tmp.Set(x)
					x.Set(y)
					y.Set(tmp)
				}
			}
		case reflect.Map:
			if !r.IsNil() {
				for _, k := range r.MapKeys() {
					r.SetMapIndex(k, reflect.Value{})
				}
			}
		}
	}
	return results
}
