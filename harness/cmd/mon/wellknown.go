package main

import (
	"bytes"
	"database/sql"
	"fmt"
	"math"
	"reflect"

	"go.lstv.dev/util/size"

	"verif/rt"
)

// Contracts the standard library itself states for methods a value type may grow beyond the pinned API:
// encoding.BinaryAppender / encoding.TextAppender ("AppendX appends the X representation of itself to the end
// of b and returns the extended buffer": AppendX(b) = b ++ MarshalX()), and database/sql.Scanner for a numeric
// type (the stored number is the source's number or the source is refused). A type without the method costs
// one reflection lookup; a type with it is judged against its own pinned MarshalX / documented arithmetic.

var appenderPairs = [][2]string{{"AppendBinary", "MarshalBinary"}, {"AppendText", "MarshalText"}}

// appenderContract judges the appenders of one value; it returns how many appender methods the value has.
func appenderContract(w *rt.W, v any, describe string) (found int) {
	rv := reflect.ValueOf(v)
	for _, pair := range appenderPairs {
		ap, ma := rv.MethodByName(pair[0]), rv.MethodByName(pair[1])
		if !ap.IsValid() || !ma.IsValid() {
			continue
		}
		at, mt := ap.Type(), ma.Type()
		bs := reflect.TypeOf([]byte(nil))
		if at.NumIn() != 1 || at.In(0) != bs || at.NumOut() != 2 || at.Out(0) != bs || mt.NumIn() != 0 || mt.NumOut() != 2 || mt.Out(0) != bs {
			continue
		}
		found++
		mres := ma.Call(nil)
		ref := append([]byte(nil), mres[0].Bytes()...)
		refErr := !mres[1].IsNil()
		for _, prefix := range [][]byte{nil, {}, []byte("k"), []byte("key="), {1, 0, 0}, {1, 0, 0, 7, 0xe8, 2, 29}, ref, bytes.Repeat([]byte("x"), 64), []byte("Část %d (MISSING) ")} {
			for _, spare := range []int{0, 1, 3, len(ref), 64} {
				backing := make([]byte, len(prefix)+spare+8)
				copy(backing, prefix)
				for i := len(prefix); i < len(backing); i++ {
					backing[i] = 0xA5
				}
				buf := backing[: len(prefix) : len(prefix)+spare]
				if prefix == nil && spare == 0 {
					buf = nil
				}
				var out []byte
				var gotErr bool
				panicked, msg := rt.Call(func() {
					res := ap.Call([]reflect.Value{reflect.ValueOf(buf)})
					out, gotErr = res[0].Bytes(), !res[1].IsNil()
				})
				w.Eval(1)
				args := rt.Args("value", describe, "method", pair[0], "prefix", fmt.Sprintf("%x", prefix), "spare", spare)
				want := append(append([]byte(nil), prefix...), ref...)
				switch {
				case panicked:
					w.Fail("appender-panicked:"+pair[0], "appender", args, "panic: "+firstLine(msg), fmt.Sprintf("%x", want), pair[0]+" panicked")
				case gotErr != refErr:
					w.Fail("appender-error-differs:"+pair[0], "appender", args, fmt.Sprint("error=", gotErr), fmt.Sprint("error=", refErr, " as ", pair[1]), pair[0]+" and "+pair[1]+" disagree on failure")
				case !gotErr && !bytes.Equal(out, want):
					w.Fail("appender-result-is-not-prefix-plus-marshal:"+pair[0], "appender", args, fmt.Sprintf("%x", out), fmt.Sprintf("%x", want), pair[0]+"(b) must return b followed by what "+pair[1]+" returns")
				case !bytes.Equal(backing[:len(prefix)], prefix):
					w.Fail("appender-modified-callers-bytes:"+pair[0], "appender", args, fmt.Sprintf("%x", backing[:len(prefix)]), fmt.Sprintf("%x", prefix), pair[0]+" changed the bytes already in the buffer")
				case !bytes.Equal(backing[len(prefix)+spare:], bytes.Repeat([]byte{0xA5}, 8)):
					w.Fail("appender-wrote-beyond-capacity:"+pair[0], "appender", args, fmt.Sprintf("%x", backing[len(prefix)+spare:]), "guard bytes untouched", pair[0]+" wrote beyond the capacity of the buffer")
				}
			}
		}
		w.ClassN("appender-judged:"+pair[0], 1)
	}
	return found
}

// appenderSweep runs appenderContract over the given values in one serial stream and records what was found.
func appenderSweep(c *rt.Ctx, vals []any) {
	found := 0
	c.Serial("appenders", func(w *rt.W) {
		for _, v := range vals {
			found += appenderContract(w, v, fmt.Sprintf("%T %v", v, reflect.Indirect(reflect.ValueOf(v))))
		}
	})
	c.Extra("appender_methods_beyond_the_pinned_api_judged", fmt.Sprintf("%d method values over %d values (AppendBinary/AppendText against MarshalBinary/MarshalText)", found, len(vals)))
}

// sizeScanContract: a size.Size that can be a database/sql Scan destination stores the source's number exactly or refuses.
func sizeScanContract(c *rt.Ctx) {
	var probe size.Size
	sc, ok := any(&probe).(sql.Scanner)
	if !ok {
		c.Extra("size_as_sql_scanner", "size.Size has no Scan method on this tree")
		return
	}
	_ = sc
	c.Serial("size-scan", func(w *rt.W) {
		ints := []int64{-1, -2, -1024, math.MinInt64, math.MinInt64 + 1, -1 << 53, 0, 1, 1023, 1 << 53, 1<<53 + 1, math.MaxInt64, math.MaxInt64 - 1}
		for i := 0; i < 2000; i++ {
			ints = append(ints, int64(w.Rng.U64()))
		}
		judge := func(src any, exact bool, want uint64) {
			for _, before := range []size.Size{0, 12345} {
				s := before
				var err error
				panicked, msg := rt.Call(func() { err = any(&s).(sql.Scanner).Scan(src) })
				w.Eval(1)
				args := rt.Args("source", fmt.Sprintf("%T(%v)", src, src), "receiver_before", uint64(before))
				switch {
				case panicked:
					w.Fail("size-scan-panicked", "sizescan", args, "panic: "+firstLine(msg), "a value or an error", "Size.Scan panicked")
				case err == nil && !exact:
					w.Fail("size-scan-accepted-inexact-source", "sizescan", args, fmt.Sprint("accepted as ", uint64(s)), "an error", "a negative, fractional, non-finite or overflowing number was stored as a size")
				case err == nil && uint64(s) != want:
					w.Fail("size-scan-wrong-value", "sizescan", args, fmt.Sprint(uint64(s)), fmt.Sprint(want), "the stored size is not the source's number")
				case err != nil && s != before:
					w.Fail("size-scan-failed-but-changed-receiver", "sizescan", args, fmt.Sprint(uint64(s)), fmt.Sprint(uint64(before)), "a failed Scan changed the receiver")
				}
			}
			w.ClassN("size-scan-source-judged", 1)
		}
		for _, v := range ints {
			judge(v, v >= 0, uint64(v))
		}
		for _, f := range []float64{-1, -0.5, 0.5, 1.5, math.NaN(), math.Inf(1), math.Inf(-1), 1e19, 1e20, 18446744073709551616.0, 18446744073709549568.0, 3, 0, 9007199254740992, 1e15 + 0.5, -1e-300} {
			exact := f >= 0 && f == math.Trunc(f) && f < 18446744073709551616.0
			var want uint64
			if exact {
				want = uint64(f)
			}
			judge(f, exact, want)
		}
	})
	c.Extra("size_as_sql_scanner", "size.Size has a Scan method on this tree: int64 and float64 sources judged against exact arithmetic")
}
