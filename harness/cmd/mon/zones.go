package main

import (
	"time"
	_ "time/tzdata" // zone database embedded: the sweeps below must work offline on any image
)

// The process-local time zone is configuration the date package must not depend
// on (dates are built and read in UTC). hostileZones lists local-zone settings
// that expose any dependence: zones whose daylight-saving transition happens at
// local midnight (the day has no 00:00), zones that skipped or repeated a whole
// calendar day, large fixed offsets on both sides, and UTC itself.
var hostileZoneNames = []string{
	"UTC", "America/Sao_Paulo", "America/Havana", "Asia/Beirut", "America/Asuncion", "Africa/Cairo", "Asia/Tehran",
	"America/Santiago", "Atlantic/Azores", "Pacific/Apia", "Pacific/Kwajalein", "Pacific/Kiritimati", "Asia/Kolkata",
	"America/New_York", "Europe/Prague", "Australia/Lord_Howe",
}

func hostileZones() []*time.Location {
	var out []*time.Location
	for _, n := range hostileZoneNames {
		if l, err := time.LoadLocation(n); err == nil {
			out = append(out, l)
		}
	}
	out = append(out, time.FixedZone("W12", -12*3600), time.FixedZone("E14", 14*3600), time.FixedZone("W0530", -(5*3600+1800)))
	return out
}

// withLocal runs f with time.Local replaced. time.Local is read without
// synchronisation by package time, so this must only be called while no worker runs
// (barrier discipline, like every other configuration global).
func withLocal(loc *time.Location, f func()) {
	old := time.Local
	time.Local = loc
	defer func() { time.Local = old }()
	f()
}
