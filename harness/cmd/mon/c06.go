package main

import (
	"fmt"
	"math/big"
	"strings"

	"go.lstv.dev/util/sem"

	"verif/ref"
	"verif/rt"
)

// C06 — Version precedence follows SemVer 2.0.0 section 11.

func init() {
	props["C06"] = runC06
	replayers["C06/compare"] = func(v rt.Violation) string {
		c := rt.ReplayCtx("C06")
		c.Serial("replay", func(w *rt.W) {
			a := sem.Ver{Major: rt.ArgUint(v, "a_major"), Minor: rt.ArgUint(v, "a_minor"), Patch: rt.ArgUint(v, "a_patch"), PreRelease: rt.ArgString(v, "a_pre"), Build: rt.ArgString(v, "a_build")}
			b := sem.Ver{Major: rt.ArgUint(v, "b_major"), Minor: rt.ArgUint(v, "b_minor"), Patch: rt.ArgUint(v, "b_patch"), PreRelease: rt.ArgString(v, "b_pre"), Build: rt.ArgString(v, "b_build")}
			c06Pair(w, a, b, true)
			// the same pair with the pre-release strings sharing memory, when one is a prefix or suffix of the other
			switch {
			case a.PreRelease != "" && strings.HasPrefix(b.PreRelease, a.PreRelease):
				a.PreRelease = b.PreRelease[:len(a.PreRelease)]
			case a.PreRelease != "" && strings.HasSuffix(b.PreRelease, a.PreRelease):
				a.PreRelease = b.PreRelease[len(b.PreRelease)-len(a.PreRelease):]
			case b.PreRelease != "" && strings.HasPrefix(a.PreRelease, b.PreRelease):
				b.PreRelease = a.PreRelease[:len(b.PreRelease)]
			case b.PreRelease != "" && strings.HasSuffix(a.PreRelease, b.PreRelease):
				b.PreRelease = a.PreRelease[len(a.PreRelease)-len(b.PreRelease):]
			default:
				return
			}
			c06Pair(w, a, b, true)
		})
		return c.Report()
	}
}

// preUniverse returns every valid pre-release string over the alphabet of length 1..L, plus "".
func preUniverse(alphabet string, L int) []string {
	out := []string{""}
	buf := make([]byte, 0, L)
	var rec func()
	rec = func() {
		if len(buf) > 0 && ref.ValidPre(string(buf)) {
			out = append(out, string(buf))
		}
		if len(buf) == L {
			return
		}
		for i := 0; i < len(alphabet); i++ {
			buf = append(buf, alphabet[i])
			rec()
			buf = buf[:len(buf)-1]
		}
	}
	rec()
	return out
}

func isAllDigits(s string) bool {
	if s == "" {
		return false
	}
	for i := 0; i < len(s); i++ {
		if s[i] < '0' || s[i] > '9' {
			return false
		}
	}
	return true
}

// pairClass names where and how two pre-release strings first differ.
func pairClass(a, b string) string {
	switch {
	case a == b:
		return "equal"
	case a == "" || b == "":
		return "release-vs-prerelease"
	}
	as, bs := strings.Split(a, "."), strings.Split(b, ".")
	for i := 0; i < len(as) && i < len(bs); i++ {
		if as[i] == bs[i] {
			continue
		}
		an, bn := isAllDigits(as[i]), isAllDigits(bs[i])
		switch {
		case an && bn && len(as[i]) != len(bs[i]):
			return "numeric-vs-numeric-different-digit-count"
		case an && bn:
			return "numeric-vs-numeric-same-digit-count"
		case an != bn:
			return "numeric-vs-alphanumeric"
		}
		if strings.HasPrefix(as[i], bs[i]) || strings.HasPrefix(bs[i], as[i]) {
			return "alphanumeric-identifier-is-prefix-of-other"
		}
		return "alphanumeric-vs-alphanumeric"
	}
	return "identifier-list-is-prefix-of-other"
}

func sign(x int) int {
	switch {
	case x < 0:
		return -1
	case x > 0:
		return 1
	}
	return 0
}

func verArgs(a, b sem.Ver, entry string) map[string]any {
	return rt.Args("entry", entry,
		"a_major", fmt.Sprint(a.Major), "a_minor", fmt.Sprint(a.Minor), "a_patch", fmt.Sprint(a.Patch), "a_pre", a.PreRelease, "a_build", a.Build,
		"b_major", fmt.Sprint(b.Major), "b_minor", fmt.Sprint(b.Minor), "b_patch", fmt.Sprint(b.Patch), "b_pre", b.PreRelease, "b_build", b.Build)
}

func refVer(v sem.Ver) ref.SemVer {
	return ref.SemVer{Major: new(big.Int).SetUint64(v.Major), Minor: new(big.Int).SetUint64(v.Minor), Patch: new(big.Int).SetUint64(v.Patch), Pre: v.PreRelease, Build: v.Build}
}

func cmpU(a, b uint64) int {
	switch {
	case a < b:
		return -1
	case a > b:
		return 1
	}
	return 0
}

// refCompare is section 11 on two library values (core compared as unsigned integers).
func refCompare(a, b sem.Ver) int {
	if c := cmpU(a.Major, b.Major); c != 0 {
		return c
	}
	if c := cmpU(a.Minor, b.Minor); c != 0 {
		return c
	}
	if c := cmpU(a.Patch, b.Patch); c != 0 {
		return c
	}
	return ref.ComparePre(a.PreRelease, b.PreRelease)
}

// c06Pair judges every comparison entry point on the ordered pair (a, b) of valid versions.
// It returns the pair class (or "excluded").
func c06Pair(w *rt.W, a, b sem.Ver, full bool) (class string) {
	defer func() {
		if r := recover(); r != nil {
			w.Fail("panic", "compare", verArgs(a, b, "?"), fmt.Sprint("panic: ", r), "a result", "comparison entry point panicked on valid versions")
			class = "panic"
		}
	}()
	sameCore := a.Major == b.Major && a.Minor == b.Minor && a.Patch == b.Patch
	if sameCore && ref.ExcludedPair(a.PreRelease, b.PreRelease) {
		w.DontCare("first differing identifiers both alphanumeric and differing only in a trailing digit run (pinned departure)")
		return "excluded"
	}
	want := refCompare(a, b)
	class = "core"
	if sameCore {
		class = pairClass(a.PreRelease, b.PreRelease)
	}
	fail := func(entry, got string) {
		w.Fail("order-"+class, "compare", verArgs(a, b, entry), got, fmt.Sprint(want), entry+" disagrees with SemVer section 11 precedence ("+class+")")
	}
	checkInt := func(entry string, got int, err error) {
		w.Eval(1)
		if err != nil {
			fail(entry, "err="+err.Error())
		} else if got != want {
			fail(entry, fmt.Sprint(got))
		}
	}
	checkLatest := func(entry string, got sem.Ver, err error, x, y sem.Ver) {
		w.Eval(1)
		if err != nil {
			fail(entry, "err="+err.Error())
			return
		}
		switch {
		case want > 0 && got != x:
			fail(entry, fmt.Sprintf("returned %+v", got))
		case want < 0 && got != y:
			fail(entry, fmt.Sprintf("returned %+v", got))
		case want == 0 && got != x && got != y:
			fail(entry, fmt.Sprintf("returned %+v (neither argument)", got))
		}
	}
	checkInt("Ver.Compare", a.Compare(b), nil)
	if sameCore {
		checkInt("DefaultComparePreRelease[string,string]", sem.DefaultComparePreRelease(a.PreRelease, b.PreRelease), nil)
	}
	if !full {
		return class
	}
	if sameCore {
		checkInt("DefaultComparePreRelease[[]byte,string]", sem.DefaultComparePreRelease([]byte(a.PreRelease), b.PreRelease), nil)
		checkInt("DefaultComparePreRelease[string,[]byte]", sem.DefaultComparePreRelease(a.PreRelease, []byte(b.PreRelease)), nil)
		checkInt("DefaultComparePreRelease[[]byte,[]byte]", sem.DefaultComparePreRelease([]byte(a.PreRelease), []byte(b.PreRelease)), nil)
	}
	checkLatest("Ver.Latest", a.Latest(b), nil, a, b)
	as, bs := a.String(), b.String()
	if sem.MaxInputLength != 0 && (len(as)+1 > sem.MaxInputLength || len(bs)+1 > sem.MaxInputLength) {
		return class
	}
	at, bt := "v"+as, "v"+bs
	g, err := sem.Compare(as, bs)
	checkInt("Compare[string,string]", g, err)
	g, err = sem.Compare([]byte(at), bs)
	checkInt("Compare[[]byte,string] tag-vs-version", g, err)
	g, err = sem.CompareVersion[string, string](as, bs)
	checkInt("CompareVersion", g, err)
	g, err = sem.CompareTag(at, []byte(bt))
	checkInt("CompareTag[string,[]byte]", g, err)
	l, err := sem.Latest(as, []byte(bt))
	checkLatest("Latest[string,[]byte]", l, err, a, b)
	l, err = sem.LatestVersion([]byte(as), bs)
	checkLatest("LatestVersion[[]byte,string]", l, err, a, b)
	l, err = sem.LatestTag(at, bt)
	checkLatest("LatestTag[string,string]", l, err, a, b)
	return class
}

func genNumericIdent(r *rt.Rand) string {
	switch r.Intn(4) {
	case 0:
		return fmt.Sprint(r.Intn(12))
	case 1:
		return fmt.Sprint(r.U64())
	}
	k := 1 + r.Intn(25)
	b := make([]byte, k)
	b[0] = byte('1' + r.Intn(9))
	for i := 1; i < k; i++ {
		b[i] = byte('0' + r.Intn(10))
	}
	return string(b)
}

func genPreIdent(r *rt.Rand) string {
	if r.Bool() {
		return genNumericIdent(r)
	}
	for {
		s := r.StringFrom("0123456789abcvxyzABCVXYZ-", 1+r.Intn(8))
		if !isAllDigits(s) {
			return s
		}
	}
}

// genPrePair returns two valid pre-release strings sharing a random common prefix of identifiers.
func genPrePair(r *rt.Rand) (string, string) {
	n := r.Intn(5)
	common := make([]string, n)
	for i := range common {
		common[i] = genPreIdent(r)
	}
	tail := func() []string {
		k := r.Intn(4)
		t := make([]string, k)
		for i := range t {
			t[i] = genPreIdent(r)
		}
		return t
	}
	a := append(append([]string(nil), common...), tail()...)
	b := append(append([]string(nil), common...), tail()...)
	if r.Chance(1, 3) && len(a) > 0 && len(b) > 0 { // same digit count numerics / near-equal identifiers at the split point
		x := genNumericIdent(r)
		y := []byte(x)
		y[len(y)-1] = byte('0' + r.Intn(10))
		if len(y) > 1 || y[0] != '0' || true {
			a[len(a)-1], b[len(b)-1] = x, string(y)
			if len(y) > 1 && y[0] == '0' {
				b[len(b)-1] = x
			}
		}
	}
	return strings.Join(a, "."), strings.Join(b, ".")
}

func runC06(c *rt.Ctx) {
	soloRun(c, "sem")
	Lfull, Lcheap := c.Pick(3, 4), c.Pick(4, 4)
	c.SetRule(fmt.Sprintf("universe U_L = every valid pre-release string over {0,1,2,9,a,B,-,.} of length <= L plus the empty one; all ordered pairs of U_%d through all twelve comparison entry points, all ordered pairs of U_%d through Ver.Compare and DefaultComparePreRelease, seeded pairs of U_5; ", Lfull, Lcheap) +
		"cores {0,1,2^63,2^64-2,2^64-1} in each position x a pre-release subset; build metadata attached at random; the specification's example chain (all 64 ordered pairs); seeded pairs of long identifier lists with 1-25 digit numeric identifiers and a shared prefix. " +
		"Pairs in the excluded departure (both first differing identifiers alphanumeric, remainders after the common prefix all digits) are counted as dontcare. " +
		"distinct_nontrivial counts distinct judged ordered pairs that differ (enumerated universes: once each; generated: by hash)")
	c.Assume("expected order is harness/ref/semver.go ComparePre (identifier-wise, big.Int numerics, byte-wise ASCII for alphanumerics), written from SemVer 2.0.0 section 11")
	{
		chain := []string{"alpha", "alpha.1", "alpha.beta", "beta", "beta.2", "beta.11", "rc.1", ""}
		ok := true
		for i := range chain {
			for j := range chain {
				if ref.ComparePre(chain[i], chain[j]) != sign(i-j) {
					ok = false
				}
			}
		}
		c.SelfTest("reference-orders-the-specification-chain", ok)
		c.SelfTest("reference-numeric-below-alphanumeric", ref.ComparePre("999", "a") == -1 && ref.ComparePre("1", "-") == -1 && ref.ComparePre("10", "9") == 1 && ref.ComparePre("2", "11") == -1)
		c.SelfTest("excluded-zone", ref.ExcludedPair("a01", "a1") && ref.ExcludedPair("rc9", "rc10") && ref.ExcludedPair("x.a", "x.a1") && !ref.ExcludedPair("beta.2", "beta.11") && !ref.ExcludedPair("a1", "b1") && !ref.ExcludedPair("1", "a") && !ref.ExcludedPair("a1x", "a2x"))
		sc := rt.ReplayCtx("C06")
		sc.Serial("selftest", func(w *rt.W) { w.Fail("k", "compare", nil, "1", "-1", "synthetic beta.2 > beta.11") })
		c.SelfTest("monitor-records-a-mismatch", sc.Violations() == 1)
	}

	const alphabet = "0129aB-."
	uFull := preUniverse(alphabet, Lfull)
	uCheap := preUniverse(alphabet, Lcheap)
	u5 := preUniverse(alphabet, 5)
	c.Extra("universe_sizes", map[string]int{fmt.Sprint("U_", Lfull): len(uFull), fmt.Sprint("U_", Lcheap): len(uCheap), "U_5": len(u5)})
	if len(preUniverse(alphabet, 3)) != 429 {
		c.Inconclusive(fmt.Sprintf("universe U_3 has %d elements instead of 429", len(preUniverse(alphabet, 3))))
	}
	builds := []string{"", "b", "001", "x.y-z"}

	allPairs := func(stream string, u []string, full bool) {
		c.Parallel(stream, 0, func(w *rt.W) {
			for i := w.Shard; i < len(u); i += w.NShards {
				for j := range u {
					a := sem.Ver{Major: 1, Minor: 2, Patch: 3, PreRelease: u[i], Build: builds[(i+j)%4]}
					b := sem.Ver{Major: 1, Minor: 2, Patch: 3, PreRelease: u[j], Build: builds[(i*7+j*3)%4]}
					cl := c06Pair(w, a, b, full)
					if cl != "excluded" && cl != "equal" {
						w.NT(1)
					}
					w.ClassN(cl, 1)
					if cl != "equal" && w.Class("sample-"+cl) {
						w.Sample(cl, map[string]any{"a": a.String(), "b": b.String(), "section11": refCompare(a, b)})
					}
				}
			}
		})
	}
	allPairs("pairs-full", uFull, true)
	c.Exhaustive(fmt.Sprintf("all ordered pairs of U_%d (%d strings) through all twelve comparison entry points", Lfull, len(uFull)))
	if Lcheap != Lfull || c.Quick() {
		allPairs("pairs-cheap", uCheap, false)
		c.Exhaustive(fmt.Sprintf("all ordered pairs of U_%d (%d strings) through Ver.Compare and DefaultComparePreRelease", Lcheap, len(uCheap)))
	}
	nU5 := c.Pick(300000, 20000000)
	c.Parallel("pairs-u5", 0, func(w *rt.W) {
		for k := 0; k < nU5/w.NShards; k++ {
			i, j := w.Rng.Intn(len(u5)), w.Rng.Intn(len(u5))
			a := sem.Ver{Major: 0, Minor: 0, Patch: 1, PreRelease: u5[i], Build: builds[k%4]}
			b := sem.Ver{Major: 0, Minor: 0, Patch: 1, PreRelease: u5[j]}
			cl := c06Pair(w, a, b, k%16 == 0)
			w.ClassN(cl, 1)
			if cl != "excluded" && cl != "equal" {
				w.NTHash(rt.HashU(uint64(i), uint64(j), 5))
			}
		}
	})

	// pre-release strings that share memory: one is a prefix or a suffix slice of the other, or both were
	// parsed out of one text buffer (string headers with equal data pointers and different lengths)
	c.Parallel("shared-backing-strings", 0, func(w *rt.W) {
		for i := w.Shard; i < len(uCheap); i += w.NShards {
			s := uCheap[i]
			for cut := 1; cut < len(s); cut++ {
				for _, part := range []string{s[:cut], s[cut:]} {
					if !ref.ValidPre(part) {
						continue
					}
					a := sem.Ver{Major: 1, PreRelease: part}
					b := sem.Ver{Major: 1, PreRelease: s}
					w.ClassN(c06Pair(w, a, b, true), 1)
					w.ClassN(c06Pair(w, b, a, true), 1)
					w.ClassN("pre-releases-sharing-memory", 1)
					w.NT(1)
				}
				text := "1.0.0-" + s
				if pa, err := sem.Parse(text); err == nil && ref.ValidPre(s[:cut]) {
					if pb, err := sem.Parse(text[:6+cut]); err == nil {
						w.ClassN(c06Pair(w, pa, pb, false), 1)
						w.ClassN(c06Pair(w, pb, pa, false), 1)
						w.ClassN("versions-parsed-from-one-buffer", 1)
					}
				}
			}
		}
	})
	c.Require("pre-releases-sharing-memory", 1000)
	c.Require("versions-parsed-from-one-buffer", 1000)

	// pre-releases that agree in their first 8, 16 or 24 bytes (whole machine words) and go on differently: inside an
	// identifier, at its end, at a separator, with digits, letters or hyphens
	c.Parallel("shared-leading-blocks", 0, func(w *rt.W) {
		heads := []string{"20230101", "snapshot", "rc-00000", "alpha.be", "1234567.", "a.b.c.d.", "2023010120230101", "snapshotsnapshot", "0.0.0.0.0.0.0.0.", "x-y-z-00", "abcdefgh12345678abcdefgh"}
		tails := []string{"", "1", "11", "2", "12x", "x", "0", "00", ".1", ".x", "-", "-1", "9", "10", "a", ".0", "1.x", "z.1"}
		n := 0
		for _, h := range heads {
			for _, ta := range tails {
				for _, tb := range tails {
					n++
					if n%w.NShards != w.Shard {
						continue
					}
					pa, pb := h+ta, h+tb
					if !ref.ValidPre(pa) || !ref.ValidPre(pb) {
						continue
					}
					a := sem.Ver{Major: 3, PreRelease: pa}
					b := sem.Ver{Major: 3, PreRelease: pb, Build: "b"}
					w.ClassN(c06Pair(w, a, b, true), 1)
					w.ClassN("pre-releases-sharing-leading-blocks", 1)
					w.NT(1)
				}
			}
		}
	})
	c.Require("pre-releases-sharing-leading-blocks", 1500)

	// cores
	coreVals := []uint64{0, 1, 1 << 63, ^uint64(0) - 1, ^uint64(0), 2, 10, 1<<63 - 1, 1<<32 - 1, 1 << 32}
	var preSubset []string
	for i := 0; i < len(uCheap); i += len(uCheap)/40 + 1 {
		preSubset = append(preSubset, uCheap[i])
	}
	c.Parallel("cores", 0, func(w *rt.W) {
		k := 0
		for pos := 0; pos < 3; pos++ {
			for _, x := range coreVals {
				for _, y := range coreVals {
					k++
					if k%w.NShards != w.Shard {
						continue
					}
					for _, pa := range preSubset {
						for _, pb := range []string{"", pa, preSubset[(k+len(pa))%len(preSubset)]} {
							ca, cb := [3]uint64{5, 5, 5}, [3]uint64{5, 5, 5}
							ca[pos], cb[pos] = x, y
							if pos > 0 && k%3 == 0 { // a higher position already decides, the lower one disagrees
								ca[pos-1], cb[pos-1] = y, x
							}
							a := sem.Ver{Major: ca[0], Minor: ca[1], Patch: ca[2], PreRelease: pa, Build: builds[k%4]}
							b := sem.Ver{Major: cb[0], Minor: cb[1], Patch: cb[2], PreRelease: pb}
							cl := c06Pair(w, a, b, true)
							w.ClassN(cl, 1)
							if cl == "core" {
								w.NT(1)
							}
						}
					}
				}
			}
		}
	})
	c.Require("core", 10000)

	// structured cores: every bit length in every position; the versions differ by one in a higher
	// field while the lower fields are large on the smaller side (carries between packed fields, sign
	// tricks and truncations of any width show up here)
	c.Parallel("cores-by-bit-length", 0, func(w *rt.W) {
		field := func(bits int) uint64 {
			if bits == 0 {
				return 0
			}
			v := w.Rng.U64()>>uint(64-bits) | 1<<uint(bits-1)
			switch w.Rng.Intn(4) {
			case 0:
				v = 1 << uint(bits-1)
			case 1:
				v = 1<<uint(bits-1) | (1<<uint(bits-1) - 1)
			}
			return v
		}
		n := 0
		for hb := 0; hb <= 64; hb++ {
			for lb := 0; lb <= 64; lb++ {
				n++
				if n%w.NShards != w.Shard {
					continue
				}
				for rep := 0; rep < 6; rep++ {
					hi, lo, lo2 := field(hb), field(lb), field(w.Rng.Intn(65))
					for pos := 0; pos < 2; pos++ { // pos 0: (major, minor), pos 1: (minor, patch)
						var a, b sem.Ver
						if hi == ^uint64(0) {
							continue
						}
						if pos == 0 {
							a, b = sem.Ver{Major: hi, Minor: lo, Patch: lo2}, sem.Ver{Major: hi + 1, Minor: 0, Patch: 0}
						} else {
							a, b = sem.Ver{Major: 7, Minor: hi, Patch: lo}, sem.Ver{Major: 7, Minor: hi + 1, Patch: 0}
						}
						if rep%2 == 1 {
							b.Minor, b.Patch = lo2>>1, lo>>1
							if pos == 1 {
								b.Minor = hi + 1
							}
						}
						full := rep == 0
						c06Pair(w, a, b, full)
						c06Pair(w, b, a, false)
						a.PreRelease = "rc.1"
						c06Pair(w, a, b, false)
						w.NTHash(rt.HashU(a.Major, a.Minor, a.Patch, b.Major, b.Minor, b.Patch))
					}
				}
				w.ClassN("core-bit-length-combination", 1)
			}
		}
	})
	c.Require("core-bit-length-combination", 4225)

	// the specification's own chain
	c.Serial("spec-chain", func(w *rt.W) {
		chain := []string{"alpha", "alpha.1", "alpha.beta", "beta", "beta.2", "beta.11", "rc.1", ""}
		for i := range chain {
			for j := range chain {
				c06Pair(w, sem.New(1, 0, 0, chain[i]), sem.New(1, 0, 0, chain[j], "build"), true)
				w.ClassN("spec-chain-pair", 1)
			}
		}
		// major/minor/patch example of section 11.2
		vs := []sem.Ver{sem.New(1, 0, 0), sem.New(2, 0, 0), sem.New(2, 1, 0), sem.New(2, 1, 1)}
		for i := range vs {
			for j := range vs {
				c06Pair(w, vs[i], vs[j], true)
			}
		}
	})
	// identifiers containing the tag letter (a helper that strips "the" v must strip only a leading one)
	c.Serial("v-in-identifiers", func(w *rt.W) {
		vs := []string{"", "v", "V", "dev", "de", "d", "1v", "1", "2", "v1", "rev.2", "re.2", "v.v", "vv", "av", "a", "0v0", "00v", "-v", "dev.1v", "dev.1"}
		for i, a := range vs {
			for j, b := range vs {
				c06Pair(w, sem.New(1, 0, 0, a, builds[(i+j)%4]), sem.New(1, 0, 0, b, "v"), true)
				c06Pair(w, sem.New(1, 0, 0, a, "v1.v"), sem.New(1, 0, 1, b), true)
				w.ClassN("tag-letter-inside-identifier", 1)
			}
		}
	})
	c.Require("tag-letter-inside-identifier", 400)
	c.Require("spec-chain-pair", 64)

	nRand := c.Pick(1000000, 10000000)
	c.Parallel("long-lists", 0, func(w *rt.W) {
		for k := 0; k < nRand/w.NShards; k++ {
			pa, pb := genPrePair(w.Rng)
			if !ref.ValidPre(pa) && pa != "" || !ref.ValidPre(pb) && pb != "" {
				continue
			}
			a := sem.Ver{Major: 3, Minor: 1, Patch: 4, PreRelease: pa}
			b := sem.Ver{Major: 3, Minor: 1, Patch: 4, PreRelease: pb, Build: builds[k%4]}
			if k%64 == 0 {
				b.Patch = uint64(3 + w.Rng.Intn(3))
			}
			cl := c06Pair(w, a, b, k%8 == 0)
			w.ClassN("long-"+cl, 1)
			if cl != "excluded" && cl != "equal" {
				w.NTHash(rt.Hash64(pa, pb))
			}
			if cl != "equal" && w.Class("sample-long-"+cl) {
				w.Sample("long-"+cl, map[string]any{"a": a.String(), "b": b.String(), "section11": refCompare(a, b)})
			}
		}
	})
	// texts longer than the default input limit, with the limit raised or disabled: the deciding
	// difference lies beyond byte 1024 of the version text
	oldLimit := sem.MaxInputLength
	for _, limit := range []int{0, 5000} {
		sem.MaxInputLength = limit
		c.Parallel(fmt.Sprintf("long-texts-%d", limit), 0, func(w *rt.W) {
			for k := 0; k < 3000/w.NShards; k++ {
				var ids []string
				for n := 0; n < 1030+w.Rng.Intn(400); {
					id := genPreIdent(w.Rng)
					ids = append(ids, id)
					n += len(id) + 1
				}
				common := strings.Join(ids, ".")
				ta, tb := genPreIdent(w.Rng), genPreIdent(w.Rng)
				pa, pb := common+"."+ta, common+"."+tb
				switch k % 4 {
				case 1:
					pb = common // a longer list above its own prefix
				case 2:
					pb = pa + "." + tb
				}
				if len(pa) > 4900 || len(pb) > 4900 {
					continue
				}
				a := sem.Ver{Major: 1, PreRelease: pa}
				b := sem.Ver{Major: 1, PreRelease: pb, Build: builds[k%4]}
				cl := c06Pair(w, a, b, true)
				c06Pair(w, b, a, true)
				w.ClassN("long-text-"+cl, 1)
				w.ClassN("long-text-pair", 1)
			}
		})
	}
	// each text within the limit, the two together beyond it (the limit is per input)
	for _, limit := range []int{oldLimit, 24, 64} {
		sem.MaxInputLength = limit
		c.Parallel(fmt.Sprintf("pair-lengths-around-limit-%d", limit), 0, func(w *rt.W) {
			for k := w.Shard; k < 400; k += w.NShards {
				r := rt.NewRand(c.Seed, "C06/pairlen", uint64(k)+uint64(limit)<<20)
				la, lb := limit-r.Intn(3), limit/2+1+r.Intn(limit/2)
				if k%5 == 0 {
					la, lb = limit, limit
				}
				mk := func(l int, lastDigit int) sem.Ver { // "1.0.0-" + identifiers filling exactly l bytes
					n := l - len("1.0.0-")
					if n < 1 {
						return sem.Ver{Major: 1}
					}
					var sb strings.Builder
					for sb.Len() < n-1 {
						if sb.Len() > 0 && sb.Len()%9 == 8 && sb.Len() < n-2 {
							sb.WriteByte('.')
						} else {
							sb.WriteByte("abcdefghij"[sb.Len()%10])
						}
					}
					sb.WriteByte(byte('0' + lastDigit))
					return sem.Ver{Major: 1, PreRelease: sb.String()}
				}
				a, b := mk(la, 1+r.Intn(9)), mk(lb, 1+r.Intn(9))
				if len(a.String()) > limit || len(b.String()) > limit {
					continue
				}
				c06Pair(w, a, b, true)
				c06Pair(w, b, a, true)
				if len(a.String())+len(b.String()) > limit {
					w.ClassN("pair-within-limit-each-beyond-it-together", 1)
				}
			}
		})
	}
	sem.MaxInputLength = oldLimit
	c.Require("long-text-pair", 2000)
	c.Require("pair-within-limit-each-beyond-it-together", 600)
	for _, cl := range []string{"numeric-vs-numeric-different-digit-count", "numeric-vs-numeric-same-digit-count", "numeric-vs-alphanumeric", "alphanumeric-vs-alphanumeric", "identifier-list-is-prefix-of-other", "release-vs-prerelease", "equal", "excluded"} {
		c.Require(cl, 100)
	}
	c.Require("long-numeric-vs-numeric-different-digit-count", 1000)
	c.Require("long-numeric-vs-alphanumeric", 1000)
}
