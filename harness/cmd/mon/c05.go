package main

import (
	"errors"
	"fmt"
	"strings"

	"go.lstv.dev/util/uu"

	"verif/ref"
	"verif/rt"
)

// C05 — UUID text form is exact, strict and round-trips.

func init() {
	props["C05"] = runC05
	replayers["C05/format"] = func(v rt.Violation) string {
		c := rt.ReplayCtx("C05")
		c.Serial("replay", func(w *rt.W) { c05Format(w, uu.ID{Higher: rt.ArgUint(v, "hi"), Lower: rt.ArgUint(v, "lo")}, true) })
		return c.Report()
	}
	replayers["C05/parse"] = func(v rt.Violation) string {
		c := rt.ReplayCtx("C05")
		c.Serial("replay", func(w *rt.W) { c05Parse(w, rt.ArgString(v, "text"), uu.Rule(rt.ArgInt(v, "rule")), true) })
		return c.Report()
	}
}

type (
	uuNamedS string
	uuNamedB []byte
)

func uuTyped(err error) bool {
	var ps *uu.ParseError[string]
	var pb *uu.ParseError[[]byte]
	var ns *uu.ParseError[uuNamedS]
	var nb *uu.ParseError[uuNamedB]
	return errors.As(err, &ps) || errors.As(err, &pb) || errors.As(err, &ns) || errors.As(err, &nb) || errTypeHas(err, "*uu.ParseError[")
}

// c05Format checks every output path of one ID and parses each produced text back.
func c05Format(w *rt.W, id uu.ID, slow bool) {
	foreignActivity(int(id.Lower%1009), "uu")
	want := ref.UUIDText(id.Higher, id.Lower)
	wantURN := "urn:uuid:" + want
	fail := func(key, path, got, wantS string) {
		w.Fail(key, "format", rt.Args("hi", fmt.Sprint(id.Higher), "lo", fmt.Sprint(id.Lower), "path", path), got, wantS, path+" disagrees with the RFC 4122 layout reference")
	}
	o, err := uu.DefaultFormatter(nil, id, 0)
	if err != nil || string(o) != want {
		fail("format-plain", "DefaultFormatter(0)", string(o), want)
	}
	o, err = uu.DefaultFormatter(nil, id, uu.FormatURN)
	if err != nil || string(o) != wantURN {
		fail("format-urn", "DefaultFormatter(FormatURN)", string(o), wantURN)
	}
	w.Eval(2)
	if slow {
		for _, k := range []int{0, 1, 35, 36, 37, 40, 44, 45, 46, 64, 128} {
			b, err := uu.DefaultFormatter(make([]byte, 0, k), id, uu.FormatURN)
			if err != nil || string(b) != wantURN {
				fail("format-urn-spare-capacity", fmt.Sprintf("DefaultFormatter(make([]byte,0,%d),FormatURN)", k), string(b), wantURN)
			}
			b, err = uu.DefaultFormatter(append(make([]byte, 0, k+2), "id"...), id, 0)
			if err != nil || string(b) != "id"+want {
				fail("format-plain-spare-capacity", fmt.Sprintf("DefaultFormatter(\"id\" with spare %d,0)", k), string(b), "id"+want)
			}
		}
		if b, err := uu.Formatter(nil, id, uu.FormatURN); err != nil || string(b) != wantURN {
			fail("format-formatter-variable", "Formatter variable", string(b), wantURN)
		}
		w.Eval(23)
		if s := id.String(); s != want {
			fail("format-string", "String", s, want)
		}
		if s := id.URN(); s != wantURN {
			fail("format-urn-method", "URN", s, wantURN)
		}
		mt, err := id.MarshalText()
		if err != nil || string(mt) != want {
			fail("format-marshaltext", "MarshalText", string(mt), want)
		}
		for _, vb := range []struct{ verb, want string }{{"%s", want}, {"%v", want}, {"%u", wantURN}, {"%+v", want}, {"%#v", want}, {"%+u", wantURN}, {"%-50s", want}, {"%.8s", want}, {"%060u", wantURN}} {
			if s := fmt.Sprintf(vb.verb, id); s != vb.want {
				fail("format-verb", "Sprintf "+vb.verb, s, vb.want)
			}
		}
		for _, verb := range letterVerbs { // every letter: only %u selects the URN form, nothing changes the letter case
			wantV := want
			if verb == "%u" {
				wantV = wantURN
			}
			if s := fmt.Sprintf(verb, id); s != wantV {
				fail("format-verb", "Sprintf "+verb, s, wantV)
			}
		}
		for _, vb := range []struct {
			verb rune
			want string
		}{{'s', want}, {'v', want}, {'u', wantURN}, {'x', want}} {
			if s := formatVia(id, vb.verb); s != vb.want {
				fail("format-verb", "Format(%"+string(vb.verb)+") through a plain fmt.State", s, vb.want)
			}
		}
		for _, verb := range wideVerbs {
			if s := fmt.Sprintf(verb, id); s != want {
				fail("format-verb", "Sprintf "+verb, s, want)
			}
		}
		w.Eval(49 + 208)
		// existing content that ends like the URN scheme must not change what is appended
		for _, pre := range []string{"urn:uuid:", "see urn:uuid:", "URN:UUID:", "urn:uuid"} {
			if b, err := uu.DefaultFormatter([]byte(pre), id, uu.FormatURN); err != nil || string(b) != pre+wantURN {
				fail("format-urn-after-prefix", "DefaultFormatter("+pre+", FormatURN)", string(b), pre+wantURN)
			}
		}
		for _, p := range c05Prefixes {
			for fl, wantT := range []string{want, wantURN} {
				if b, err := uu.DefaultFormatter(append([]byte(nil), p...), id, uu.Format(fl)); err != nil || string(b) != string(p)+wantT {
					fail("format-after-prefix", fmt.Sprintf("DefaultFormatter(%q, %d)", p, fl), string(b), string(p)+wantT)
				}
			}
		}
		w.Eval(6)
	}
	if v, want := id.Version(), ref.UUIDVersion(id.Higher); v != want {
		fail("version", "Version", fmt.Sprint(v), fmt.Sprint(want))
	}
	if v, want := id.Variant(), ref.UUIDVariant(id.Lower); v != want {
		fail("variant", "Variant", fmt.Sprint(v), fmt.Sprint(want))
	}
	w.Eval(2)
	// round trip of the produced texts in lower and upper case, with and without prefix
	texts := []string{want, wantURN}
	if slow {
		texts = append(texts, strings.ToUpper(want), "urn:uuid:"+strings.ToUpper(want), "URN:uuid:"+want, "uRn:uuid:"+strings.ToUpper(want))
	}
	for _, t := range texts {
		c05Parse(w, t, 0, slow)
	}
	if slow {
		u := uu.ID{Higher: 0x1111111111111111, Lower: 0x2222222222222222} // the receiver already holds another ID
		if err := u.UnmarshalText([]byte(want)); err != nil || u != id {
			fail("unmarshaltext", "UnmarshalText", fmt.Sprintf("%+v err=%v", u, err), "same ID")
		}
		w.Eval(1)
	}
}

// c05Expect is the strict parse oracle under a rule.
func c05Expect(text string, r uu.Rule) (hi, lo uint64, ok bool, onlyBadDigit, urnDisabled, dontcare bool) {
	allowUpper := r&uu.RuleDisableUpperCaseDigits == 0
	switch len(text) {
	case 36:
		hi, lo, ok, onlyBadDigit = ref.UUIDParse(text, allowUpper)
		return
	case 45:
		p := text[:9]
		if !strings.EqualFold(p[:3], "urn") || p[3:] != ":uuid:" {
			// case variants of ":uuid:" are left open by the statement
			if strings.EqualFold(p, "urn:uuid:") {
				dontcare = true
			}
			return 0, 0, false, false, false, dontcare
		}
		hi, lo, ok, onlyBadDigit = ref.UUIDParse(text[9:], allowUpper)
		if r&uu.RuleDisableURN != 0 {
			return 0, 0, false, false, ok, false
		}
		return
	}
	return 0, 0, false, false, false, false
}

func c05Parse(w *rt.W, text string, r uu.Rule, both bool) (accepted bool) {
	hi, lo, ok, onlyBadDigit, urnDisabled, dc := c05Expect(text, r)
	if dc {
		w.DontCare("case variant of the :uuid: namespace letters")
		return false
	}
	if uu.MaxInputLength != 0 && len(text) > uu.MaxInputLength {
		ok = false
	}
	judge := func(path string, got uu.ID, err error) {
		w.Eval(1)
		fail := func(key, g, want string) {
			w.Fail(key, "parse", rt.Args("text", text, "rule", int(r), "path", path), g, want, path+" disagrees with the strict RFC 4122 text oracle")
		}
		if ok {
			if err != nil {
				fail("valid-rejected", "err="+err.Error(), "accepted")
			} else if got.Higher != hi || got.Lower != lo {
				fail("wrong-id", fmt.Sprintf("%016x%016x", got.Higher, got.Lower), fmt.Sprintf("%016x%016x", hi, lo))
			}
			return
		}
		if err == nil {
			key := "invalid-accepted"
			if urnDisabled {
				key = "disabled-urn-accepted"
			}
			fail(key, fmt.Sprintf("accepted as %016x%016x", got.Higher, got.Lower), "rejected")
			return
		}
		if !uuTyped(err) {
			fail("untyped-error", fmt.Sprintf("%T", err), "*uu.ParseError[T]")
		}
		if got != (uu.ID{}) {
			fail("nonzero-on-error", fmt.Sprintf("%+v", got), "zero ID")
		}
		if urnDisabled && !errors.Is(err, uu.ErrURNFormatDisabled) {
			fail("sentinel-urn-disabled", err.Error(), "ErrURNFormatDisabled")
		}
		if onlyBadDigit && !urnDisabled {
			var de uu.InvalidDigitError
			if !errors.As(err, &de) {
				fail("sentinel-invalid-digit", err.Error(), "InvalidDigitError")
			}
		}
	}
	g, err := uu.DefaultParser(text, r)
	judge("DefaultParser[string]", g, err)
	if both {
		g, err = uu.DefaultParser([]byte(text), r)
		judge("DefaultParser[[]byte]", g, err)
		g, err = uu.Parser([]byte(text), r) // the exported Parser variable is an entry point of its own
		judge("Parser variable", g, err)
		if r == 0 { // ID.UnmarshalText parses under rule 0
			u := uu.ID{Higher: 7, Lower: 7}
			uerr := u.UnmarshalText([]byte(text))
			if uerr != nil {
				u = uu.ID{}
			}
			judge("ID.UnmarshalText", u, uerr)
		}
		if len(text)%4 == 0 {
			g, err = uu.DefaultParser(uuNamedS(text), r)
			judge("DefaultParser[named string]", g, err)
			g, err = uu.DefaultParser(uuNamedB(text), r)
			judge("DefaultParser[named []byte]", g, err)
			// named types that print themselves differently from what they contain
			g, err = uu.DefaultParser(loudS(text), r)
			judge("DefaultParser[string type with String()]", g, err)
			g, err = uu.DefaultParser(hexB(text), r)
			judge("DefaultParser[[]byte type with hex String()]", g, err)
			g, err = uu.DefaultParser(fmtS(text), r)
			judge("DefaultParser[string type with Format()]", g, err)
		}
	}
	return ok
}

func init() {
	ids := []uu.ID{{}, {Higher: ^uint64(0), Lower: ^uint64(0)}, {Higher: 0xf81d4fae7dec11d0, Lower: 0xa76500a0c91e6bf6}, {Higher: 1, Lower: 1 << 63}}
	coldCases["C05"] = coldGeneric([]func(){
		func() { _, _ = uu.DefaultParser("00000000-0000-0000-0000-000000000000", 0) },
		func() { _ = uu.ID{}.URN() },
		func() {
			_, _ = uu.DefaultParser("URN:uuid:FFFFFFFF-FFFF-FFFF-FFFF-FFFFFFFFFFFF", uu.RuleDisableUpperCaseDigits)
		},
		func() { _ = uu.RandomID() },
		func() { var i uu.ID; _ = i.UnmarshalText([]byte("x")) },
		func() {},
	}, func(w *rt.W, k int) {
		c05Format(w, ids[k], true)
	}, len(ids))
}

var c05Prefixes = textPrefixes([]string{"urn:uuid:", "0123456789abcdef", "-"})

func runC05(c *rt.Ctx) {
	soloRun(c, "uu")
	retainedAcrossCollections(c, "ID.MarshalText / DefaultFormatter(nil, URN)", 256, func(i int) ([]byte, string) {
		id := uu.ID{Higher: uint64(i)*0x9e3779b97f4a7c15 + 1, Lower: uint64(i)*0xbf58476d1ce4e5b9 + 7}
		plain := fmt.Sprintf("%08x-%04x-%04x-%04x-%012x", id.Higher>>32, id.Higher>>16&0xffff, id.Higher&0xffff, id.Lower>>48, id.Lower&0xffffffffffff)
		if i%2 == 0 {
			b, _ := id.MarshalText()
			return b, plain
		}
		b, _ := uu.DefaultFormatter(nil, id, uu.FormatURN)
		return b, "urn:uuid:" + plain
	})
	callerEditsReturnedErrors(c, map[string]func() error{
		"uu.DefaultParser[string](x, 0)":       func() error { _, err := uu.DefaultParser("x", 0); return err },
		"uu.DefaultParser[string](digit g, 0)": func() error { _, err := uu.DefaultParser("f81d4fae-7dec-11d0-a765-00a0c91e6bfg", 0); return err },
		"uu.DefaultParser[[]byte](URN, RuleDisableURN)": func() error {
			_, err := uu.DefaultParser([]byte("urn:uuid:f81d4fae-7dec-11d0-a765-00a0c91e6bf6"), uu.RuleDisableURN)
			return err
		},
		"uu.DefaultParser[string](upper, DisableUpper)": func() error {
			_, err := uu.DefaultParser("F81D4FAE-7DEC-11D0-A765-00A0C91E6BF6", uu.RuleDisableUpperCaseDigits)
			return err
		},
		"uu.Parser variable(misplaced dash)": func() error { _, err := uu.Parser([]byte("f81d4fae7-dec-11d0-a765-00a0c91e6bf6"), 0); return err },
		"ID.UnmarshalText(35 bytes)":         func() error { var id uu.ID; return id.UnmarshalText([]byte("f81d4fae-7dec-11d0-a765-00a0c91e6bf")) },
	})
	appenderSweep(c, func() []any {
		var out []any
		for _, v := range []uu.ID{uu.ID{}, uu.ID{Higher: 1, Lower: 2}, uu.ID{Higher: 0xf81d4fae7dec11d0, Lower: 0xa76500a0c91e6bf6}, uu.ID{Higher: ^uint64(0), Lower: ^uint64(0)}} {
			v := v
			out = append(out, v, &v)
		}
		return out
	}())
	configuredEpisode() // the process has a past: failing configured Formatters and Parsers, since restored
	c.Extra("history_before_the_streams", "an episode of failing configured Formatter/Parser variables in all five packages")
	c.SetRule("(a) each of the 128 bit positions set/cleared over 6 background IDs; (b) each of the 32 hex positions x 16 digit values x {lower, upper} over the backgrounds under all 4 rule combinations; (c) seeded random IDs through every output path and back; " +
		"(d) for seeded valid texts in plain and URN form every single-byte substitution (256 values at each of the 36/45 positions), every single insertion and deletion, and prefix case variants, under the 4 rule combinations x {string, []byte}. " +
		"distinct_nontrivial counts distinct (text, rule) parse events outside the two IDs of the unit suite (sweeps enumerated once each; random IDs by hash)")
	c.Assume("text layout, nibble order and version/variant bits come from harness/ref/uuid.go, written from RFC 4122 sections 3 and 4.1")
	{
		c.SelfTest("rfc4122-example", ref.UUIDText(0xf81d4fae7dec11d0, 0xa76500a0c91e6bf6) == "f81d4fae-7dec-11d0-a765-00a0c91e6bf6")
		hi, lo, ok, _ := ref.UUIDParse("F81D4FAE-7DEC-11D0-A765-00A0C91E6BF6", true)
		c.SelfTest("parse-upper", ok && hi == 0xf81d4fae7dec11d0 && lo == 0xa76500a0c91e6bf6)
		_, _, ok2, _ := ref.UUIDParse("F81D4FAE-7DEC-11D0-A765-00A0C91E6BF6", false)
		_, _, ok3, _ := ref.UUIDParse("f81d4fae07dec-11d0-a765-00a0c91e6bf6", true)
		_, _, ok4, bd := ref.UUIDParse("f81d4fae-7dec-11d0-a765-00a0c91e6bfg", true)
		c.SelfTest("parse-strict", !ok2 && !ok3 && !ok4 && bd)
		c.SelfTest("version-variant", ref.UUIDVersion(0xf81d4fae7dec11d0) == 1 && ref.UUIDVariant(0xa76500a0c91e6bf6) == 1 && ref.UUIDVariant(0) == 0 && ref.UUIDVariant(^uint64(0)) == 3 && ref.UUIDVariant(0xc000000000000000) == 2)
		sc := rt.ReplayCtx("C05")
		sc.Serial("selftest", func(w *rt.W) { w.Fail("k", "parse", nil, "accepted", "rejected", "synthetic") })
		c.SelfTest("monitor-records-a-mismatch", sc.Violations() == 1)
	}
	r0 := rt.NewRand(c.Seed, "C05/bg", 0)
	bgs := []uu.ID{{}, {Higher: ^uint64(0), Lower: ^uint64(0)}, {Higher: 0xaaaaaaaaaaaaaaaa, Lower: 0x5555555555555555}, {Higher: r0.U64(), Lower: r0.U64()}, {Higher: r0.U64(), Lower: r0.U64()}, {Higher: 0xf81d4fae7dec11d0, Lower: 0xa76500a0c91e6bf6}}
	// the rule is a bit set: undefined extra bits must not change what the two documented bits mean
	rules := []uu.Rule{0, uu.RuleDisableURN, uu.RuleDisableUpperCaseDigits, uu.RuleDisableURN | uu.RuleDisableUpperCaseDigits,
		4, uu.RuleDisableURN | 8, uu.RuleDisableUpperCaseDigits | 1<<12, ^uu.Rule(0)}

	c.Serial("bit-sweep", func(w *rt.W) {
		for _, bg := range bgs {
			for bit := 0; bit < 128; bit++ {
				for _, set := range []bool{false, true} {
					id := bg
					m := uint64(1) << uint(bit%64)
					p := &id.Lower
					if bit >= 64 {
						p = &id.Higher
					}
					if set {
						*p |= m
					} else {
						*p &^= m
					}
					c05Format(w, id, true)
					w.NT(1)
					w.ClassN("bit-position-sweep", 1)
				}
			}
		}
	})
	c.Exhaustive("each of the 128 bit positions set and cleared over 6 background IDs through every output path and back")

	c.Parallel("hex-sweep", 0, func(w *rt.W) {
		k := 0
		for _, bg := range bgs {
			base := ref.UUIDText(bg.Higher, bg.Lower)
			for ni := 0; ni < 32; ni++ {
				for _, digit := range "0123456789abcdefABCDEF" {
					k++
					if k%w.NShards != w.Shard {
						continue
					}
					pos := ref.UUIDNibblePos(ni)
					text := base[:pos] + string(digit) + base[pos+1:]
					for _, r := range rules {
						c05Parse(w, text, r, true)
						c05Parse(w, "urn:uuid:"+text, r, true)
						w.NT(2)
					}
					w.ClassN("hex-position-sweep", 1)
				}
			}
		}
	})
	c.Exhaustive("each of the 32 hex positions x 22 digit characters over 6 backgrounds x 4 rule combinations x {plain, URN} x {string, []byte}")

	nRand := c.Pick(1000000, 40000000)
	c.Parallel("random-ids", 0, func(w *rt.W) {
		for i := 0; i < nRand/w.NShards; i++ {
			id := uu.ID{Higher: w.Rng.U64(), Lower: w.Rng.U64()}
			c05Format(w, id, i%8 == 0)
			w.NTHash(rt.HashU(id.Higher, id.Lower))
			if w.Class("random-id") {
				w.Sample("random-id", map[string]any{"hi": fmt.Sprintf("%016x", id.Higher), "lo": fmt.Sprintf("%016x", id.Lower), "text": id.String()})
			}
		}
	})
	c.Require("random-id", 100000)

	nTexts := c.Pick(16, 50)
	c.Parallel("mutations", 0, func(w *rt.W) {
		for i := w.Shard; i < nTexts; i += w.NShards {
			r := rt.NewRand(c.Seed, "C05/mut", uint64(i))
			plain := ref.UUIDText(r.U64(), r.U64())
			if i%3 == 0 {
				plain = strings.ToUpper(plain)
			}
			for _, base := range []string{plain, "urn:uuid:" + plain, "URN:uuid:" + plain} {
				for _, rule := range rules {
					c05Parse(w, base, rule, true)
					for p := 0; p <= len(base); p++ {
						if p < len(base) {
							for b := 0; b < 256; b++ {
								c05Parse(w, base[:p]+string([]byte{byte(b)})+base[p+1:], rule, b%4 == 0)
							}
							w.ClassN("single-byte-substitution", 256)
							w.NT(256)
							c05Parse(w, base[:p]+base[p+1:], rule, true)
						}
						for _, ins := range []string{"0", "a", "F", "-", " ", "\x00", "\x10", "g", "{"} {
							c05Parse(w, base[:p]+ins+base[p:], rule, true)
						}
						w.ClassN("insertion-deletion", 10)
					}
				}
			}
			// prefix case variants and lookalike prefixes
			for mask := 0; mask < 512; mask++ {
				pb := []byte("urn:uuid:")
				for k := 0; k < 9; k++ {
					if mask>>uint(k)&1 == 1 && pb[k] >= 'a' && pb[k] <= 'z' {
						pb[k] -= 32
					}
				}
				c05Parse(w, string(pb)+plain, 0, true)
				w.ClassN("prefix-case-variant", 1)
			}
			for _, pfx := range []string{"urn:uuid ", "urn-uuid:", "urn:uuid;", "uuid:urn:", "urn:guid:", "        :", "{", "urn:UUID:"} {
				c05Parse(w, pfx+plain, 0, true)
			}
			// braces / no hyphens / other common non-canonical forms must be rejected
			for _, t := range []string{strings.ReplaceAll(plain, "-", ""), "{" + plain + "}", plain[:35], plain + "0", strings.ReplaceAll(plain, "-", "") + "0000", plain[:8] + plain[9:13] + "-" + plain[13:], ""} {
				c05Parse(w, t, 0, true)
			}
		}
	})
	// two and four simultaneous substitutions: wrong separators that "cancel out", paired digit defects
	c.Parallel("multi-substitution", 0, func(w *rt.W) {
		seps := []int{8, 13, 18, 23}
		base := []byte("ed7059f3-8044-4f2a-81aa-b959b33c7777")
		n := 0
		for i := 0; i < 4; i++ {
			for j := i + 1; j < 4; j++ {
				for a := 0; a < 256; a++ {
					n++
					if n%w.NShards != w.Shard {
						continue
					}
					for b := 0; b < 256; b++ {
						t := append([]byte(nil), base...)
						t[seps[i]], t[seps[j]] = byte(a), byte(b)
						c05Parse(w, string(t), 0, false)
						if (a+b)%64 == 0 {
							c05Parse(w, "urn:uuid:"+string(t), uu.Rule(b&3), true)
						}
					}
					w.ClassN("separator-pair-substitution", 256)
				}
			}
		}
		for k := 0; k < 200000/w.NShards; k++ {
			t := []byte(ref.UUIDText(w.Rng.U64(), w.Rng.U64()))
			switch k % 3 {
			case 0: // all four separators replaced, sum of the four preserved
				d := w.Rng.Intn(40) - 20
				e := w.Rng.Intn(40) - 20
				t[8], t[13], t[18], t[23] = byte('-'+d), byte('-'-d), byte('-'+e), byte('-'-e)
			case 1: // two random positions, random bytes
				t[w.Rng.Intn(36)] = byte(w.Rng.Intn(256))
				t[w.Rng.Intn(36)] = byte(w.Rng.Intn(256))
			default: // xor-balanced pair
				x := byte(1 + w.Rng.Intn(255))
				i, j := seps[w.Rng.Intn(4)], seps[w.Rng.Intn(4)]
				t[i] ^= x
				t[j] ^= x
			}
			c05Parse(w, string(t), uu.Rule(k&3), true)
			w.ClassN("multi-substitution", 1)
		}
	})
	{
		oldF := uu.Formatter
		for _, withBytes := range []bool{false, true} {
			withBytes := withBytes
			uu.Formatter = func(buf []byte, id uu.ID, f uu.Format) ([]byte, error) {
				if withBytes { // the usual shape of a wrapper: the bytes it has together with its error
					b, _ := uu.DefaultFormatter(buf, id, f)
					return append(b, "?!"...), errors.New("formatter refuses")
				}
				return nil, errors.New("formatter refuses")
			}
			c.Serial("failing-formatter", func(w *rt.W) {
				for _, id := range bgs {
					want := ref.UUIDText(id.Higher, id.Lower)
					for _, vb := range []struct{ verb, want string }{{"%s", want}, {"%v", want}, {"%u", "urn:uuid:" + want}} {
						if g := fmt.Sprintf(vb.verb, id); g != vb.want {
							w.Fail("failing-formatter-fallback", "format", rt.Args("hi", fmt.Sprint(id.Higher), "lo", fmt.Sprint(id.Lower), "path", "Sprintf "+vb.verb+" with a failing Formatter"), g, vb.want, "String and the verbs fall back to DefaultFormatter when the configured Formatter fails")
						}
					}
					if g := id.String(); g != want {
						w.Fail("failing-formatter-fallback", "format", rt.Args("hi", fmt.Sprint(id.Higher), "lo", fmt.Sprint(id.Lower), "path", "String with a failing Formatter"), g, want, "fallback")
					}
					if g := id.URN(); g != "urn:uuid:"+want {
						w.Fail("failing-formatter-fallback", "format", rt.Args("hi", fmt.Sprint(id.Higher), "lo", fmt.Sprint(id.Lower), "path", "URN with a failing Formatter"), g, "urn:uuid:"+want, "fallback")
					}
					w.Eval(5)
				}
			})
		}
		uu.Formatter = oldF
	}
	{ // call histories: valid texts colliding under weak checksums, parsed back to back
		r := rt.NewRand(c.Seed, "C05/collide", 0)
		texts := make([]string, 0, 1500000)
		for i := 0; i < 1500000; i++ {
			texts = append(texts, ref.UUIDText(r.U64(), r.U64()))
		}
		collisionHistories(c, texts, 300, 200, func(w *rt.W, t string) { c05Parse(w, t, 0, true) })
	}
	{ // with the input limit raised or disabled only the two documented lengths are texts of an ID
		oldL := uu.MaxInputLength
		for _, limit := range []int{0, 54, 100, 46} {
			uu.MaxInputLength = limit
			c.Parallel(fmt.Sprintf("long-shapes-%d", limit), 0, func(w *rt.W) {
				for k := 0; k < 4000/w.NShards; k++ {
					t := ref.UUIDText(w.Rng.U64(), w.Rng.U64())
					for _, s := range []string{"urn:uuid:urn:uuid:" + t, "urn:uuid:urn:uuid:urn:uuid:" + t, "urn:uuid:" + t + t[:9], t + t, "urn:uuid:" + t + "urn:uuid:", t + "-" + t[:8], "{" + t + "}", "urn:uuid:" + "{" + t + "}", t + strings.Repeat(" ", 9), strings.Repeat(" ", 9) + t, "uuid:urn:uuid:" + t, t[:36] + t[:9]} {
						for _, r := range rules[:4] {
							c05Parse(w, s, r, true)
						}
					}
					c05Parse(w, t, 0, true)
					c05Parse(w, "urn:uuid:"+t, uu.RuleDisableUpperCaseDigits, true)
					w.ClassN("long-shape-with-limit-raised", 1)
				}
			})
		}
		uu.MaxInputLength = oldL
		c.Require("long-shape-with-limit-raised", 10000)
	}
	{ // the text as other layers spell it (quoted, bracketed, escaped, padded, doubled, other scripts): not the text
		oldL := uu.MaxInputLength
		for _, limit := range []int{45, 0, 400} {
			uu.MaxInputLength = limit
			c.Parallel(fmt.Sprintf("decorated-%d", limit), 0, func(w *rt.W) {
				for k := 0; k < 64/w.NShards+1; k++ {
					t := ref.UUIDText(w.Rng.U64(), w.Rng.U64())
					if k%3 == 0 {
						t = strings.ToUpper(t)
					}
					for _, base := range []string{t, "urn:uuid:" + t} {
						for _, d := range decorate(base) {
							for _, r := range rules[:4] {
								c05Parse(w, d, r, true)
							}
							w.ClassN("decorated-valid-text", 1)
						}
					}
				}
			})
		}
		uu.MaxInputLength = oldL
		c.Require("decorated-valid-text", 10000)
	}
	refillRun(c, c.Pick(40000, 400000), "uu")
	guardedInputs(c, "C05", "uu", []string{"f81d4fae-7dec-11d0-a765-00a0c91e6bf6", "urn:uuid:f81d4fae-7dec-11d0-a765-00a0c91e6bf6", "F81D4FAE-7DEC-11D0-A765-00A0C91E6BF6", "URN:uuid:00000000-0000-0000-0000-000000000000", "f81d4fae-7dec-11d0-a765-00a0c91e6bf", "f81d4fae-7dec-11d0-a765-00a0c91e6bf6f", "f81d4fae07dec-11d0-a765-00a0c91e6bf6", "urn:uuid:", "u", "f81d4fae"})
	{
		var steps []func(w *rt.W)
		t1, t2 := "f81d4fae-7dec-11d0-a765-00a0c91e6bf6", "00000000-0000-4000-8000-00000000000a"
		for _, t := range []string{t1, "urn:uuid:" + t1, strings.ToUpper(t1), t2, "urn:uuid:" + strings.ToUpper(t2), t1[:35] + "g"} {
			for _, r := range rules[:4] {
				t, r := t, r
				steps = append(steps, func(w *rt.W) { c05Parse(w, t, r, false); c05Parse(w, t, r, true) })
			}
		}
		tripleHistories(c, steps)
	}
	{
		// hooks that use the library themselves: an "always URN" Formatter built on ID.URN, a Parser that forbids forms by
		// adding rules - on one goroutine (a lock held across the hook) and from all workers at once (a guard that counts
		// calls in progress and sends the overflow past the configured Parser)
		oldF, oldP := uu.Formatter, uu.Parser
		uu.Formatter = func(buf []byte, id uu.ID, f uu.Format) ([]byte, error) { return append(buf, id.URN()...), nil }
		uu.Parser = func(in []byte, r uu.Rule) (uu.ID, error) {
			if _, err := uu.DefaultParser("f81d4fae-7dec-11d0-a765-00a0c91e6bf6", 0); err != nil { // a lookup the hook makes on its own
				return uu.ID{}, err
			}
			return uu.DefaultParser(in, r|uu.RuleDisableURN|uu.RuleDisableUpperCaseDigits)
		}
		c.Serial("hooks-that-call-the-library", func(w *rt.W) {
			id := uu.ID{Higher: 0xf81d4fae7dec11d0, Lower: 0xa76500a0c91e6bf6}
			want := "urn:uuid:" + ref.UUIDText(id.Higher, id.Lower)
			var s1, s2, s3 string
			var mt []byte
			ok := callMustReturn(w, "ID.String under a Formatter that calls ID.URN", rt.Args("hook", "Formatter = append(buf, id.URN()...)"), func() {
				s1 = id.String()
				s2 = fmt.Sprintf("%s", id)
				s3 = fmt.Sprintf("%v|%u", id, id)
				mt, _ = id.MarshalText()
			})
			w.Eval(4)
			if ok && (s1 != want || s2 != want || string(mt) != want || !strings.HasSuffix(s3, want)) {
				w.Fail("configured-formatter-not-used", "reentrant", rt.Args("hook", "Formatter = append(buf, id.URN()...)"), fmt.Sprint(s1, " ", s2, " ", s3, " ", string(mt)), want, "String, the verbs and MarshalText use the Formatter variable")
			}
			var got uu.ID
			var err error
			ok = callMustReturn(w, "ID.UnmarshalText under a Parser that calls DefaultParser", rt.Args("hook", "Parser = DefaultParser(in, r|RuleDisableURN|RuleDisableUpperCaseDigits)"), func() {
				err = got.UnmarshalText([]byte(want))
			})
			w.Eval(1)
			if ok && (err == nil || got != (uu.ID{})) {
				w.Fail("configured-parser-not-used", "reentrant", rt.Args("text", want), fmt.Sprint(got, " ", err), "refused: the configured Parser forbids the URN form", "UnmarshalText uses the Parser variable")
			}
			w.ClassN("hooks-that-call-the-library", 1)
		})
		c.Parallel("configured-parser-under-concurrency", 0, func(w *rt.W) {
			plain := ref.UUIDText(w.Rng.U64(), w.Rng.U64())
			for i := 0; i < 20000; i++ {
				text := "urn:uuid:" + plain
				if i%2 == 1 {
					text = strings.ToUpper(plain)
					if text == plain {
						continue
					}
				}
				var got uu.ID
				err := got.UnmarshalText([]byte(text))
				w.Eval(1)
				if err == nil || got != (uu.ID{}) {
					w.Fail("configured-parser-bypassed-under-concurrency", "reentrant", rt.Args("text", text), fmt.Sprint(got, " ", err), "refused: the configured Parser adds RuleDisableURN and RuleDisableUpperCaseDigits", "UnmarshalText uses the Parser variable, also while other goroutines are inside UnmarshalText")
					break
				}
			}
			w.ClassN("configured-parser-under-concurrency", 1)
		})
		uu.Formatter, uu.Parser = oldF, oldP
		c.Require("hooks-that-call-the-library", 1)
		c.Require("configured-parser-under-concurrency", 2)
	}
	// many digit positions wrong at once: counters of invalid digits, accumulated flags and checksums that cancel out
	c.Parallel("many-invalid-digits", 0, func(w *rt.W) {
		plain := "f81d4fae-7dec-11d0-a765-00a0c91e6bf6"
		var digitPos []int
		for i := range plain {
			if plain[i] != '-' {
				digitPos = append(digitPos, i)
			}
		}
		bads := []byte{'x', 'g', 'G', '*', ' ', '-', 0xff, 'Z', '/', ':', '@', '`', 0x00, 'o', 0x80}
		n := 0
		for _, bad := range bads {
			for k := 1; k <= 32; k++ {
				for variant := 0; variant < 3; variant++ {
					n++
					if n%w.NShards != w.Shard {
						continue
					}
					b := []byte(plain)
					for j := 0; j < k; j++ {
						pos := digitPos[j] // the first k
						switch variant {
						case 1:
							pos = digitPos[31-j] // the last k
						case 2:
							pos = digitPos[(j*7+int(bad))%32] // scattered
						}
						b[pos] = bad
					}
					for _, r := range []uu.Rule{0, uu.RuleDisableURN, uu.RuleDisableUpperCaseDigits} {
						c05Parse(w, string(b), r, true)
						c05Parse(w, "urn:uuid:"+string(b), r, false)
					}
					w.ClassN("many-invalid-digits", 1)
				}
			}
		}
	})
	c.Require("many-invalid-digits", 1200)
	coldStart(c, "C05", 12)
	c.Exhaustive("all 6 pairs of separator positions x all 65,536 byte pairs on one valid text")
	c.Require("separator-pair-substitution", 390000)
	c.Require("single-byte-substitution", 100000)
	c.Require("prefix-case-variant", 512)
	c.Require("bit-position-sweep", 1536)
	c.Require("hex-position-sweep", 4000)
}
