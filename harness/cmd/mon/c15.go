package main

import (
	"errors"
	"fmt"
	"time"

	"go.lstv.dev/util/date"

	"verif/ref"
	"verif/rt"
)

// C15 — Date range filter contains exactly the inclusive interval.

func init() {
	props["C15"] = runC15
	replayers["C15/routes"] = func(v rt.Violation) string {
		c := rt.ReplayCtx("C15")
		c15Routes(c)
		return c.Report()
	}
	replayers["C15/filter"] = func(v rt.Violation) string {
		c := rt.ReplayCtx("C15")
		c.Serial("replay", func(w *rt.W) {
			c15Case(w, rt.ArgInt(v, "from_ordinal"), rt.ArgInt(v, "to_ordinal"), rt.ArgInt(v, "probe_ordinal"), v.Args["from_nil"] == true, v.Args["to_nil"] == true)
		})
		return c.Report()
	}
}

func ordDate(o int64) date.Date {
	y, m, d := ref.Civil(o)
	return date.New(int(y), date.Month(m), d)
}

func ordText(o int64) string {
	y, m, d := ref.Civil(o)
	return fmt.Sprintf("%d-%02d-%02d", y, m, d)
}

// c15Case builds one filter and probes it, before and after the caller's bound
// variables are overwritten. Dates are identified by their day ordinals.
func c15Case(w *rt.W, from, to, probe int64, fromNil, toNil bool, extraProbes ...int64) {
	fd, td := ordDate(from), ordDate(to)
	var fp, tp *date.Date
	if !fromNil {
		fp = &fd
	}
	if !toNil {
		tp = &td
	}
	args := func(p int64) map[string]any {
		return rt.Args("from_ordinal", from, "to_ordinal", to, "probe_ordinal", p, "from_nil", fromNil, "to_nil", toNil, "from", ordText(from), "to", ordText(to), "probe", ordText(p))
	}
	if !fromNil && !toNil && from == to && (probe+from)%2 == 0 {
		tp = fp // the caller passes one and the same variable as both bounds
	}
	f, err := date.FilterFromTo(fp, tp)
	w.Eval(1)
	wantErr := !fromNil && !toNil && from > to
	if wantErr {
		if err == nil {
			w.Fail("inverted-bounds-accepted", "filter", args(probe), "filter built", "ErrInvalidFromOrTo", "lower bound after upper bound must be refused")
		} else if !errors.Is(err, date.ErrInvalidFromOrTo) {
			w.Fail("wrong-error", "filter", args(probe), err.Error(), "ErrInvalidFromOrTo", "documented error expected")
		}
		if f != nil {
			w.Fail("filter-returned-with-error", "filter", args(probe), fmt.Sprintf("%T", f), "nil filter", "an error must come with a nil filter")
		}
		w.ClassN("construction-refused", 1)
		return
	}
	if err != nil || f == nil {
		w.Fail("valid-bounds-refused", "filter", args(probe), fmt.Sprint("err=", err), "a filter", "bounds in order (or absent) must be accepted")
		return
	}
	contains := func(p int64) bool { return (fromNil || p >= from) && (toNil || p <= to) }
	probes := append([]int64{probe}, extraProbes...)
	for _, p := range probes {
		w.Eval(1)
		if got := f.Contains(ordDate(p)); got != contains(p) {
			key := "contains-wrong"
			switch {
			case p == from && !fromNil, p == to && !toNil:
				key = "contains-wrong-at-bound"
			}
			w.Fail(key, "filter", args(p), fmt.Sprint(got), fmt.Sprint(contains(p)), "Contains disagrees with the inclusive interval on day ordinals")
		}
	}
	// overwrite the caller's variables; the filter must keep its bounds
	fd = ordDate(from + 400)
	td = ordDate(to - 400)
	if fp != nil {
		*fp = ordDate(probe + 1)
	}
	if tp != nil {
		*tp = ordDate(probe - 1)
	}
	for _, p := range probes {
		w.Eval(1)
		if got := f.Contains(ordDate(p)); got != contains(p) {
			w.Fail("bounds-follow-caller-variables", "filter", args(p), fmt.Sprint(got), fmt.Sprint(contains(p)), "after the caller changed its variables the filter no longer contains the interval it was built with")
		}
	}
	// the caller builds its next filter from the same variables, which now hold another (valid) range, while the
	// first filter is still in use
	if fp != nil {
		*fp = ordDate(from - 9)
	}
	if tp != nil {
		*tp = ordDate(to + 9)
	}
	if f2, err2 := date.FilterFromTo(fp, tp); err2 == nil && f2 != nil {
		_ = f2.Contains(ordDate(probe))
		for _, p := range append(probes, from-1, from-9, to+1, to+9) {
			w.Eval(1)
			if got := f.Contains(ordDate(p)); got != contains(p) {
				w.Fail("bounds-follow-caller-variables", "filter", args(p), fmt.Sprint(got), fmt.Sprint(contains(p)), "after the caller built another filter from the same variables the first filter no longer contains the interval it was built with")
			}
		}
	}
	w.ClassN("filter-probed", int64(len(probes)))
}

func runC15(c *rt.Ctx) {
	c.SetRule("all (from, to, probe) triples over a 64-date window spanning day, month, year, leap-day and century boundaries (plus the 0000/9999 edges) x the four nil/non-nil combinations (exhaustive for the window), judged on day ordinals; seeded triples over years 0000-9999 with near-bound probes; every filter is probed again after the caller's bound variables are overwritten. " +
		"distinct_nontrivial counts distinct (from, to, probe, nil-combination) cases where the probe shares exactly one or two of year/month/day with a bound or the bounds lie in different months/years (window: once each; seeded: by hash)")
	c.Assume("interval membership decided on day ordinals from harness/ref/civil.go")
	{
		sc := rt.ReplayCtx("C15")
		sc.Serial("selftest", func(w *rt.W) { w.Fail("k", "filter", nil, "true", "false", "synthetic") })
		c.SelfTest("monitor-records-a-mismatch", sc.Violations() == 1)
		c.SelfTest("ordinal-order", ref.Ordinal(2019, 8, 10) < ref.Ordinal(2020, 8, 5) && ref.Ordinal(2000, 2, 29)+1 == ref.Ordinal(2000, 3, 1))
	}
	var window []int64
	add := func(y int64, m, d, n int) {
		o := ref.Ordinal(y, m, d)
		for i := 0; i < n; i++ {
			window = append(window, o+int64(i))
		}
	}
	add(1999, 12, 28, 8) // year boundary
	add(2000, 2, 26, 6)  // leap day
	add(2100, 2, 26, 5)  // century non-leap
	add(2019, 8, 3, 3)   // same month, different years, crossing day order
	add(2019, 8, 9, 3)
	add(2020, 8, 3, 4)
	add(2020, 8, 14, 3)
	add(2021, 8, 2, 3)
	add(2020, 7, 30, 4)
	add(2021, 1, 30, 4)
	add(0, 1, 1, 3)
	add(9999, 12, 29, 3)
	add(1, 1, 1, 2)
	add(2020, 12, 5, 2)
	add(2019, 12, 10, 2)
	c.Extra("window_dates", len(window))
	same := func(a, b int64) int {
		ya, ma, da := ref.Civil(a)
		yb, mb, db := ref.Civil(b)
		n := 0
		if ya == yb {
			n++
		}
		if ma == mb {
			n++
		}
		if da == db {
			n++
		}
		return n
	}
	c.Parallel("window", 0, func(w *rt.W) {
		for i := w.Shard; i < len(window); i += w.NShards {
			for _, to := range window {
				for _, probe := range window {
					from := window[i]
					for nc := 0; nc < 4; nc++ {
						fn, tn := nc&1 == 1, nc&2 == 2
						c15Case(w, from, to, probe, fn, tn)
						s1, s2 := same(probe, from), same(probe, to)
						yf, mf, _ := ref.Civil(from)
						yt, mt, _ := ref.Civil(to)
						if s1 == 1 || s1 == 2 || s2 == 1 || s2 == 2 || yf != yt || mf != mt {
							w.NT(1)
						}
					}
				}
			}
			if w.Class("sample-window") {
				w.Sample("window", map[string]any{"from": ordText(window[i]), "to": ordText(window[(i*7+3)%len(window)]), "probe": ordText(window[(i*11+5)%len(window)])})
			}
		}
	})
	c.Exhaustive(fmt.Sprintf("all (from, to, probe) triples over the %d-date window x 4 nil combinations", len(window)))

	lo, hi := ref.Ordinal(0, 1, 1), ref.Ordinal(9999, 12, 31)
	nRand := c.Pick(1000000, 60000000)
	c.Parallel("random", 0, func(w *rt.W) {
		span := uint64(hi - lo + 1)
		clamp := func(o int64) int64 {
			if o < lo+401 {
				return lo + 401
			}
			if o > hi-401 {
				return hi - 401
			}
			return o
		}
		for k := 0; k < nRand/w.NShards; k++ {
			from := clamp(lo + int64(w.Rng.U64()%span))
			to := clamp(lo + int64(w.Rng.U64()%span))
			switch k % 5 {
			case 0:
				to = clamp(from + int64(w.Rng.Intn(800)) - 400)
			case 1: // same month and day, other year
				y, m, d := ref.Civil(from)
				ny := y + int64(w.Rng.Intn(7)) - 3
				if ny >= 2 && ny <= 9997 && ref.ValidYMD(ny, m, d) {
					to = ref.Ordinal(ny, m, 1+w.Rng.Intn(ref.DaysIn(ny, m)))
				}
			}
			nc := w.Rng.Intn(4)
			probe := clamp(lo + int64(w.Rng.U64()%span))
			near := []int64{clamp(from - 1), from, clamp(from + 1), clamp(to - 1), to, clamp(to + 1)}
			// probes in the same month of neighbouring years
			y, m, d := ref.Civil(to)
			for _, dy := range []int64{-1, 1} {
				if ny := y + dy; ny >= 2 && ny <= 9997 {
					dd := d
					if dd > ref.DaysIn(ny, m) {
						dd = ref.DaysIn(ny, m)
					}
					near = append(near, ref.Ordinal(ny, m, 1+w.Rng.Intn(ref.DaysIn(ny, m))), ref.Ordinal(ny, m, dd))
				}
			}
			c15Case(w, from, to, probe, nc&1 == 1, nc&2 == 2, near...)
			w.NTHash(rt.HashU(uint64(from), uint64(to), uint64(probe), uint64(nc)))
		}
	})
	// far years (legal through New, UnmarshalBinary and the parser with a raised limit)
	c.Parallel("far-years", 0, func(w *rt.W) {
		anchors := []int64{ref.Ordinal(2020, 1, 1), ref.Ordinal(5000000, 1, 1), ref.Ordinal(-5000000, 6, 15), ref.Ordinal(4194304, 12, 31), ref.Ordinal(4194305, 1, 1), ref.Ordinal(-4194305, 1, 1),
			ref.Ordinal(999999999, 12, 31), ref.Ordinal(-999999999, 1, 1), ref.Ordinal(65536, 2, 29), ref.Ordinal(32768, 1, 1), ref.Ordinal(8388608, 3, 1), ref.Ordinal(16777216, 1, 1), ref.Ordinal(268435456, 2, 29), ref.Ordinal(536870912, 2, 29), ref.Ordinal(-1, 12, 31), ref.Ordinal(10000, 1, 1)}
		// a Date holds any 32-bit year: bounds and probes whose years lie more than 2^31 apart (a difference of years
		// no longer fits the type the years are kept in)
		for _, y := range []int64{1073741824, -1073741824, 1500000000, -1500000000, 2147483000, -2147483000, 2000000000, -150000000} {
			anchors = append(anchors, ref.Ordinal(y, 1, 1), ref.Ordinal(y, 8, 31))
		}
		for k := 4; k < 30; k++ {
			anchors = append(anchors, ref.Ordinal(int64(1)<<uint(k), 1, 1), ref.Ordinal(int64(1)<<uint(k)-1, 12, 31), ref.Ordinal(-(int64(1)<<uint(k)), 7, 4))
		}
		n := 0
		for i, a := range anchors {
			for _, b := range anchors {
				n++
				if n%w.NShards != w.Shard {
					continue
				}
				for nc := 0; nc < 4; nc++ {
					probe := anchors[(i*7+nc)%len(anchors)]
					c15Case(w, a, b, probe, nc&1 == 1, nc&2 == 2, a, b, a-1, b+1, a+366, b-366)
					w.NT(1)
				}
				w.ClassN("far-year-bounds", 1)
			}
		}
	})
	c.Parallel("leap-windows", 0, func(w *rt.W) {
		years := []int64{-400, -101, -100, -5, -4, -1, 0, 1, 3, 4, 100, 400, 1900, 2000, 2100, 9996}
		for yi := w.Shard; yi < len(years); yi += w.NShards {
			o := ref.Ordinal(years[yi], 2, 26)
			for a := int64(0); a < 7; a++ {
				for b := int64(0); b < 7; b++ {
					for p := int64(0); p < 7; p++ {
						for nc := 0; nc < 4; nc++ {
							c15Case(w, o+a, o+b, o+p, nc&1 == 1, nc&2 == 2)
						}
					}
				}
			}
			w.ClassN("leap-window-year", 1)
		}
	})
	// bounds aligned with calendar units (a whole year, a whole month, a quarter) and bounds one or two
	// days short of them, probed on both sides of every unit boundary: an implementation that answers
	// "whole years" or "whole months" by comparing years or months only goes wrong exactly here
	c.Parallel("calendar-aligned-bounds", 0, func(w *rt.W) {
		years := []int64{-401, -400, -100, -4, -1, 0, 1, 4, 99, 100, 400, 1899, 1900, 1996, 1999, 2000, 2019, 2020, 2023, 2024, 2100, 2400, 9995, 9996, 10000, 102500, 4194304}
		spans := []int64{0, 1, 2, 3, 4, 100}
		n := 0
		for _, fy := range years {
			for _, sp := range spans {
				n++
				if n%w.NShards != w.Shard {
					continue
				}
				ty := fy + sp
				var starts, ends []int64
				for m := 1; m <= 12; m++ {
					starts = append(starts, ref.Ordinal(fy, m, 1))
					last := ref.Ordinal(ty, m, ref.DaysIn(ty, m))
					ends = append(ends, last, last-1, last-2, last+1)
				}
				starts = append(starts, ref.Ordinal(fy, 1, 1)-1, ref.Ordinal(fy, 1, 2), ref.Ordinal(fy, 2, 28), ref.Ordinal(fy, 3, 1)-1)
				for _, from := range starts {
					for _, to := range ends {
						probes := []int64{from - 2, from - 1, from, from + 1, to - 2, to - 1, to, to + 1, to + 2,
							ref.Ordinal(ty, 12, 30), ref.Ordinal(ty, 12, 31), ref.Ordinal(ty+1, 1, 1), ref.Ordinal(ty, 1, 1), ref.Ordinal(ty, 1, 1) - 1,
							ref.Ordinal(fy, 1, 1), ref.Ordinal(fy, 1, 1) - 1, ref.Ordinal(fy, 12, 31), ref.Ordinal(fy, 3, 1) - 1, ref.Ordinal(ty, 3, 1) - 1, ref.Ordinal(ty, 3, 1)}
						c15Case(w, from, to, (from+to)/2, false, false, probes...)
						w.NT(1)
					}
				}
				w.ClassN("calendar-aligned-year-pair", 1)
			}
		}
	})
	c.Require("calendar-aligned-year-pair", 150)
	c15Routes(c)
	c.Require("bounds-by-every-route", 7)
	c.Require("leap-window-year", 16)
	c.Require("far-year-bounds", 1000)
	// a filter is probed repeatedly: the answer must not depend on what was asked before
	c.Parallel("probe-histories", 0, func(w *rt.W) {
		for k := 0; k < 20000/w.NShards; k++ {
			from := window[w.Rng.Intn(len(window))]
			to := from + int64(w.Rng.Intn(40))
			f, err := date.FilterFromTo(func() *date.Date { d := ordDate(from); return &d }(), func() *date.Date { d := ordDate(to); return &d }())
			if err != nil || f == nil {
				continue
			}
			pool := []int64{from - 2, from - 1, from, from + 1, to - 1, to, to + 1, to + 2, (from + to) / 2}
			for step := 0; step < 60; step++ {
				p := pool[w.Rng.Intn(len(pool))]
				if step%3 == 1 { // repeat the previous probe
					p = pool[(step/3)%len(pool)]
				}
				w.Eval(1)
				if got, want := f.Contains(ordDate(p)), p >= from && p <= to; got != want {
					w.Fail("contains-depends-on-probe-history", "filter", rt.Args("from_ordinal", from, "to_ordinal", to, "probe_ordinal", p, "from_nil", false, "to_nil", false, "step", step), fmt.Sprint(got), fmt.Sprint(want), "the same filter gave a wrong answer after a sequence of earlier probes")
					break
				}
			}
			w.ClassN("probe-history", 1)
		}
	})
	c.Require("probe-history", 10000)
	for _, loc := range hostileZones()[:6] {
		loc := loc
		withLocal(loc, func() {
			c.Parallel("zones/"+loc.String(), 0, func(w *rt.W) {
				for i := w.Shard; i < len(window); i += w.NShards {
					for _, to := range window {
						c15Case(w, window[i], to, to, false, false, window[i], to-1, window[i]+1)
					}
				}
				w.ClassN("local-zone-sweep", 1)
			})
		})
	}
	c.Require("construction-refused", 10000)
	c.Require("filter-probed", 1000000)
}

// c15Routes: see the comment inside.
func c15Routes(c *rt.Ctx) {
	// bounds and probes that reached their value by other routes than New (reused variables, FromTime from non-midnight
	// and pre-1970 times, Scan, the zero time, Add ...)
	c.Parallel("bounds-and-probes-by-every-route", 0, func(w *rt.W) {
		ymds := [][3]int{{1, 1, 1}, {1965, 3, 4}, {1969, 12, 31}, {1970, 1, 1}, {2024, 2, 29}, {1900, 3, 1}, {-5, 7, 9}}
		for i := w.Shard; i < len(ymds); i += w.NShards {
			y, m, d := ymds[i][0], time.Month(ymds[i][1]), ymds[i][2]
			o := ref.Ordinal(int64(y), int(m), d)
			for ri, b := range dateRoutes(y, m, d) {
				for rj, p := range dateRoutes(y, m, d) {
					for _, span := range []int64{0, 1, 40} {
						lo, hi := b, ordDate(o+span)
						f, err := date.FilterFromTo(&lo, &hi)
						f2, err2 := date.FilterFromTo(func() *date.Date { x := ordDate(o - span); return &x }(), &b)
						w.Eval(4)
						args := rt.Args("from_ordinal", o, "to_ordinal", o+span, "probe_ordinal", o, "from_nil", false, "to_nil", false, "bound_route", ri, "probe_route", rj)
						if err != nil || err2 != nil || f == nil || f2 == nil {
							w.Fail("valid-bounds-refused", "routes", args, fmt.Sprint(err, err2), "filters", "bounds in order must be accepted")
							continue
						}
						for _, probe := range []struct {
							p    date.Date
							want bool
						}{{p, true}, {p.Add(0, 0, -1), false}, {ordDate(o + span + 1), false}, {ordDate(o + span), true}} {
							if got := f.Contains(probe.p); got != probe.want {
								w.Fail("contains-wrong-by-route", "routes", args, fmt.Sprint(got, " for probe ", probe.p), fmt.Sprint(probe.want), "a bound or probe that reached its value by another route is treated as another day")
							}
						}
						if !f2.Contains(p) || f2.Contains(p.Add(0, 0, 1)) {
							w.Fail("contains-wrong-by-route", "routes", args, "upper bound by route", "inclusive upper bound", "a bound that reached its value by another route is treated as another day")
						}
					}
				}
			}
			w.ClassN("bounds-by-every-route", 1)
			w.NT(1)
		}
	})
}
