package main

import (
	"database/sql"
	"database/sql/driver"
	"errors"
	"fmt"
	"strings"
	"time"

	"go.lstv.dev/util/date"
)

// Caller-defined string and byte-slice types that describe themselves differently from what they
// contain (a redacting String, an Error text, a Format method, a trimming String). They are legal
// instantiations of the generic entry points; a parser has to read their content, never their
// display form.
type (
	loudS string // String() decorates the content
	errS  string // Error() prefixes the content
	fmtS  string // Format() prints something unrelated
	trimB []byte // String() trims white space (an invalid padded content would look valid)
	hexB  []byte // String() prints hex, GoString() too
)

func (s loudS) String() string { return "<<" + string(s) + ">>" }
func (s errS) Error() string   { return "bad value: " + strings.ToUpper(string(s)) }
func (s fmtS) Format(f fmt.State, verb rune) {
	fmt.Fprintf(f, "fmtS(%d bytes)", len(s))
}
func (b trimB) String() string              { return strings.TrimSpace(string(b)) }
func (b hexB) String() string               { return fmt.Sprintf("%x", []byte(b)) }
func (b hexB) GoString() string             { return "hexB{...}" }
func (b hexB) MarshalText() ([]byte, error) { return []byte("marshalled"), nil }

// plainState is a fmt.State that is not package fmt's own printer: it has Write, Width, Precision and Flag and
// nothing else (no WriteString). An outer type's Format method that delegates to a field's Format hands over
// such a state; the verb must select the form all the same.
type plainState struct{ out []byte }

func (p *plainState) Write(b []byte) (int, error) { p.out = append(p.out, b...); return len(b), nil }
func (p *plainState) Width() (int, bool)          { return 0, false }
func (p *plainState) Precision() (int, bool)      { return 0, false }
func (p *plainState) Flag(int) bool               { return false }

// formatVia calls v.Format directly with a plainState.
func formatVia(v fmt.Formatter, verb rune) string {
	st := &plainState{}
	v.Format(st, verb)
	return string(st.out)
}

// letterVerbs are all fmt verbs made of one ASCII letter, except %T, %p and %w which package fmt
// answers itself without calling the value's Format method (%w outside Errorf is a bad verb).
var letterVerbs = func() []string {
	var out []string
	for c := 'a'; c <= 'z'; c++ {
		if c != 'p' && c != 'w' {
			out = append(out, "%"+string(c))
		}
		if C := c - 32; C != 'T' {
			out = append(out, "%"+string(C))
		}
	}
	return out
}()

// wideVerbs are non-ASCII verb runes whose low byte is an ASCII letter (a verb table indexed by byte(verb)
// takes U+0175 for 'u'): a Format method is called with any rune, and only the documented letters select a form.
var wideVerbs = func() []string {
	var out []string
	for c := 'a'; c <= 'z'; c++ {
		for _, hi := range []rune{0x100, 0x400, 0x2000, 0x10000} {
			out = append(out, "%"+string(hi+c), "%"+string(hi+c-32))
		}
	}
	return out
}()

// errTypeHas reports whether some error in err's chain has a dynamic type whose name starts with prefix
// (e.g. "*date.ParseError["): the typed-error check for instantiations the harness cannot name one by one.
func errTypeHas(err error, prefix string) bool {
	for e := err; e != nil; e = errors.Unwrap(e) {
		if strings.HasPrefix(fmt.Sprintf("%T", e), prefix) {
			return true
		}
	}
	return false
}

// Scan sources that are not a time.Time: typed nil pointers (also to types whose value-receiver Value
// method would be promoted to the pointer), driver.Valuer implementations of every temper, sql.Null*
// wrappers, channels and functions. None may make Scan panic; an error leaves the receiver alone.
type (
	valuerErr   struct{}
	valuerPanic struct{}
	valuerSelf  struct{ depth int }
)

func (valuerErr) Value() (driver.Value, error) { return nil, errors.New("valuer failed") }
func (valuerPanic) Value() (driver.Value, error) {
	panic("Value called on a source Scan should not unwrap")
}
func (v valuerSelf) Value() (driver.Value, error) { return valuerSelf{v.depth + 1}, nil }

func hostileScanSources() []any {
	var np *date.Date
	var nt *time.Time
	var nnt *sql.NullTime
	var nns *sql.NullString
	var ns *string
	var ni *int
	var nv *valuerErr
	s := "2021-01-01"
	return []any{np, nt, nnt, nns, ns, ni, nv, &s, sql.NullTime{}, &sql.NullTime{}, sql.NullString{String: s, Valid: true}, sql.RawBytes(s), valuerErr{}, &valuerErr{}, valuerSelf{}, (*valuerSelf)(nil),
		func() {}, make(chan int), []any(nil), map[string]any(nil), (*struct{})(nil), new(any), [3]int{}, uintptr(0), complex(1, 2), time.Duration(5), time.Month(3), date.New(2021, 1, 1), new(date.Date)}
}
