package main

import (
	"errors"
	"fmt"
	"strings"
)

// Caller-defined string and byte-slice types that describe themselves differently from what they
// contain (a redacting String, an Error text, a Format method, a trimming String). They are legal
// instantiations of the generic entry points; a parser has to read their content, never their
// display form.
type (
	loudS string // String() decorates the content
	errS  string // Error() prefixes the content
	fmtS  string // Format() prints something unrelated
	trimB []byte // String() trims white space (an invalid padded content would look valid)
	hexB  []byte // String() prints hex, GoString() too
)

func (s loudS) String() string { return "<<" + string(s) + ">>" }
func (s errS) Error() string   { return "bad value: " + strings.ToUpper(string(s)) }
func (s fmtS) Format(f fmt.State, verb rune) {
	fmt.Fprintf(f, "fmtS(%d bytes)", len(s))
}
func (b trimB) String() string              { return strings.TrimSpace(string(b)) }
func (b hexB) String() string               { return fmt.Sprintf("%x", []byte(b)) }
func (b hexB) GoString() string             { return "hexB{...}" }
func (b hexB) MarshalText() ([]byte, error) { return []byte("marshalled"), nil }

// letterVerbs are all fmt verbs made of one ASCII letter, except %T, %p and %w which package fmt
// answers itself without calling the value's Format method (%w outside Errorf is a bad verb).
var letterVerbs = func() []string {
	var out []string
	for c := 'a'; c <= 'z'; c++ {
		if c != 'p' && c != 'w' {
			out = append(out, "%"+string(c))
		}
		if C := c - 32; C != 'T' {
			out = append(out, "%"+string(C))
		}
	}
	return out
}()

// errTypeHas reports whether some error in err's chain has a dynamic type whose name starts with prefix
// (e.g. "*date.ParseError["): the typed-error check for instantiations the harness cannot name one by one.
func errTypeHas(err error, prefix string) bool {
	for e := err; e != nil; e = errors.Unwrap(e) {
		if strings.HasPrefix(fmt.Sprintf("%T", e), prefix) {
			return true
		}
	}
	return false
}
