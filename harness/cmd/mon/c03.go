package main

import (
	"errors"
	"fmt"
	"math"
	"math/big"
	"strconv"
	"strings"

	"go.lstv.dev/util/sem"

	"verif/ref"
	"verif/rt"
)

// C03 — SemVer text is accepted exactly per the 2.0.0 grammar and round-trips.

func init() {
	props["C03"] = runC03
	replayers["C03/parse"] = func(v rt.Violation) string {
		c := rt.ReplayCtx("C03")
		if l, err := strconv.Atoi(rt.ArgString(v, "max_input_length")); err == nil {
			old := sem.MaxInputLength
			sem.MaxInputLength = l
			defer func() { sem.MaxInputLength = old }()
		}
		c.Serial("replay", func(w *rt.W) { c03Case(w, rt.ArgString(v, "text"), true) })
		return c.Report()
	}
	replayers["C03/format"] = func(v rt.Violation) string {
		c := rt.ReplayCtx("C03")
		c.Serial("replay", func(w *rt.W) {
			c03FormatCase(w, sem.Ver{Major: rt.ArgUint(v, "major"), Minor: rt.ArgUint(v, "minor"), Patch: rt.ArgUint(v, "patch"), PreRelease: rt.ArgString(v, "pre"), Build: rt.ArgString(v, "build")})
		})
		return c.Report()
	}
	replayers["C03/valid-roundtrip"] = func(v rt.Violation) string {
		c := rt.ReplayCtx("C03")
		c.Serial("replay", func(w *rt.W) {
			c03ValidCase(w, sem.Ver{Major: rt.ArgUint(v, "major"), Minor: rt.ArgUint(v, "minor"), Patch: rt.ArgUint(v, "patch"), PreRelease: rt.ArgString(v, "pre"), Build: rt.ArgString(v, "build")})
		})
		return c.Report()
	}
}

func semTyped(err error) bool {
	var ps *sem.ParseError[string]
	var pb *sem.ParseError[[]byte]
	var ns *sem.ParseError[semNamedS]
	var nb *sem.ParseError[semNamedB]
	return errors.As(err, &ps) || errors.As(err, &pb) || errors.As(err, &ns) || errors.As(err, &nb) || errTypeHas(err, "*sem.ParseError[")
}

type semEntry struct {
	name       string
	version    bool // accepts the form without v
	tag        bool // accepts the form with v
	call       func(s string) (sem.Ver, error)
	everywhere bool // run on every string (the rest run on a subset of clearly-rejected strings)
}

var semEntries = []semEntry{
	{"Parse[string]", true, true, func(s string) (sem.Ver, error) { return sem.Parse(s) }, true},
	{"Parse[[]byte]", true, true, func(s string) (sem.Ver, error) { return sem.Parse([]byte(s)) }, false},
	{"ParseVersion[string]", true, false, func(s string) (sem.Ver, error) { return sem.ParseVersion(s) }, false},
	{"ParseVersion[[]byte]", true, false, func(s string) (sem.Ver, error) { return sem.ParseVersion([]byte(s)) }, true},
	{"ParseTag[string]", false, true, func(s string) (sem.Ver, error) { return sem.ParseTag(s) }, true},
	{"ParseTag[[]byte]", false, true, func(s string) (sem.Ver, error) { return sem.ParseTag([]byte(s)) }, false},
	{"DefaultParser[string](0)", true, true, func(s string) (sem.Ver, error) { return sem.DefaultParser(s, 0) }, false},
	{"DefaultParser[[]byte](0)", true, true, func(s string) (sem.Ver, error) { return sem.DefaultParser([]byte(s), 0) }, false},
	{"DefaultParser[string](RuleDisableTag)", true, false, func(s string) (sem.Ver, error) { return sem.DefaultParser(s, sem.RuleDisableTag) }, false},
	{"DefaultParser[[]byte](RuleDisableTag)", true, false, func(s string) (sem.Ver, error) { return sem.DefaultParser([]byte(s), sem.RuleDisableTag) }, true},
	{"DefaultParser[string](RuleDisableTag|2)", true, false, func(s string) (sem.Ver, error) { return sem.DefaultParser(s, sem.RuleDisableTag|2) }, false},
	{"DefaultParser[[]byte](all bits)", true, false, func(s string) (sem.Ver, error) { return sem.DefaultParser([]byte(s), ^sem.Rule(0)) }, false},
	{"DefaultParser[string](RuleDisableTag|1<<20)", true, false, func(s string) (sem.Ver, error) { return sem.DefaultParser(s, sem.RuleDisableTag|1<<20) }, false},
	{"DefaultParser[string](undefined bits only)", true, true, func(s string) (sem.Ver, error) { return sem.DefaultParser(s, 6) }, false},
	{"Parse[[]byte] then the caller overwrites its buffer", true, true, func(s string) (sem.Ver, error) {
		b := []byte(s)
		v, err := sem.Parse(b)
		for i := range b {
			b[i] = 'Z'
		}
		return v, err
	}, false},
	{"Ver.UnmarshalText then the caller overwrites its buffer", true, true, func(s string) (sem.Ver, error) {
		b := append(make([]byte, 0, len(s)+16), s...)
		var v sem.Ver
		err := v.UnmarshalText(b)
		for i := range b[:cap(b)] {
			b[:cap(b)][i] = '9'
		}
		return v, err
	}, false},
	{"Parser variable", true, true, func(s string) (sem.Ver, error) { return sem.Parser([]byte(s), 0) }, false},
	{"Parser variable (RuleDisableTag)", true, false, func(s string) (sem.Ver, error) { return sem.Parser([]byte(s), sem.RuleDisableTag) }, false},
	{"ParseVersion[[]byte] on a sub-slice of a record", true, false, func(s string) (sem.Ver, error) {
		rec := append(append(make([]byte, 0, len(s)+12), s...), ".9-x+y"...)
		v, err := sem.ParseVersion(rec[:len(s)])
		if string(rec[len(s):]) != ".9-x+y" {
			return sem.Ver{Major: 424242, Build: "parser wrote behind its input: " + string(rec)}, nil
		}
		return v, err
	}, false},
	{"Parse[named string]", true, true, func(s string) (sem.Ver, error) { return sem.Parse(semNamedS(s)) }, false},
	{"ParseTag[named []byte]", false, true, func(s string) (sem.Ver, error) { return sem.ParseTag(semNamedB(s)) }, false},
	{"DefaultParser[named string](RuleDisableTag)", true, false, func(s string) (sem.Ver, error) { return sem.DefaultParser(semNamedS(s), sem.RuleDisableTag) }, false},
	// named types that print themselves differently from what they contain
	{"Parse[string type with String()]", true, true, func(s string) (sem.Ver, error) { return sem.Parse(loudS(s)) }, false},
	{"ParseVersion[string type with Error()]", true, false, func(s string) (sem.Ver, error) { return sem.ParseVersion(errS(s)) }, false},
	{"ParseTag[string type with Format()]", false, true, func(s string) (sem.Ver, error) { return sem.ParseTag(fmtS(s)) }, false},
	{"DefaultParser[[]byte type with trimming String()](0)", true, true, func(s string) (sem.Ver, error) { return sem.DefaultParser(trimB(s), 0) }, false},
	{"Parse[[]byte type with hex String()]", true, true, func(s string) (sem.Ver, error) { return sem.Parse(hexB(s)) }, false},
	{"Ver.UnmarshalText", true, true, func(s string) (sem.Ver, error) {
		v := sem.Ver{Major: 9, Minor: 9, Patch: 9, PreRelease: "old", Build: "old"} // the receiver already holds another version
		err := v.UnmarshalText([]byte(s))
		if err != nil {
			if v != (sem.Ver{Major: 9, Minor: 9, Patch: 9, PreRelease: "old", Build: "old"}) {
				return sem.Ver{Major: 424242, Build: "receiver changed although UnmarshalText failed"}, nil
			}
			return sem.Ver{}, err
		}
		return v, err
	}, true},
}

type (
	semNamedS string
	semNamedB []byte
)

var maxU64Big = new(big.Int).SetUint64(^uint64(0))

// c03Case judges every entry point on one text. It returns whether the reference
// grammar accepts the text for at least one entry point.
func c03Case(w *rt.W, s string, full bool) bool {
	if sem.MaxInputLength != 0 && len(s) > sem.MaxInputLength {
		w.DontCare("input longer than MaxInputLength (C18's subject)")
		return false
	}
	hasV := len(s) > 0 && s[0] == 'v'
	body := s
	if hasV {
		body = s[1:]
	}
	rv, okRef := ref.RecogniseSemVer(body)
	fits := okRef && rv.FitsU64()
	overflowing := 0
	var overflowErr error
	if okRef && !fits {
		for i, n := range []*big.Int{rv.Major, rv.Minor, rv.Patch} {
			if n.Cmp(maxU64Big) > 0 {
				overflowing++
				overflowErr = []error{sem.ErrInvalidMajor, sem.ErrInvalidMinor, sem.ErrInvalidPatch}[i]
			}
		}
	}
	for i := range semEntries {
		e := &semEntries[i]
		if !full && !e.everywhere {
			continue
		}
		got, err := e.call(s)
		w.Eval(1)
		formOK := (hasV && e.tag) || (!hasV && e.version)
		fail := func(key, g, want string) {
			w.Fail(key, "parse", rt.Args("text", s, "entry", e.name, "max_input_length", fmt.Sprint(sem.MaxInputLength)), g, want, e.name+" disagrees with the SemVer 2.0.0 BNF recogniser")
		}
		if fits && formOK {
			if err != nil {
				fail("valid-rejected", "err="+err.Error(), "accepted")
				continue
			}
			if got.Major != rv.Major.Uint64() || got.Minor != rv.Minor.Uint64() || got.Patch != rv.Patch.Uint64() || got.PreRelease != rv.Pre || got.Build != rv.Build {
				fail("wrong-fields", fmt.Sprintf("%+v", got), fmt.Sprintf("{%s %s %s %q %q}", rv.Major, rv.Minor, rv.Patch, rv.Pre, rv.Build))
				continue
			}
			f := sem.Format(0)
			if hasV {
				f = sem.FormatTag
			}
			out, ferr := sem.DefaultFormatter(nil, got, f)
			w.Eval(1)
			if ferr != nil || string(out) != s {
				fail("format-does-not-reproduce-input", string(out), s)
			}
			if len(s)%8 == 0 { // the Formatter variable and caller buffers with spare capacity
				o2, _ := sem.Formatter(append(make([]byte, 0, len(s)+len(s)%5+1), '>'), got, f)
				o3, _ := sem.DefaultFormatter(make([]byte, 0, 64+len(s)), got, f)
				w.Eval(2)
				if string(o2) != ">"+s || string(o3) != s {
					fail("format-into-caller-buffer", string(o2)+" / "+string(o3), ">"+s+" / "+s)
				}
			}
			continue
		}
		if err == nil {
			key := "invalid-accepted"
			if okRef && !fits {
				key = "overflowing-component-accepted"
			} else if fits && !formOK {
				key = "form-gate-ignored"
			}
			fail(key, fmt.Sprintf("accepted as %+v", got), "rejected")
			continue
		}
		if !semTyped(err) {
			fail("untyped-error", fmt.Sprintf("%T: %v", err, err), "*sem.ParseError[T]")
		}
		if got != (sem.Ver{}) {
			fail("nonzero-on-error", fmt.Sprintf("%+v", got), "zero Ver")
		}
		switch {
		case fits && hasV && !e.tag:
			if !errors.Is(err, sem.ErrTagFormNotAllowed) {
				fail("sentinel-tag-not-allowed", err.Error(), "ErrTagFormNotAllowed")
			}
		case fits && !hasV && !e.version:
			if !errors.Is(err, sem.ErrExpectedTagForm) {
				fail("sentinel-expected-tag", err.Error(), "ErrExpectedTagForm")
			}
		case okRef && !fits && formOK && overflowing == 1:
			if !errors.Is(err, overflowErr) {
				fail("sentinel-overflow", err.Error(), overflowErr.Error())
			}
		}
	}
	return fits
}

// c03FormatCase checks the rendering of a version with grammatical identifiers against plain decimal components.
func c03FormatCase(w *rt.W, v sem.Ver) {
	text := fmt.Sprintf("%d.%d.%d", v.Major, v.Minor, v.Patch)
	if v.PreRelease != "" {
		text += "-" + v.PreRelease
	}
	if v.Build != "" {
		text += "+" + v.Build
	}
	args := rt.Args("major", fmt.Sprint(v.Major), "minor", fmt.Sprint(v.Minor), "patch", fmt.Sprint(v.Patch), "pre", v.PreRelease, "build", v.Build)
	w.Eval(2)
	if got := v.String(); got != text {
		w.Fail("format-component", "format", args, got, text, "String() of a version must spell every numeric component in plain decimal")
	}
	if mt, err := v.MarshalText(); err != nil || string(mt) != text {
		w.Fail("format-component", "format", args, string(mt), text, "MarshalText must give the plain text")
	}
	if st := v.StringTag(); st != "v"+text {
		w.Fail("format-component", "format", args, st, "v"+text, "StringTag must give v followed by the plain text")
	}
	for _, verb := range letterVerbs { // only %t selects the tag form
		wantV := text
		if verb == "%t" {
			wantV = "v" + text
		}
		if s := fmt.Sprintf(verb, v); s != wantV {
			w.Fail("format-verb", "format", args, verb+" -> "+s, wantV, "Sprintf "+verb)
		}
	}
	for _, vb := range []struct {
		verb rune
		want string
	}{{'s', text}, {'v', text}, {'t', "v" + text}, {'d', text}} {
		if s := formatVia(v, vb.verb); s != vb.want {
			w.Fail("format-verb", "format", args, "Format(%"+string(vb.verb)+") through a plain fmt.State -> "+s, vb.want, "the verb selects the form whatever the fmt.State is")
		}
	}
	for _, verb := range wideVerbs {
		if s := fmt.Sprintf(verb, v); s != text {
			w.Fail("format-verb", "format", args, verb+" -> "+s, text, "Sprintf "+verb)
		}
	}
	w.Eval(51 + 208)
	if got, err := sem.DefaultFormatter([]byte("v"), v, sem.FormatTag); err != nil || string(got) != "vv"+text {
		w.Fail("format-component", "format", args, string(got), "vv"+text, "DefaultFormatter(\"v\", FormatTag) must append v and the plain decimal components")
	}
}

// c03ValidCase checks "Valid() == nil exactly when the formatted text parses back to an equal value".
func c03ValidCase(w *rt.W, v sem.Ver) {
	text := v.String()
	if sem.MaxInputLength != 0 && len(text) > sem.MaxInputLength {
		w.DontCare("formatted text longer than MaxInputLength")
		return
	}
	verr := v.Valid()
	back, perr := sem.Parse(text)
	w.Eval(2)
	roundTrips := perr == nil && back == v
	// independent view of the same question
	refValid := (v.PreRelease == "" || ref.ValidPre(v.PreRelease)) && (v.Build == "" || ref.ValidBuild(v.Build))
	args := rt.Args("major", fmt.Sprint(v.Major), "minor", fmt.Sprint(v.Minor), "patch", fmt.Sprint(v.Patch), "pre", v.PreRelease, "build", v.Build)
	if (verr == nil) != roundTrips {
		w.Fail("valid-vs-roundtrip", "valid-roundtrip", args, fmt.Sprintf("Valid()=%v, Parse(String())=(%+v, %v)", verr, back, perr), "Valid()==nil exactly when the text parses back to an equal value", "validity and round trip disagree")
	}
	if (verr == nil) != refValid {
		w.Fail("valid-vs-grammar", "valid-roundtrip", args, fmt.Sprintf("Valid()=%v", verr), fmt.Sprintf("grammar says valid=%v", refValid), "Valid disagrees with the SemVer identifier grammar")
	}
	if verr != nil {
		if ref.ValidPre(v.PreRelease) || v.PreRelease == "" {
			if !errors.Is(verr, sem.ErrInvalidBuild) {
				w.Fail("valid-sentinel", "valid-roundtrip", args, verr.Error(), "ErrInvalidBuild", "only the build part is invalid")
			}
		} else if ref.ValidBuild(v.Build) || v.Build == "" {
			if !errors.Is(verr, sem.ErrInvalidPreRelease) {
				w.Fail("valid-sentinel", "valid-roundtrip", args, verr.Error(), "ErrInvalidPreRelease", "only the pre-release part is invalid")
			}
		}
	}
	if refValid {
		w.ClassN("valid-ver-roundtrip", 1)
	} else {
		w.ClassN("invalid-ver", 1)
	}
}

// enumStrings visits every string over alphabet with prefix, of total extra length 0..maxExtra, sharded by the first two letters.
func enumStrings(w *rt.W, alphabet, prefix string, maxExtra int, visit func(s string)) {
	if w.Shard == 0 {
		visit(prefix)
		for i := 0; i < len(alphabet); i++ {
			visit(prefix + alphabet[i:i+1])
		}
	}
	if maxExtra < 2 {
		return
	}
	buf := make([]byte, 0, len(prefix)+maxExtra)
	var rec func(depth int)
	rec = func(depth int) {
		visit(string(buf))
		if depth == maxExtra {
			return
		}
		for i := 0; i < len(alphabet); i++ {
			buf = append(buf, alphabet[i])
			rec(depth + 1)
			buf = buf[:len(buf)-1]
		}
	}
	k := 0
	for i := 0; i < len(alphabet); i++ {
		for j := 0; j < len(alphabet); j++ {
			if k%w.NShards == w.Shard {
				buf = append(append(buf[:0], prefix...), alphabet[i], alphabet[j])
				rec(2)
			}
			k++
		}
	}
}

// genNumber returns a decimal numeral biased towards the 2^64 boundary.
func genNumber(r *rt.Rand) string {
	switch r.Intn(10) {
	case 0, 1, 2:
		return fmt.Sprint(r.Intn(30))
	case 3:
		return fmt.Sprint(r.U64())
	case 4, 5: // neighbourhood of 2^64, both sides
		n := new(big.Int).Lsh(big.NewInt(1), 64)
		n.Add(n, big.NewInt(int64(r.Intn(41)-20)))
		return n.String()
	case 6: // multiples / other wrap points
		n := new(big.Int).Lsh(big.NewInt(1), uint(63+r.Intn(3)))
		n.Mul(n, big.NewInt(int64(1+r.Intn(10))))
		n.Add(n, big.NewInt(int64(r.Intn(21)-10)))
		return n.String()
	case 7: // 1..25 digits
		k := 1 + r.Intn(25)
		b := make([]byte, k)
		b[0] = byte('1' + r.Intn(9))
		for i := 1; i < k; i++ {
			b[i] = byte('0' + r.Intn(10))
		}
		return string(b)
	case 8: // leading zero (invalid)
		return "0" + fmt.Sprint(r.Intn(100))
	}
	return fmt.Sprint(r.U64() >> uint(r.Intn(64)))
}

const identChars = "0123456789abcdefghijklmnopqrstuvwxyzABCDEFGHIJKLMNOPQRSTUVWXYZ-"

func genIdent(r *rt.Rand, build bool) string {
	switch r.Intn(8) {
	case 0:
		return fmt.Sprint(r.Intn(1000))
	case 1:
		if build {
			return "00" + fmt.Sprint(r.Intn(100)) // legal in build metadata only
		}
		return fmt.Sprint(r.U64())
	case 2:
		return "-"
	case 3:
		return strings.Repeat("0", 1+r.Intn(3)) + "a"
	}
	return r.StringFrom(identChars, 1+r.Intn(12))
}

func genIdentList(r *rt.Rand, build bool) string {
	n := 1 + r.Intn(6)
	ids := make([]string, n)
	for i := range ids {
		ids[i] = genIdent(r, build)
	}
	return strings.Join(ids, ".")
}

func genVersionText(r *rt.Rand) string {
	s := genNumber(r) + "." + genNumber(r) + "." + genNumber(r)
	if r.Bool() {
		s += "-" + genIdentList(r, false)
	}
	if r.Bool() {
		s += "+" + genIdentList(r, true)
	}
	if r.Chance(1, 3) {
		s = "v" + s
	}
	return s
}

func init() {
	texts := []string{"0.0.0", "v0.0.0", "1.2.3-rc.1+b", "18446744073709551615.0.0", "1.0.0-SNAPSHOT", "v1.0.0+001", "1.0.0-0", "01.0.0", "1.0.0-"}
	coldCases["C03"] = coldGeneric([]func(){
		func() { _, _ = sem.Parse("0.0.0") },
		func() { _ = sem.Ver{}.String() },
		func() { _ = sem.Ver{PreRelease: "a"}.Valid() },
		func() { _, _ = sem.ParseTag([]byte("v0.0.0-0")) },
		func() { _ = sem.New(1, 0, 0, "rc").Compare(sem.New(1, 0, 0)) },
		func() { _, _ = sem.Compare("1.0.0-a", "v1.0.0-b") },
		func() {},
	}, func(w *rt.W, k int) {
		c03Case(w, texts[k], true)
		c03ValidCase(w, sem.Ver{Major: uint64(k), PreRelease: "rc." + fmt.Sprint(k), Build: "0" + fmt.Sprint(k)})
	}, len(texts))
}

func runC03(c *rt.Ctx) {
	soloRun(c, "sem")
	retainedAcrossCollections(c, "Ver.MarshalText", 256, func(i int) ([]byte, string) {
		v := sem.New(uint64(i), uint64(i%7), uint64(i%5), fmt.Sprintf("rc.%d", i%11), fmt.Sprintf("b%d", i%13))
		b, _ := v.MarshalText()
		return b, fmt.Sprintf("%d.%d.%d-rc.%d+b%d", i, i%7, i%5, i%11, i%13)
	})
	callerEditsReturnedErrors(c, map[string]func() error{
		"sem.Parse[string](x)":             func() error { _, err := sem.Parse("x"); return err },
		"sem.Parse[string](01.0.0)":        func() error { _, err := sem.Parse("01.0.0"); return err },
		"sem.Parse[[]byte](1.0.0-01)":      func() error { _, err := sem.Parse([]byte("1.0.0-01")); return err },
		"sem.ParseTag[string](1.0.0)":      func() error { _, err := sem.ParseTag("1.0.0"); return err },
		"sem.ParseVersion[string](v1.0.0)": func() error { _, err := sem.ParseVersion("v1.0.0"); return err },
		"sem.Parser variable(1.0)":         func() error { _, err := sem.Parser([]byte("1.0"), 0); return err },
		"Ver.UnmarshalText(1.0.0+)":        func() error { var v sem.Ver; return v.UnmarshalText([]byte("1.0.0+")) },
	})
	appenderSweep(c, func() []any {
		var out []any
		for _, v := range []sem.Ver{sem.New(1, 2, 3, "rc.1", "b7"), sem.New(0, 0, 0, "", ""), sem.New(10, 20, 30, "", "x-y"), sem.New(1, 0, 0, "alpha.0", "")} {
			v := v
			out = append(out, v, &v)
		}
		return out
	}())
	configuredEpisode() // the process has a past: failing configured Formatters and Parsers, since restored
	c.Extra("history_before_the_streams", "an episode of failing configured Formatter/Parser variables in all five packages")
	L1, L2, L3 := c.Pick(7, 8), c.Pick(7, 8), c.Pick(9, 10)
	c.SetRule(fmt.Sprintf("three exhaustive families: every string over {0,1,9,a,Z,-,.,+,v} of length 0..%d; \"1.0.0\" followed by every suffix over {0,1,9,a,Z,-,.,+} of length 0..%d; every string over {0,1,2,9,.,v} of length 0..%d; ", L1, L2, L3) +
		"plus seeded grammar-generated versions (1-25 digit numbers biased to both sides of 2^64, identifier lists), all single-byte substitutions/insertions/deletions of seeded valid texts, and seeded Ver values for the Valid <=> round-trip link; " +
		"each text goes through Parse, ParseVersion, ParseTag, DefaultParser with and without RuleDisableTag (string and []byte) and Ver.UnmarshalText. " +
		"distinct_nontrivial counts distinct texts accepted by at least one entry point (enumerated families: once each; generated families: by 64-bit hash)")
	c.Assume("grammar oracle is the hand-written recursive-descent recogniser in harness/ref/semver.go with big.Int numerics; it shares no code with the library's regular expression")
	{
		okAll := true
		for _, s := range []string{"0.0.0", "1.2.3", "1.0.0-alpha", "1.0.0-alpha.1", "1.0.0-0.3.7", "1.0.0-x.7.z.92", "1.0.0-x-y-z.--", "1.0.0-alpha+001", "1.0.0+20130313144700", "1.0.0-beta+exp.sha.5114f85", "1.0.0+21AF26D3----117B344092BD", "1.0.0-0A", "1.0.0--", "99999999999999999999999.999999999999999999.99999999999999999"} {
			if _, ok := ref.RecogniseSemVer(s); !ok {
				okAll = false
			}
		}
		c.SelfTest("recogniser-accepts-semver.org-valid-examples", okAll)
		rejAll := true
		for _, s := range []string{"1", "1.2", "1.2.3-0123", "1.2.3-0123.0123", "1.1.2+.123", "+invalid", "-invalid", "alpha", "1.2.3.DEV", "1.2-SNAPSHOT", "1.2.31.2.3----RC-SNAPSHOT.12.09.1--..12+788", "01.1.1", "1.01.1", "1.1.01", "1.2.3-", "1.2.3+", "1.2.3-a..b", "1.2.3-a+b+c", "1.2.3 ", " 1.2.3", "1.2.3\n", "1.2.3-é", "", "v1.2.3", "1.0.0-01", "1.0.0+a_b"} {
			if _, ok := ref.RecogniseSemVer(s); ok {
				rejAll = false
			}
		}
		c.SelfTest("recogniser-rejects-semver.org-invalid-examples", rejAll)
		rv, _ := ref.RecogniseSemVer("18446744073709551616.0.0")
		rv2, _ := ref.RecogniseSemVer("18446744073709551615.0.0")
		c.SelfTest("2^64-does-not-fit-2^64-1-fits", !rv.FitsU64() && rv2.FitsU64())
		sc := rt.ReplayCtx("C03")
		sc.Serial("selftest", func(w *rt.W) { w.Fail("k", "parse", nil, "accepted", "rejected", "synthetic") })
		c.SelfTest("monitor-records-a-mismatch", sc.Violations() == 1)
	}

	fam := func(name, alphabet, prefix string, L int) {
		c.Parallel(name, 0, func(w *rt.W) {
			enumStrings(w, alphabet, prefix, L, func(s string) {
				full := len(s) <= 5+len(prefix) || rt.Hash64(s)%4 == 0
				if !full { // always run everything on texts the grammar accepts
					b := s
					if len(b) > 0 && b[0] == 'v' {
						b = b[1:]
					}
					_, full = ref.RecogniseSemVer(b)
				}
				if c03Case(w, s, full) {
					w.NT(1)
					w.ClassN(name+"-accepted", 1)
					if w.Class(name + "-sample") {
						w.Sample(name+"-accepted", s)
					}
				} else {
					w.ClassN(name+"-rejected", 1)
				}
			})
		})
		c.Require(name+"-accepted", 1)
		c.Require(name+"-rejected", 1000)
	}
	fam("alphabet-general", "019aZ-.+v", "", L1)
	c.Exhaustive(fmt.Sprintf("all strings over {0,1,9,a,Z,-,.,+,v} of length 0..%d", L1))
	fam("suffix-of-1.0.0", "019aZ-.+", "1.0.0", L2)
	c.Exhaustive(fmt.Sprintf("\"1.0.0\" + all suffixes over {0,1,9,a,Z,-,.,+} of length 0..%d", L2))
	fam("alphabet-core", "0129.v", "", L3)
	c.Exhaustive(fmt.Sprintf("all strings over {0,1,2,9,.,v} of length 0..%d", L3))

	nGen := c.Pick(400000, 6000000)
	c.Parallel("generated", 0, func(w *rt.W) {
		for i := 0; i < nGen/w.NShards; i++ {
			s := genVersionText(w.Rng)
			if c03Case(w, s, true) {
				w.NTHash(rt.Hash64(s))
				w.ClassN("generated-accepted", 1)
				if w.Class("generated-sample") {
					w.Sample("generated-accepted", s)
				}
			} else {
				w.ClassN("generated-rejected", 1)
			}
			if strings.Contains(s, "1844674407370955161") {
				w.ClassN("generated-near-2^64", 1)
			}
		}
	})
	c.Require("generated-accepted", 10000)
	c.Require("generated-rejected", 10000)
	c.Require("generated-near-2^64", 1000)

	// every component at the exact boundary values
	c.Serial("boundary-numbers", func(w *rt.W) {
		two64 := new(big.Int).Lsh(big.NewInt(1), 64)
		for d := int64(-3); d <= 40; d++ {
			n := new(big.Int).Add(two64, big.NewInt(d)).String()
			for pos := 0; pos < 3; pos++ {
				parts := []string{"1", "2", "3"}
				parts[pos] = n
				for _, pre := range []string{"", "v"} {
					for _, suf := range []string{"", "-rc.1", "+b"} {
						c03Case(w, pre+strings.Join(parts, ".")+suf, true)
						w.ClassN("boundary-2^64-component", 1)
					}
				}
			}
		}
		for _, n := range []string{"184467440737095516150", "36893488147419103232", "36893488147419103231", "340282366920938463463374607431768211456", "9223372036854775808", "9223372036854775807", "4294967296"} {
			for pos := 0; pos < 3; pos++ {
				parts := []string{"0", "0", "0"}
				parts[pos] = n
				c03Case(w, strings.Join(parts, "."), true)
			}
		}
	})
	// components at every power of ten and of two and their neighbours (digit-count arithmetic goes wrong there,
	// with floating-point digit counts within the float64 rounding distance below 10^16..10^19)
	c.Parallel("decimal-boundary-components", 0, func(w *rt.W) {
		var ns []uint64
		p10 := uint64(1)
		for k := 0; k <= 19; k++ {
			for _, d := range []uint64{0, 1, 2, 3, 5, 8, 16, 63, 64, 65, 500, 1000, 1025, 2048} {
				if p10 > d {
					ns = append(ns, p10-d)
				}
				if p10+d > p10 || d == 0 {
					ns = append(ns, p10+d)
				}
			}
			ns = append(ns, p10*5, p10*9, p10*2-1)
			if k < 19 {
				p10 *= 10
			}
		}
		for k := uint(1); k < 64; k++ {
			ns = append(ns, uint64(1)<<k-1, uint64(1)<<k, uint64(1)<<k+1)
		}
		ns = append(ns, ^uint64(0), ^uint64(0)-1)
		for i := w.Shard; i < len(ns); i += w.NShards {
			n := ns[i]
			for pos := 0; pos < 3; pos++ {
				v := sem.Ver{Major: 1, Minor: 2, Patch: 3}
				parts := []string{"1", "2", "3"}
				parts[pos] = fmt.Sprint(n)
				switch pos {
				case 0:
					v.Major = n
				case 1:
					v.Minor = n
				default:
					v.Patch = n
				}
				for _, suf := range [][2]string{{"", ""}, {"rc.1", ""}, {"", "b7"}, {"a", "b"}} {
					v.PreRelease, v.Build = suf[0], suf[1]
					text := strings.Join(parts, ".")
					if suf[0] != "" {
						text += "-" + suf[0]
					}
					if suf[1] != "" {
						text += "+" + suf[1]
					}
					c03FormatCase(w, v)
					c03Case(w, text, true)
					c03Case(w, "v"+text, true)
					c03ValidCase(w, v)
				}
			}
			w.ClassN("decimal-boundary-component", 1)
			w.NT(1)
		}
	})
	c.Require("decimal-boundary-component", 700)
	c.Require("boundary-2^64-component", 500)

	nMut := c.Pick(60, 200)
	c.Parallel("mutations", 0, func(w *rt.W) {
		for i := w.Shard; i < nMut; i += w.NShards {
			r := rt.NewRand(c.Seed, "C03/mut", uint64(i))
			var base string
			for tries := 0; ; tries++ {
				base = genVersionText(r)
				b := strings.TrimPrefix(base, "v")
				if rv, ok := ref.RecogniseSemVer(b); ok && rv.FitsU64() && len(base) < 60 {
					break
				}
			}
			c03Case(w, base, true)
			for p := 0; p <= len(base); p++ {
				if p < len(base) {
					for b := 0; b < 256; b++ {
						c03Case(w, base[:p]+string([]byte{byte(b)})+base[p+1:], b%8 == 0)
					}
					w.ClassN("single-byte-substitution", 256)
					c03Case(w, base[:p]+base[p+1:], true)
				}
				for _, ins := range []string{"0", ".", "-", "+", "v", "\n", " ", "\x00", "é", "_", "ſ", "K", "İ", "ı", "１", "٣", "\u0301", "\ufeff"} {
					c03Case(w, base[:p]+ins+base[p:], true)
					if p < len(base) {
						c03Case(w, base[:p]+ins+base[p+1:], true)
					}
				}
				for _, nuls := range []string{"\x00", "\x00\x00", " ", "\n"} { // the same text with a trailing invisible tail, right after the valid one was parsed
					c03Case(w, base, false)
					c03Case(w, base+nuls, true)
				}
				w.ClassN("insertion-deletion", 11)
			}
		}
	})
	c.Require("single-byte-substitution", 100000)

	// common pre-release / build words in every letter case (anything that treats a well-known word specially shows here)
	c.Parallel("vocabulary", 0, func(w *rt.W) {
		words := []string{"alpha", "beta", "rc", "snapshot", "dev", "nightly", "pre", "preview", "canary", "final", "release", "ga", "m1", "ea", "next", "latest", "stable", "test", "build", "sha", "git", "dirty", "exp", "nil", "null", "true", "inf", "nan", "x", "v", "rc1", "beta2"}
		k := 0
		for _, wd := range words {
			for _, v := range []string{wd, strings.ToUpper(wd), strings.ToUpper(wd[:1]) + wd[1:], wd[:1] + strings.ToUpper(wd[1:])} {
				k++
				if k%w.NShards != w.Shard {
					continue
				}
				for _, t := range []string{"1.0.0-" + v, "v2.3.4-" + v + "+build.7", "1.0.0+" + v, "0.0.1-" + v + ".1", "0.0.1-1." + v, "1.0.0-" + v + "-" + v, "1.0.0-x+" + v + "." + v} {
					c03Case(w, t, true)
				}
				c03ValidCase(w, sem.Ver{Major: 1, PreRelease: v, Build: v})
				w.ClassN("vocabulary-word-variant", 1)
			}
		}
	})
	c.Require("vocabulary-word-variant", 100)

	{ // call histories: valid texts of equal length colliding under weak checksums, parsed back to back
		var texts []string
		for a := 0; a < 110; a++ {
			for b := 0; b < 110; b++ {
				for cc := 0; cc < 110; cc += 1 + (a+b)%3 {
					t := fmt.Sprintf("%d.%d.%d", a, b, cc)
					switch (a + 2*b + cc) % 5 {
					case 1:
						t += "-rc." + fmt.Sprint(cc%7)
					case 2:
						t = "v" + t
					case 3:
						t += "+b" + fmt.Sprint(a%10)
					}
					texts = append(texts, t)
				}
			}
		}
		collisionHistories(c, texts, 300, 200, func(w *rt.W, t string) { c03Case(w, t, true) })
	}

	// the input limit disabled or raised to the maximum is still "every text of the grammar, and nothing else"
	{
		old := sem.MaxInputLength
		for _, limit := range []int{0, math.MaxInt, math.MaxInt - 1, math.MaxInt32, 1 << 20} {
			sem.MaxInputLength = limit
			c.Parallel("limit-disabled-or-raised", 0, func(w *rt.W) {
				for k := 0; k < 3000/w.NShards; k++ {
					c03Case(w, genVersionText(w.Rng), true)
				}
				if w.Shard == 0 {
					for _, t := range []string{"1.2.3", "v1.2.3", "0.0.0", "v10.20.30-rc.1+b7", "1.0.0-" + strings.Repeat("a.", 600) + "z", "1.2", "01.2.3", "18446744073709551616.0.0", ""} {
						c03Case(w, t, true)
					}
				}
				w.ClassN("texts-under-disabled-or-raised-limit", 1)
			})
		}
		sem.MaxInputLength = old
		c.Require("texts-under-disabled-or-raised-limit", 5)
	}
	// the version as other layers spell it (quoted, bracketed, escaped, padded, doubled, other scripts): not the version
	c.Parallel("decorated", 0, func(w *rt.W) {
		bases := []string{"1.2.3", "v1.2.3", "0.0.0", "v10.20.30-rc.1+b7", "1.0.0-alpha", "1.0.0+001", "18446744073709551615.0.1", "v0.0.1-0.a.-"}
		for bi := w.Shard; bi < len(bases); bi += w.NShards {
			for _, d := range decorate(bases[bi]) {
				c03Case(w, d, true)
				w.ClassN("decorated-valid-text", 1)
			}
		}
	})
	c.Require("decorated-valid-text", 800)
	refillRun(c, c.Pick(40000, 400000), "sem")
	guardedInputs(c, "C03", "sem", []string{"1.2.3", "v1.2.3", "0.0.0", "v10.20.30-rc.1+b7", "1.0.0-alpha", "1.0.0+001", "18446744073709551615.0.1", "v0.0.1-0.a.-", "1.2", "1.2.3-", "v", "1", "1.", "1.2.", "1.2.3+", "01.2.3", "1.2.3-01", "18446744073709551616.0.0", "\xff.1.1"})
	coldStart(c, "C03", 14)

	nVer := c.Pick(1000000, 10000000)
	c.Parallel("valid-roundtrip", 0, func(w *rt.W) {
		field := func(build bool) string {
			switch w.Rng.Intn(10) {
			case 0, 1:
				return ""
			case 2, 3, 4:
				return genIdentList(w.Rng, build)
			case 5: // near-valid
				return []string{"01", "a..b", ".a", "a.", "a+b", "a_b", "é", "a b", "a\n", "00", "0", "-", "a-", "1.02", "1.0a", "+", "a.+", " ",
					"099999999999999999999", "rc.020250927123456789012", "99999999999999999999999", "0" + fmt.Sprint(w.Rng.U64()) + fmt.Sprint(w.Rng.U64()), "1.018446744073709551616", "00000000000000000000000000", "x.0" + strings.Repeat("9", 30)}[w.Rng.Intn(25)]
			case 6:
				s := genIdentList(w.Rng, build)
				p := w.Rng.Intn(len(s) + 1)
				return s[:p] + string([]byte{byte(w.Rng.Intn(256))}) + s[p:]
			case 7:
				return string(w.Rng.Bytes(1 + w.Rng.Intn(6)))
			}
			return genIdent(w.Rng, build)
		}
		for i := 0; i < nVer/w.NShards; i++ {
			v := sem.Ver{Major: w.Rng.U64() >> uint(w.Rng.Intn(64)), Minor: w.Rng.U64() >> uint(w.Rng.Intn(64)), Patch: w.Rng.U64() >> uint(w.Rng.Intn(64)), PreRelease: field(false), Build: field(true)}
			if i%97 == 0 {
				v.Major, v.Minor, v.Patch = ^uint64(0), ^uint64(0), 0
			}
			c03ValidCase(w, v)
			w.NTHash(rt.Hash64(v.String(), v.PreRelease, v.Build))
		}
	})
	c.Require("valid-ver-roundtrip", 10000)
	c.Require("invalid-ver", 10000)
	// the two-argument helpers parse both operands with the form their name says: Tag helpers require the leading v on
	// both, Version helpers forbid it on both, the plain ones take either - whichever operand comes first
	c.Serial("form-of-both-operands", func(w *rt.W) {
		cores := []string{"1.2.0", "1.3.0", "10.4.0", "2.0.0-rc.1", "0.0.0+b", "1.2.0-a.1+x-y"}
		type helper struct {
			name string
			form int // 0 any, 1 tag required, 2 tag forbidden
			call func(a, b string) (zero bool, err error)
		}
		hs := []helper{
			{"Latest", 0, func(a, b string) (bool, error) { v, err := sem.Latest(a, b); return v.IsZero(), err }},
			{"LatestTag", 1, func(a, b string) (bool, error) { v, err := sem.LatestTag(a, b); return v.IsZero(), err }},
			{"LatestVersion", 2, func(a, b string) (bool, error) { v, err := sem.LatestVersion(a, b); return v.IsZero(), err }},
			{"Latest[[]byte,string]", 0, func(a, b string) (bool, error) { v, err := sem.Latest([]byte(a), b); return v.IsZero(), err }},
			{"LatestTag[string,[]byte]", 1, func(a, b string) (bool, error) { v, err := sem.LatestTag(a, []byte(b)); return v.IsZero(), err }},
			{"LatestVersion[[]byte,[]byte]", 2, func(a, b string) (bool, error) {
				v, err := sem.LatestVersion([]byte(a), []byte(b))
				return v.IsZero(), err
			}},
			{"Compare", 0, func(a, b string) (bool, error) { _, err := sem.Compare(a, b); return err != nil, err }},
			{"CompareTag", 1, func(a, b string) (bool, error) { _, err := sem.CompareTag(a, b); return err != nil, err }},
			{"CompareVersion", 2, func(a, b string) (bool, error) {
				_, err := sem.CompareVersion[string, string](a, b)
				return err != nil, err
			}},
		}
		for _, ca := range cores {
			for _, cb := range cores {
				for fa := 0; fa < 2; fa++ {
					for fb := 0; fb < 2; fb++ {
						a, b := strings.Repeat("v", fa)+ca, strings.Repeat("v", fb)+cb
						for _, h := range hs {
							var zero bool
							var err error
							panicked, msg := rt.Call(func() { zero, err = h.call(a, b) })
							w.Eval(1)
							accept := h.form == 0 || (h.form == 1 && fa == 1 && fb == 1) || (h.form == 2 && fa == 0 && fb == 0)
							args := rt.Args("helper", h.name, "a", a, "b", b)
							switch {
							case panicked:
								w.Fail("panic-two-argument-helper", "pairform", args, "panic: "+firstLine(msg), "a value or an error", "see key")
							case accept && err != nil:
								w.Fail("valid-rejected-by-two-argument-helper", "pairform", args, "err="+err.Error(), "accepted", h.name+" refused two texts of the form it takes")
							case !accept && err == nil:
								w.Fail("wrong-form-accepted-by-two-argument-helper", "pairform", args, "accepted", "a typed parse error", h.name+" accepted an operand whose form (leading v) it must refuse")
							case !accept && (!semTyped(err) || !zero):
								w.Fail("wrong-form-untyped-error-or-nonzero-result", "pairform", args, fmt.Sprintf("zero=%v err=%T %v", zero, err, err), "a typed parse error and a zero result", "see key")
							}
							w.ClassN("two-argument-helper-operand-forms", 1)
						}
					}
				}
			}
		}
	})
	c.Require("two-argument-helper-operand-forms", 1000)
}
