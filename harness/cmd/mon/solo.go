package main

import (
	"fmt"
	"os"
	"os/exec"
	"strings"
	"time"

	"verif/rt"
)

// soloRun executes the program that links one package of the library and nothing else of it (harness/cmd/solo_<pkg>,
// built by run.sh against the tree under test): what a package borrows from its siblings through init functions,
// registries or shared tables is missing there. The program compares the package with the reference models on a
// compact sweep; every line it reports is a violation here.
func soloRun(c *rt.Ctx, pkg string) {
	bin := os.Getenv("VERIF_SOLO_" + strings.ToUpper(pkg))
	if bin == "" {
		c.Extra("solo_"+pkg, "not run: VERIF_SOLO_"+strings.ToUpper(pkg)+" is not set (this pass has no single-package build)")
		return
	}
	c.Serial("solo/"+pkg, func(w *rt.W) {
		cmd := exec.Command(bin)
		var out strings.Builder
		cmd.Stdout, cmd.Stderr = &out, &out
		done := make(chan error, 1)
		if err := cmd.Start(); err != nil {
			w.C.Inconclusive("single-package program of " + pkg + " could not be started: " + err.Error())
			return
		}
		go func() { done <- cmd.Wait() }()
		var err error
		select {
		case err = <-done:
		case <-time.After(10 * time.Minute):
			_ = cmd.Process.Kill()
			w.C.Inconclusive("single-package program of " + pkg + " hit the watchdog")
			return
		}
		text := out.String()
		var events, fails int
		doneLine := false
		for _, l := range strings.Split(text, "\n") {
			if strings.HasPrefix(l, "FAIL key=") {
				rest := strings.TrimPrefix(l, "FAIL key=")
				key, detail, _ := strings.Cut(rest, " ")
				w.Fail("single-package-program:"+pkg+":"+key, "solo", rt.Args("package", pkg, "detail", detail), detail, "agreement with the reference model", "the package used alone (no other package of the library linked) disagrees with the reference")
			}
			if strings.HasPrefix(l, "DONE ") {
				doneLine = true
				fmt.Sscanf(l, "DONE events=%d fails=%d", &events, &fails)
			}
		}
		if err != nil || !doneLine {
			tail := text
			if len(tail) > 1500 {
				tail = tail[len(tail)-1500:]
			}
			w.Fail("single-package-program-died:"+pkg, "solo", rt.Args("package", pkg, "output", tail), fmt.Sprint(err), "a DONE line", "the program linking only this package died\n"+tail)
			return
		}
		w.Eval(int64(events))
		w.ClassN("single-package-program-events", int64(events))
	})
	c.Require("single-package-program-events", 500)
}
