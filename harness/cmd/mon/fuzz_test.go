package main

import (
	"sync"
	"testing"

	"verif/rt"
)

// Coverage-guided native fuzz targets for C18 (thorough tier): one target per
// package, every entry point of that package reachable through the selector, the
// same monitor as the seeded workload (c18Call: panic capture, result shape, limit
// contract). A violation fails the fuzz run; go test then writes the crasher to
// testdata/fuzz/<target>/, which run.sh turns into the replay file.

var (
	fuzzOnce sync.Once
	fuzzCtx  *rt.Ctx
)

func fuzzTarget(f *testing.F, pkg string) {
	var entries []int
	for i, e := range c18Entries {
		if e.pkg == pkg {
			entries = append(entries, i)
		}
	}
	r := rt.NewRand(1, "fuzz-seed/"+pkg, 0)
	for i := 0; i < 300; i++ {
		a := c18Valid(r, pkg)
		if i%3 == 0 {
			a = c18Hostile(r, pkg)
		}
		f.Add([]byte(a), []byte(c18Partner(r, a)), uint16(r.Intn(1<<16)), uint8(r.Intn(4)))
	}
	f.Fuzz(func(t *testing.T, a, b []byte, sel uint16, setting uint8) {
		fuzzOnce.Do(func() { fuzzCtx = rt.ReplayCtx("C18") })
		st := int(setting % 4)
		if len(a) > 1<<16 || len(b) > 1<<16 {
			return
		}
		restore := c18ApplyLimit(st)
		defer restore()
		before := fuzzCtx.Violations()
		fuzzCtx.Serial("fuzz", func(w *rt.W) {
			c18Call(w, nil, entries[int(sel)%len(entries)], st, string(a), string(b))
		})
		if fuzzCtx.Violations() != before {
			t.Fatalf("C18 monitor: %s", fuzzCtx.Report())
		}
	})
}

func FuzzC18Date(f *testing.F)  { fuzzTarget(f, "date") }
func FuzzC18Roman(f *testing.F) { fuzzTarget(f, "roman") }
func FuzzC18Sem(f *testing.F)   { fuzzTarget(f, "sem") }
func FuzzC18Size(f *testing.F)  { fuzzTarget(f, "size") }
func FuzzC18UU(f *testing.F)    { fuzzTarget(f, "uu") }
