package main

import (
	"encoding/base64"
	"encoding/hex"
	"fmt"
	"strconv"
	"strings"
)

// decorate returns spellings of a valid text as other layers of a program write them around or
// instead of it: quoted (Go, JSON, shell, SQL), bracketed, escaped (Go \x and \u escapes, percent
// encoding, HTML references), padded with ASCII and non-ASCII white space, byte order marks and
// NULs, doubled, in other digit scripts, hex or base64 of the bytes. None of them is the text; a
// strict parser's verdict on each comes from the property's own oracle, which is handed the
// decorated string like any other input.
func decorate(t string) []string {
	var out []string
	add := func(s ...string) { out = append(out, s...) }
	for _, q := range [][2]string{{`"`, `"`}, {`'`, `'`}, {"`", "`"}, {`\"`, `\"`}, {"{", "}"}, {"(", ")"}, {"[", "]"}, {"<", ">"}, {"\u00ab", "\u00bb"}, {"\u201c", "\u201d"}, {`"`, ``}, {``, `"`}, {"{", ""}, {"", "}"}, {`""`, `""`}, {"b'", "'"}, {"[\"", "\"]"}} {
		add(q[0] + t + q[1])
	}
	var gx, gu, pct, html, oct strings.Builder
	for i := 0; i < len(t); i++ {
		fmt.Fprintf(&gx, `\x%02x`, t[i])
		fmt.Fprintf(&gu, `\u%04x`, t[i])
		fmt.Fprintf(&pct, "%%%02X", t[i])
		fmt.Fprintf(&html, "&#%d;", t[i])
		fmt.Fprintf(&oct, `\%03o`, t[i])
	}
	add(`"`+gx.String()+`"`, gx.String(), `"`+gu.String()+`"`, gu.String(), pct.String(), html.String(), `"`+oct.String()+`"`, strconv.Quote(t), strconv.QuoteToASCII(t+"\u00a0"))
	if len(t) > 1 { // only the first byte or only one punctuation byte escaped
		add(fmt.Sprintf(`"\x%02x%s"`, t[0], t[1:]), fmt.Sprintf("%%%02X%s", t[0], t[1:]), fmt.Sprintf("&#x%x;%s", t[0], t[1:]))
		if i := strings.IndexAny(t, "-.:+ "); i >= 0 {
			add(fmt.Sprintf(`"%s\u%04x%s"`, t[:i], t[i], t[i+1:]), fmt.Sprintf("%s%%%02X%s", t[:i], t[i], t[i+1:]), fmt.Sprintf("%s&#%d;%s", t[:i], t[i], t[i+1:]))
		}
	}
	for _, ws := range []string{" ", "\t", "\n", "\r\n", "\v", "\f", "\u00a0", "\u2028", "\u3000", "\u200b", "\ufeff", "\x00", "\u0085", "\u2003", "\x1f", "\x7f"} {
		add(ws+t, t+ws, ws+t+ws)
	}
	// a date, a number or an identifier followed by what another layer's notion of the same value carries
	add(t+"T00:00:00Z", t+"T00:00:00", t+" 00:00:00", t+"T00:00:00+00:00", t+"T00:00:00.000Z", t+"Z", t+"T12:34:56Z", t+" UTC", t+"+00:00", t+".0", t+"e0", t+"/", t+".000", t+"-", t+"_", "v"+t, "V"+t, t+"L", t+"n", t+"d", t+"f")
	add(t+t, t+","+t, t+" "+t, t+"\n"+t, t+";", t+",", "="+t, t+"=", "+"+t, "-"+t, "#"+t, t+"#", "//"+t, t+"//", "0x"+t, t+"\\", "\\"+t, t+"\\n", t+"%00", t+"\x00garbage")
	// other digit scripts and letter widths
	full := strings.Map(func(r rune) rune {
		switch {
		case r >= '0' && r <= '9':
			return r - '0' + 0xff10
		case r >= 'a' && r <= 'z':
			return r - 'a' + 0xff41
		case r >= 'A' && r <= 'Z':
			return r - 'A' + 0xff21
		}
		return r
	}, t)
	arab := strings.Map(func(r rune) rune {
		if r >= '0' && r <= '9' {
			return r - '0' + 0x0660
		}
		return r
	}, t)
	dash := strings.NewReplacer("-", "\u2010").Replace(t)
	minus := strings.NewReplacer("-", "\u2212").Replace(t)
	for _, v := range []string{full, arab, dash, minus} {
		if v != t {
			add(v)
		}
	}
	add(hex.EncodeToString([]byte(t)), base64.StdEncoding.EncodeToString([]byte(t)), strings.ToUpper(hex.EncodeToString([]byte(t))))
	if u, l := strings.ToUpper(t), strings.ToLower(t); u != t || l != t {
		add(`"`+u+`"`, `"`+l+`"`) // (case variants themselves are the properties' own business)
	}
	return out
}
