package main

import (
	"encoding/json"
	"encoding/xml"
	"errors"
	"fmt"
	"math"
	"runtime/metrics"
	"strings"
	"time"

	"go.lstv.dev/util/date"

	"verif/ref"
	"verif/rt"
)

// C01 — Date text round-trip is lossless and canonical.

func init() {
	props["C01"] = runC01
	replayers["C01/roundtrip"] = func(v rt.Violation) string {
		c := rt.ReplayCtx("C01")
		old := date.MaxInputLength
		date.MaxInputLength = int(rt.ArgInt(v, "limit"))
		defer func() { date.MaxInputLength = old }()
		c.Serial("replay", func(w *rt.W) {
			st := &c01State{}
			c01Case(w, st, rt.ArgInt(v, "y"), int(rt.ArgInt(v, "m")), int(rt.ArgInt(v, "d")), true)
			c01Case(w, st, rt.ArgInt(v, "y"), int(rt.ArgInt(v, "m")), int(rt.ArgInt(v, "d")), true)
		})
		return c.Report()
	}
}

type xmlAttr struct {
	XMLName xml.Name  `xml:"T"`
	D       date.Date `xml:"d,attr"`
}
type xmlElem struct {
	XMLName xml.Name  `xml:"T"`
	D       date.Date `xml:"d"`
}

// c01State keeps outputs of earlier calls so that a returned text that changes
// after later formatting calls (aliasing of a shared scratch buffer) is seen.
type c01State struct {
	held     [][]byte
	heldWant []string
	heldArgs [][3]int64
}

var c01Prefixes = textPrefixes([]string{"0123456789", "-", "2021-01-01"})

func c01Fail(w *rt.W, key string, y int64, m, d int, path, got, want string) {
	w.Fail(key, "roundtrip", rt.Args("y", y, "m", m, "d", d, "limit", date.MaxInputLength, "path", path), got, want,
		"output/input path "+path+" disagrees with the ISO 8601 reference")
}

// c01Case pushes one calendar date through every output path and every produced
// text through every input path, under the current MaxInputLength.
func c01Case(w *rt.W, st *c01State, y int64, m, d int, slow bool) {
	limit := date.MaxInputLength
	dt := date.New(int(y), date.Month(m), d)
	if gy, gm, gd := dt.Date(); int64(gy) != y || int(gm) != m || gd != d {
		c01Fail(w, "new-components", y, m, d, "New/Date", fmt.Sprintf("%d-%d-%d", gy, gm, gd), fmt.Sprintf("%d-%d-%d", y, m, d))
		return
	}
	wantE := ref.DateText(y, m, d, false)
	wantB := ref.DateText(y, m, d, true)

	// ---- output paths ----
	foreignActivity(int(y)+31*m+d, "date") // an ID, a size, a numeral formatted or refused right before
	outE, errE := date.DefaultFormatter(nil, dt, 0)
	outB, errB := date.DefaultFormatter(nil, dt, date.FormatBasic)
	w.Eval(2)
	if errE != nil || string(outE) != wantE {
		c01Fail(w, "out-formatter-ext", y, m, d, "DefaultFormatter(nil,0)", string(outE), wantE)
	}
	if errB != nil || string(outB) != wantB {
		c01Fail(w, "out-formatter-basic", y, m, d, "DefaultFormatter(nil,FormatBasic)", string(outB), wantB)
	}
	if fv, ferr := date.Formatter(nil, dt, date.FormatBasic); ferr != nil || string(fv) != wantB {
		c01Fail(w, "out-formatter-variable", y, m, d, "Formatter variable (FormatBasic)", string(fv), wantB)
	}
	if limit == 0 || len(wantE) <= limit {
		if pv, perr := date.Parser([]byte(wantE), date.RuleDisableBasic); perr != nil || !pv.Equal(dt) {
			c01Fail(w, "in-parser-variable", y, m, d, "Parser variable (RuleDisableBasic) "+wantE, fmt.Sprint(pv, " err=", perr), wantE)
		}
	}
	mt, err := dt.MarshalText()
	w.Eval(3)
	if err != nil || string(mt) != wantE {
		c01Fail(w, "out-marshaltext", y, m, d, "MarshalText", string(mt), wantE)
	}
	if s := dt.String(); s != wantE {
		c01Fail(w, "out-string", y, m, d, "String", s, wantE)
	}
	w.Eval(1)
	// retained outputs of earlier calls must still read the same
	for i, h := range st.held {
		if string(h) != st.heldWant[i] {
			a := st.heldArgs[i]
			c01Fail(w, "out-retained-changed", a[0], int(a[1]), int(a[2]), "text returned earlier, re-read after later formatting calls", string(h), st.heldWant[i])
		}
	}
	// the caller owns what it was handed, spare capacity included: appending to an earlier result
	// (here: filling its capacity) must not reach into results handed out later
	for _, h := range st.held {
		x := h[:cap(h)]
		for i := len(h); i < len(x); i++ {
			x[i] = '#'
		}
	}
	if string(outE) != wantE || string(outB) != wantB || string(mt) != wantE {
		c01Fail(w, "out-results-share-capacity", y, m, d, "results of this call after the spare capacity of the previous call's results was filled", string(outE)+" "+string(outB)+" "+string(mt), wantE+" "+wantB+" "+wantE)
	}
	st.held = append(st.held[:0], outE, outB, mt)
	st.heldWant = append(st.heldWant[:0], string(outE), string(outB), string(mt))
	st.heldArgs = append(st.heldArgs[:0], [3]int64{y, int64(m), int64(d)}, [3]int64{y, int64(m), int64(d)}, [3]int64{y, int64(m), int64(d)})

	{ // a caller-provided scratch buffer with room to spare (the usual way to avoid allocations)
		o1, _ := date.DefaultFormatter(make([]byte, 0, 40), dt, 0)
		o2, _ := date.DefaultFormatter(append(make([]byte, 0, 40), "2021-03-14 a-b "...), dt, date.FormatBasic)
		w.Eval(2)
		if string(o1) != wantE {
			c01Fail(w, "out-formatter-spare-capacity", y, m, d, "DefaultFormatter(make([]byte,0,40),0)", string(o1), wantE)
		}
		if string(o2) != "2021-03-14 a-b "+wantB {
			c01Fail(w, "out-formatter-spare-capacity", y, m, d, "DefaultFormatter(\"2021-03-14 a-b \" with spare capacity,FormatBasic)", string(o2), "2021-03-14 a-b "+wantB)
		}
		// room to spare that is almost, just or not quite enough for this text: every spare capacity 0..19 comes up as
		// the dates go by (a writer that sizes its buffer for the usual ten bytes meets the longer years here)
		{
			sp := int((y%1000003+1000003)%1000003+int64(m)*7+int64(d)*3) % 20
			pre := "p-9|"[:(sp*3)%5]
			for _, f := range []date.Format{0, date.FormatBasic} {
				want := wantE
				if f == date.FormatBasic {
					want = wantB
				}
				buf := append(make([]byte, 0, len(pre)+sp), pre...)
				o3, _ := date.DefaultFormatter(buf, dt, f)
				w.Eval(1)
				if string(o3) != pre+want || string(buf) != pre {
					c01Fail(w, "out-formatter-tight-capacity", y, m, d, fmt.Sprintf("DefaultFormatter(%q with %d bytes to spare,%d)", pre, sp, f), string(o3), pre+want)
				}
			}
			// Format is a set of flags: the basic form is selected by its flag, whatever else is set beside it (bits 8..27,
			// none of which has a meaning of its own)
			hi := date.Format(1) << uint(8+sp)
			o4, _ := date.DefaultFormatter(nil, dt, date.FormatBasic|hi)
			w.Eval(1)
			if string(o4) != wantB {
				c01Fail(w, "out-formatter-basic-flag-beside-another-bit", y, m, d, fmt.Sprintf("DefaultFormatter(nil,FormatBasic|%#x)", int(hi)), string(o4), wantB)
			}
			switch {
			case sp >= 10 && sp < len(wantE):
				w.ClassN("formatter-capacity-at-least-ten-but-short-of-the-text", 1)
			case sp == len(wantE) || sp == len(wantB):
				w.ClassN("formatter-capacity-exactly-the-text", 1)
			case sp < 10:
				w.ClassN("formatter-capacity-below-ten", 1)
			default:
				w.ClassN("formatter-capacity-more-than-the-text", 1)
			}
		}
		// the text sits inside a larger record: the bytes after it belong to the caller
		rec := append(append(make([]byte, 0, 64), wantE...), "|NEXT-FIELD"...)
		g, err := date.DefaultParser(rec[:len(wantE)], 0)
		w.Eval(1)
		if limit == 0 || len(wantE) <= limit {
			if err != nil || !g.Equal(dt) {
				c01Fail(w, "in-subslice", y, m, d, "DefaultParser[[]byte] on a sub-slice of a record", fmt.Sprint(g, " err=", err), wantE)
			}
		}
		if string(rec[len(wantE):]) != "|NEXT-FIELD" {
			c01Fail(w, "in-parser-wrote-behind-input", y, m, d, "DefaultParser[[]byte] on a sub-slice of a record", string(rec), wantE+"|NEXT-FIELD")
		}
	}
	if slow {
		pre, _ := date.DefaultFormatter([]byte("x="), dt, 0)
		if string(pre) != "x="+wantE {
			c01Fail(w, "out-formatter-prefix", y, m, d, "DefaultFormatter(prefix,0)", string(pre), "x="+wantE)
		}
		for _, p := range c01Prefixes {
			for fl, want := range []string{wantE, wantB} {
				if pre, err := date.DefaultFormatter(append([]byte(nil), p...), dt, date.Format(fl)); err != nil || string(pre) != string(p)+want {
					c01Fail(w, "out-formatter-prefix", y, m, d, fmt.Sprintf("DefaultFormatter(%q,%d)", p, fl), fmt.Sprint(string(pre), " err=", err), string(p)+want)
				}
			}
		}
		// the type formats itself: flags, width and precision of the verb do not change the text
		for _, vb := range []struct{ verb, want string }{{"%s", wantE}, {"%v", wantE}, {"%e", wantE}, {"%b", wantB},
			{"%+v", wantE}, {"%+s", wantE}, {"%#v", wantE}, {"%-14s", wantE}, {"%014e", wantE}, {"% b", wantB}, {"%+b", wantB}, {"%.3s", wantE}, {"%20v", wantE}} {
			if s := fmt.Sprintf(vb.verb, dt); s != vb.want {
				c01Fail(w, "out-verb", y, m, d, "Sprintf "+vb.verb, s, vb.want)
			}
		}
		if !w.C.Quick() || (y+int64(m)+int64(d))%8 == 0 {
			for _, verb := range letterVerbs { // only %b selects the basic format
				wantV := wantE
				if verb == "%b" {
					wantV = wantB
				}
				if s := fmt.Sprintf(verb, dt); s != wantV {
					c01Fail(w, "out-verb", y, m, d, "Sprintf "+verb, s, wantV)
				}
			}
			for _, verb := range wideVerbs {
				if s := fmt.Sprintf(verb, dt); s != wantE {
					c01Fail(w, "out-verb", y, m, d, "Sprintf "+verb, s, wantE)
				}
			}
			w.Eval(49 + 208)
		}
		if y >= 0 && y <= 9999 { // the exported layouts for package time spell the same two texts
			if s1, s2 := dt.Time().Format(date.TimeFormatExtended), dt.Time().Format(date.TimeFormatBasic); s1 != wantE || s2 != wantB {
				c01Fail(w, "out-time-layout", y, m, d, "Time().Format(TimeFormatExtended / TimeFormatBasic)", s1+" "+s2, wantE+" "+wantB)
			}
			t1, e1 := time.Parse(date.TimeFormatExtended, wantE)
			t2, e2 := time.Parse(date.TimeFormatBasic, wantB)
			if e1 != nil || e2 != nil || !date.FromTime(t1).Equal(dt) || !date.FromTime(t2).Equal(dt) {
				c01Fail(w, "in-time-layout", y, m, d, "time.Parse(TimeFormatExtended / TimeFormatBasic) then FromTime", fmt.Sprint(date.FromTime(t1), " ", date.FromTime(t2), " ", e1, " ", e2), wantE)
			}
			w.Eval(4)
		}
		for _, vb := range []struct {
			verb rune
			want string
		}{{'s', wantE}, {'v', wantE}, {'e', wantE}, {'b', wantB}, {'d', wantE}, {'q', wantE}} {
			if s := formatVia(dt, vb.verb); s != vb.want {
				c01Fail(w, "out-verb", y, m, d, "Format(%"+string(vb.verb)+") through a fmt.State that is not fmt's printer", s, vb.want)
			}
		}
		w.Eval(6)
		if s := fmt.Sprintf("%+v", struct{ D date.Date }{dt}); s != "{D:"+wantE+"}" {
			c01Fail(w, "out-verb", y, m, d, "Sprintf %+v of a struct holding the date", s, "{D:"+wantE+"}")
		}
		jb, err := json.Marshal(dt)
		if err != nil || string(jb) != `"`+wantE+`"` {
			c01Fail(w, "out-json", y, m, d, "json.Marshal", string(jb), `"`+wantE+`"`)
		}
		xe, err := xml.Marshal(xmlElem{D: dt})
		if err != nil || string(xe) != "<T><d>"+wantE+"</d></T>" {
			c01Fail(w, "out-xml-elem", y, m, d, "xml.Marshal element", string(xe), "<T><d>"+wantE+"</d></T>")
		}
		xa, err := xml.Marshal(xmlAttr{D: dt})
		if err != nil || string(xa) != `<T d="`+wantE+`"></T>` {
			c01Fail(w, "out-xml-attr", y, m, d, "xml.Marshal attribute", string(xa), `<T d="`+wantE+`"></T>`)
		}
		// the same through addressable values (a pointer, a slice element, a field of a struct passed by pointer,
		// a map value): encoding/json and encoding/xml then also see methods of the pointer receiver
		{
			dp := dt
			holder := struct {
				D date.Date
				P *date.Date
				L []date.Date
				M map[string]*date.Date
			}{dt, &dp, []date.Date{dt}, map[string]*date.Date{"k": &dp}}
			wantDoc := `{"D":"` + wantE + `","P":"` + wantE + `","L":["` + wantE + `"],"M":{"k":"` + wantE + `"}}`
			for _, mv := range []struct {
				path string
				v    any
				want string
			}{{"json.Marshal(&date)", &dp, `"` + wantE + `"`}, {"json.Marshal([]Date)", []date.Date{dt}, `["` + wantE + `"]`}, {"json.Marshal(&struct with Date, *Date, []Date, map[string]*Date)", &holder, wantDoc}, {"json.Marshal(struct by value)", holder, wantDoc}} {
				jb, err := json.Marshal(mv.v)
				if err != nil || string(jb) != mv.want {
					c01Fail(w, "out-json", y, m, d, mv.path, string(jb), mv.want)
				}
			}
			xe2, err := xml.Marshal(&xmlElem{D: dt})
			if err != nil || string(xe2) != "<T><d>"+wantE+"</d></T>" {
				c01Fail(w, "out-xml-elem", y, m, d, "xml.Marshal(&element)", string(xe2), "<T><d>"+wantE+"</d></T>")
			}
			xa2, err := xml.Marshal(&xmlAttr{D: dt})
			if err != nil || string(xa2) != `<T d="`+wantE+`"></T>` {
				c01Fail(w, "out-xml-attr", y, m, d, "xml.Marshal(&attribute holder)", string(xa2), `<T d="`+wantE+`"></T>`)
			}
			w.Eval(6)
		}
		w.Eval(8)
	}

	// ---- input paths, each fed with both canonical texts ----
	for _, text := range []string{wantE, wantB} {
		tooLong := limit != 0 && len(text) > limit
		check := func(path string, got date.Date, err error) {
			w.Eval(1)
			if tooLong {
				if err == nil || !errors.Is(err, date.ErrInputTooLong) {
					c01Fail(w, "in-limit-not-enforced", y, m, d, path+" "+text, fmt.Sprint(got, " err=", err), "ErrInputTooLong")
				}
				return
			}
			if err != nil {
				c01Fail(w, "in-rejected", y, m, d, path+" "+text, "err="+err.Error(), "accepted")
				return
			}
			gy, gm, gd := got.Date()
			if !got.Equal(dt) || int64(gy) != y || int(gm) != m || gd != d {
				c01Fail(w, "in-wrong-date", y, m, d, path+" "+text, fmt.Sprintf("%d-%d-%d", gy, gm, gd), fmt.Sprintf("%d-%d-%d", y, m, d))
			}
		}
		g, err := date.DefaultParser(text, 0)
		check("DefaultParser[string]", g, err)
		g, err = date.DefaultParser([]byte(text), 0)
		check("DefaultParser[[]byte]", g, err)
		u := date.New(1234, 5, 6) // the receiver already holds another date
		err = u.UnmarshalText([]byte(text))
		if err != nil {
			u = date.Date{}
		}
		check("UnmarshalText", u, err)
		{ // Scan: if it takes text at all (database drivers hand DATE columns over as string or []byte), it is an input path
			s1, s2 := date.New(1234, 5, 6), date.New(1234, 5, 6)
			if err := s1.Scan(text); err == nil {
				check("Scan(string)", s1, nil)
			}
			if err := s2.Scan([]byte(text)); err == nil {
				check("Scan([]byte)", s2, nil)
			}
		}
		if slow {
			var j date.Date
			err = json.Unmarshal([]byte(`"`+text+`"`), &j)
			check("json.Unmarshal", j, err)
			var xe xmlElem
			err = xml.Unmarshal([]byte("<T><d>"+text+"</d></T>"), &xe)
			check("xml.Unmarshal element", xe.D, err)
			var xa xmlAttr
			err = xml.Unmarshal([]byte(`<T d="`+text+`"></T>`), &xa)
			check("xml.Unmarshal attribute", xa.D, err)
			if w.C.Quick() && (y+int64(m)+int64(d))%8 != 0 {
				continue // quick tier: one slow date in eight takes the alternative spellings
			}
			// the same text as the container formats may legally spell it: JSON \u escapes, XML character
			// references, CDATA sections and comments; as struct field, array element and map key
			esc := func(s string, all bool) string {
				var sb strings.Builder
				for i := 0; i < len(s); i++ {
					if all || s[i] == '-' || i == 0 {
						fmt.Fprintf(&sb, "\\u%04x", s[i])
					} else {
						sb.WriteByte(s[i])
					}
				}
				return sb.String()
			}
			for vi, doc := range []string{`"` + esc(text, false) + `"`, `"` + esc(text, true) + `"`, " \n\t\"" + text + "\" \r\n"} {
				var j date.Date
				err = json.Unmarshal([]byte(doc), &j)
				check(fmt.Sprintf("json.Unmarshal of escaped/padded spelling %d", vi), j, err)
			}
			{
				var js struct {
					D  date.Date            `json:"d"`
					P  *date.Date           `json:"p"`
					L  []date.Date          `json:"l"`
					M  map[date.Date]int    `json:"m"`
					MS map[string]date.Date `json:"ms"`
				}
				err = json.Unmarshal([]byte(`{"d": "`+esc(text, false)+`", "p":"`+text+`", "l":["`+text+`","`+esc(text, true)+`"], "m":{"`+esc(text, false)+`":1}, "ms":{"k":"`+text+`"}}`), &js)
				check("json.Unmarshal struct field (escaped)", js.D, err)
				if err == nil && !tooLong {
					check("json.Unmarshal pointer field", *js.P, nil)
					for _, e := range js.L {
						check("json.Unmarshal array element", e, nil)
					}
					for k := range js.M {
						check("json.Unmarshal map key (escaped)", k, nil)
					}
					check("json.Unmarshal map value", js.MS["k"], nil)
					if len(js.L) != 2 || len(js.M) != 1 {
						c01Fail(w, "in-wrong-date", y, m, d, "json.Unmarshal containers "+text, fmt.Sprint(len(js.L), " elements, ", len(js.M), " keys"), "2 elements, 1 key")
					}
				}
				dec := json.NewDecoder(strings.NewReader(`"` + esc(text, false) + `" "` + text + `"`))
				var j1, j2 date.Date
				err = dec.Decode(&j1)
				check("json.Decoder first value (escaped)", j1, err)
				if err == nil {
					err = dec.Decode(&j2)
					check("json.Decoder second value", j2, err)
				}
			}
			ref45 := strings.ReplaceAll(text, "-", "&#45;")
			if !strings.Contains(text, "-") {
				ref45 = "&#" + fmt.Sprint(int(text[0])) + ";" + text[1:]
			}
			refHex := "&#x" + fmt.Sprintf("%x", text[0]) + ";" + text[1:]
			for vi, body := range []string{"<![CDATA[" + text + "]]>", ref45, refHex, text + "<!-- c -->", "<!--c-->" + text, text[:4] + "<!-- c -->" + text[4:], text[:2] + "<![CDATA[" + text[2:] + "]]>", text + "<?pi x?>"} {
				var xe xmlElem
				err = xml.Unmarshal([]byte("<T><d>"+body+"</d></T>"), &xe)
				check(fmt.Sprintf("xml.Unmarshal element, alternative spelling %d", vi), xe.D, err)
			}
			for vi, av := range []string{ref45, refHex} {
				var xa xmlAttr
				err = xml.Unmarshal([]byte(`<T d='`+av+`'></T>`), &xa)
				check(fmt.Sprintf("xml.Unmarshal attribute, alternative spelling %d", vi), xa.D, err)
			}
			w.ClassN("container-level-alternative-spellings", 1)
		}
	}

	// reach classes
	switch {
	case m == 2 && d == 29:
		w.Class("leap-day")
	case d == ref.DaysIn(y, m) && m == 12:
		w.Class("dec-31")
	case d == ref.DaysIn(y, m):
		w.Class("month-end")
	case d == 1 && m == 1:
		w.Class("jan-1")
	}
	if slow {
		if w.Class("full-path-cross-product") {
			w.Sample("full-path-cross-product", map[string]any{"date": wantE, "basic": wantB, "limit": limit})
		}
	}
}

func init() {
	dates := [][3]int{{1, 1, 1}, {0, 1, 1}, {2000, 2, 29}, {9999, 12, 31}, {1582, 10, 10}, {2021, 6, 15}, {1970, 1, 1}, {4, 2, 29}}
	coldCases["C01"] = coldGeneric([]func(){
		func() { _, _ = date.DefaultParser("0001-01-01", 0) },
		func() { _ = date.Date{}.String() },
		func() { var d date.Date; _ = d.UnmarshalBinary([]byte{1, 0, 0, 0, 1, 1, 1}) },
		func() { _, _ = date.DefaultParser("00000101", date.RuleDisableBasic) },
		func() { _, _ = date.Date{}.MarshalText() },
		func() { _ = fmt.Sprintf("%b", date.New(2024, 2, 29)) },
		func() {},
	}, func(w *rt.W, k int) {
		c01Case(w, &c01State{}, int64(dates[k][0]), dates[k][1], dates[k][2], true)
	}, len(dates))
}

func runC01(c *rt.Ctx) {
	soloRun(c, "date")
	retainedAcrossCollections(c, "Date.MarshalText / DefaultFormatter(nil)", 256, func(i int) ([]byte, string) {
		y, m, d := 1000+i%8000, 1+i%12, 1+i%28
		dt := date.New(y, time.Month(m), d)
		if i%2 == 0 {
			b, _ := dt.MarshalText()
			return b, fmt.Sprintf("%04d-%02d-%02d", y, m, d)
		}
		b, _ := date.DefaultFormatter(nil, dt, date.FormatBasic)
		return b, fmt.Sprintf("%04d%02d%02d", y, m, d)
	})
	appenderSweep(c, func() []any {
		var out []any
		for _, v := range []date.Date{date.New(2024, 2, 29), date.New(1, 1, 1), date.New(9999, 12, 31), date.New(-44, 3, 15), date.New(123456789, 10, 5), date.Date{}} {
			v := v
			out = append(out, v, &v)
		}
		return out
	}())
	configuredEpisode() // the process has a past: failing configured Formatters and Parsers, since restored
	c.Extra("history_before_the_streams", "an episode of failing configured Formatter/Parser variables in all five packages")
	c.SetRule("every calendar date of years 0000-9999 is enumerated once (exhaustive) through formatter/MarshalText/String -> three parser paths for both layouts; " +
		"the slow paths (fmt verbs, JSON, XML in and out, prefix buffer) run on every month end, leap day, first of month and a stride of the rest in quick, on every date in thorough; " +
		"5-9 digit years are enumerated from a boundary grid plus seeded years under MaxInputLength in {0,11..15}. " +
		"distinct_nontrivial counts distinct (date, limit) cases, each visited once by construction, excluding the dates the unit suite touches")
	c.Assume("Go runtime, fmt, encoding/json, encoding/xml are trusted; expected texts and calendar come from ref/civil.go (independent of package time and of the code under test)")
	c.Assume("date.Format is a set of flags (as its documentation says): the basic form is selected by the FormatBasic bit also when bits 8..27, which have no meaning of their own, are set beside it")

	// specification vectors / oracle self-test
	c.SelfTest("ordinal-1970-01-01=0", ref.Ordinal(1970, 1, 1) == 0)
	c.SelfTest("ordinal-0001-01-01=-719162", ref.Ordinal(1, 1, 1) == -719162)
	c.SelfTest("leap-rule-1900-2000-2004-2100", !ref.IsLeap(1900) && ref.IsLeap(2000) && ref.IsLeap(2004) && !ref.IsLeap(2100) && ref.IsLeap(0))
	c.SelfTest("text-padding", ref.DateText(5, 3, 7, false) == "0005-03-07" && ref.DateText(123456, 12, 31, true) == "1234561231" && ref.DateText(0, 1, 1, true) == "00000101")
	{
		sc := rt.ReplayCtx("C01")
		sc.Serial("selftest", func(w *rt.W) {
			c01Fail(w, "k", 1, 1, 1, "p", "2021-1-05", "2021-01-05")
		})
		c.SelfTest("monitor-records-a-mismatch", sc.Violations() == 1)
	}

	first := ref.Ordinal(0, 1, 1)
	last := ref.Ordinal(9999, 12, 31)
	total := last - first + 1
	if total != 3652425 {
		c.Inconclusive(fmt.Sprintf("reference calendar spans %d days instead of 3,652,425", total))
		return
	}
	stride := int64(c.Pick(16, 1))

	date.MaxInputLength = 10
	c.Parallel("calendar", 0, func(w *rt.W) {
		st := &c01State{}
		lo := first + total*int64(w.Shard)/int64(w.NShards)
		hi := first + total*int64(w.Shard+1)/int64(w.NShards)
		for o := lo; o < hi; o++ {
			y, m, d := ref.Civil(o)
			// reference self-check against package time: a disagreement is a harness fault
			if t := time.Date(int(y), time.Month(m), d, 0, 0, 0, 0, time.UTC); t.Unix() != o*86400 {
				c.Inconclusive(fmt.Sprintf("ref.Civil(%d) = %d-%d-%d disagrees with package time", o, y, m, d))
				return
			}
			slow := stride == 1 || d == 1 || d == ref.DaysIn(y, m) || (m == 2 && d >= 28) || (o-first)%stride == 0
			c01Case(w, st, y, m, d, slow)
			if !(y == 1 && m == 1 && d == 1) && !(y == 2006 && m == 1 && d == 2) {
				w.NT(1)
			}
			if y == 0 {
				w.Class("year-0000")
			} else if y == 9999 {
				w.Class("year-9999")
			}
		}
	})
	c.Exhaustive("all 3,652,425 dates of years 0000-9999 x {extended, basic} through formatter, MarshalText, String -> DefaultParser[string], DefaultParser[[]byte], UnmarshalText")
	if stride == 1 {
		c.Exhaustive("all 3,652,425 dates x {extended, basic} through fmt verbs, JSON and XML in both directions")
	}

	// big years under raised / disabled limits
	var years []int64
	for p := int64(10000); p <= 1000000000; p *= 10 {
		years = append(years, p-1, p, p+1)
	}
	years = append(years, 999999999, 999999998, 500000000, 123456789, 100004, 99996, 400000, 400004)
	nSeeded := c.Pick(20000, 2000000)
	// the same date held by variables that received it by other routes than New: every output path gives the same text
	c.Serial("dates-by-every-route", func(w *rt.W) {
		for _, ymd := range [][3]int{{1, 1, 1}, {2024, 2, 29}, {1965, 3, 4}, {1969, 12, 31}, {1970, 1, 1}, {0, 1, 1}, {9999, 12, 31}, {1900, 3, 1}} {
			y, m, d := ymd[0], ymd[1], ymd[2]
			wantE, wantB := ref.DateText(int64(y), m, d, false), ref.DateText(int64(y), m, d, true)
			for ri, r := range dateRoutes(y, time.Month(m), d) {
				mt, err := r.MarshalText()
				jb, jerr := json.Marshal(r)
				fb, ferr := date.DefaultFormatter(nil, r, date.FormatBasic)
				gy, gm, gd := r.Date()
				w.Eval(5)
				if err != nil || jerr != nil || ferr != nil || string(mt) != wantE || r.String() != wantE || string(jb) != `"`+wantE+`"` || string(fb) != wantB || fmt.Sprintf("%b", r) != wantB || gy != y || int(gm) != m || gd != d {
					c01Fail(w, "out-by-route", int64(y), m, d, fmt.Sprintf("output paths of the date reached by route %d", ri), fmt.Sprint(string(mt), " ", r.String(), " ", string(jb), " ", string(fb), " ", gy, gm, gd), wantE+" / "+wantB)
				}
			}
			w.ClassN("date-by-every-route", 1)
		}
	})
	c.Require("date-by-every-route", 8)
	// the limit raised "to infinity": a short list of dates (a limit-sized allocation per call would take minutes on
	// the full stream; one probed call decides whether the list is run under that limit)
	for _, limit := range []int{math.MaxInt, math.MaxInt - 1, math.MaxInt32, 1 << 30} {
		date.MaxInputLength = limit
		c.Serial(fmt.Sprintf("limit-raised-to-%d", limit), func(w *rt.W) {
			sample := []metrics.Sample{{Name: "/gc/heap/allocs:bytes"}}
			metrics.Read(sample)
			before := sample[0].Value.Uint64()
			_, _ = date.DefaultParser("2021-03-04", 0)
			metrics.Read(sample)
			if sample[0].Value.Uint64()-before > 1<<26 {
				c.Extra(fmt.Sprintf("limit_%d_skipped", limit), "one parse allocated more than 64 MiB under this limit; the date list was not run (C18 judges allocation)")
				return
			}
			st := &c01State{}
			for _, ymd := range [][3]int64{{2021, 3, 4}, {0, 1, 1}, {9999, 12, 31}, {10000, 1, 1}, {123456, 7, 8}, {999999999, 12, 31}, {2000, 2, 29}, {99999, 2, 28}} {
				c01Case(w, st, ymd[0], int(ymd[1]), int(ymd[2]), true)
				c01Case(w, st, ymd[0], int(ymd[1]), int(ymd[2]), true)
			}
			w.ClassN("limit-raised-to-the-maximum", 1)
		})
	}
	c.Require("limit-raised-to-the-maximum", 1)
	for _, limit := range []int{0, 11, 12, 13, 14, 15} {
		date.MaxInputLength = limit
		c.Parallel(fmt.Sprintf("bigyears-%d", limit), 0, func(w *rt.W) {
			st := &c01State{}
			do := func(y int64, i int) {
				if y > 999999999 || y < 0 {
					return
				}
				days := [][2]int{{1, 1}, {2, 28}, {12, 31}, {1 + w.Rng.Intn(12), 0}}
				if ref.IsLeap(y) {
					days[1] = [2]int{2, 29}
				}
				for _, md := range days {
					m, d := md[0], md[1]
					if d == 0 {
						d = 1 + w.Rng.Intn(ref.DaysIn(y, m))
					}
					c01Case(w, st, y, m, d, i%8 == 0)
					w.NTHash(rt.HashU(uint64(y), uint64(m), uint64(d), uint64(limit)))
					digits := len(fmt.Sprint(y))
					w.Class(fmt.Sprintf("year-digits-%d", digits))
					if limit != 0 && digits+6 > limit {
						w.Class("text-over-limit")
					} else if digits > 4 {
						w.Class("big-year-within-limit")
					}
				}
			}
			for i, y := range years {
				if i%w.NShards == w.Shard {
					do(y, 0)
				}
			}
			for i := 0; i < nSeeded/w.NShards; i++ {
				digits := 5 + w.Rng.Intn(5)
				lo := int64(1)
				for k := 1; k < digits; k++ {
					lo *= 10
				}
				y := lo + int64(w.Rng.U64()%uint64(lo*9))
				do(y, i)
			}
		})
	}
	date.MaxInputLength = 10

	// the process-local time zone must not matter: every day of 1900-2040 under hostile zones
	zFirst, zLast := ref.Ordinal(1900, 1, 1), ref.Ordinal(2040, 12, 31)
	for _, loc := range hostileZones() {
		loc := loc
		withLocal(loc, func() {
			c.Parallel("zones/"+loc.String(), 0, func(w *rt.W) {
				st := &c01State{}
				for o := zFirst + int64(w.Shard); o <= zLast; o += int64(w.NShards) {
					y, m, d := ref.Civil(o)
					c01Case(w, st, y, m, d, o%8 == 0)
				}
				w.ClassN("local-zone-sweep", 1)
			})
		})
	}
	// configuration: a package-level Formatter that fails; String and the verbs fall back to DefaultFormatter
	{
		oldF := date.Formatter
		for _, withBytes := range []bool{false, true} {
			withBytes := withBytes
			date.Formatter = func(buf []byte, d date.Date, f date.Format) ([]byte, error) {
				if withBytes { // the usual shape of a wrapper: the bytes it has together with its error
					b, _ := date.DefaultFormatter(buf, d, f)
					return append(b, "?!"...), errors.New("formatter refuses")
				}
				return nil, errors.New("formatter refuses")
			}
			c.Serial("failing-formatter", func(w *rt.W) {
				for _, ymd := range [][3]int{{1, 1, 1}, {0, 1, 1}, {2000, 2, 29}, {9999, 12, 31}, {476, 9, 4}, {2021, 10, 9}} {
					dt := date.New(ymd[0], date.Month(ymd[1]), ymd[2])
					wantE, wantB := ref.DateText(int64(ymd[0]), ymd[1], ymd[2], false), ref.DateText(int64(ymd[0]), ymd[1], ymd[2], true)
					for _, vb := range []struct{ verb, want string }{{"%s", wantE}, {"%v", wantE}, {"%e", wantE}, {"%b", wantB}} {
						if g := fmt.Sprintf(vb.verb, dt); g != vb.want {
							c01Fail(w, "failing-formatter-fallback", int64(ymd[0]), ymd[1], ymd[2], "Sprintf "+vb.verb+" with a failing Formatter", g, vb.want)
						}
					}
					if g := dt.String(); g != wantE {
						c01Fail(w, "failing-formatter-fallback", int64(ymd[0]), ymd[1], ymd[2], "String with a failing Formatter", g, wantE)
					}
					if b, err := dt.MarshalText(); err == nil {
						c01Fail(w, "failing-formatter-fallback", int64(ymd[0]), ymd[1], ymd[2], "MarshalText with a failing Formatter", string(b), "an error")
					}
					w.Eval(6)
					w.ClassN("failing-formatter", 1)
				}
			})
		}
		date.Formatter = oldF
	}
	// call histories: canonical texts of equal length colliding under weak checksums, parsed back to back through every input path
	{
		var texts []string
		for o := ref.Ordinal(1000, 1, 1); o <= ref.Ordinal(4299, 12, 31); o++ {
			y, m, d := ref.Civil(o)
			texts = append(texts, ref.DateText(y, m, d, false))
		}
		collisionHistories(c, texts, 300, 200, func(w *rt.W, t string) {
			rec := ref.RecogniseDate(t)
			check := func(path string, got date.Date, err error) {
				w.Eval(1)
				gy, gm, gd := got.Date()
				if err != nil || int64(gy) != rec.Y || int(gm) != rec.M || gd != rec.D {
					c01Fail(w, "in-wrong-date-in-call-history", rec.Y, rec.M, rec.D, path+" "+t+" (parsed right after a different text of the same length)", fmt.Sprintf("%d-%d-%d err=%v", gy, gm, gd, err), t)
				}
			}
			g, err := date.DefaultParser(t, 0)
			check("DefaultParser[string]", g, err)
			g, err = date.DefaultParser([]byte(t), 0)
			check("DefaultParser[[]byte]", g, err)
			var u date.Date
			err = u.UnmarshalText([]byte(t))
			check("UnmarshalText", u, err)
			var j date.Date
			err = json.Unmarshal([]byte(`"`+t+`"`), &j)
			check("json.Unmarshal", j, err)
		})
	}
	date.MaxInputLength = 10
	refillRun(c, c.Pick(40000, 400000), "date", "date-json")
	coldStart(c, "C01", 14)
	c.Extra("local_zones", len(hostileZones()))
	c.Require("local-zone-sweep", int64(len(hostileZones())))
	for _, cl := range []string{"leap-day", "month-end", "dec-31", "jan-1", "year-0000", "year-9999", "full-path-cross-product",
		"year-digits-5", "year-digits-6", "year-digits-7", "year-digits-8", "year-digits-9", "text-over-limit", "big-year-within-limit"} {
		c.Require(cl, 1)
	}
	c.Require("leap-day", 2425)
	c.Require("formatter-capacity-at-least-ten-but-short-of-the-text", 1000)
	c.Require("formatter-capacity-exactly-the-text", 1000)
	c.Require("container-level-alternative-spellings", 1000)
}
