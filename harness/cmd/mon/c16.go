package main

import (
	"bytes"
	"fmt"
	"strings"

	"go.lstv.dev/util/date"
	"go.lstv.dev/util/roman"
	"go.lstv.dev/util/sem"
	"go.lstv.dev/util/size"
	"go.lstv.dev/util/uu"

	"verif/rt"
)

// C16 — Formatters append to the caller's buffer without disturbing it.

type c16Formatter struct {
	name     string
	nValues  int
	nFlags   int
	alphabet []string
	call     func(buf []byte, vi, flag int) ([]byte, error)
	describe func(vi, flag int) string
}

var c16Dates, c16Romans, c16Sems, c16Sizes, c16IDs = c16Values()

func c16Values() ([]date.Date, []roman.Number, []sem.Ver, []size.Size, []uu.ID) {
	var ds []date.Date
	for _, ymd := range [][3]int{{1, 1, 1}, {0, 1, 1}, {2000, 2, 29}, {1999, 12, 31}, {9999, 12, 31}, {10000, 1, 1}, {999999999, 12, 31}, {123456, 7, 4}, {2021, 10, 9}, {-1, 3, 5}, {-45678, 11, 30}, {476, 9, 4}} {
		ds = append(ds, date.New(ymd[0], date.Month(ymd[1]), ymd[2]))
	}
	rs := []roman.Number{0, 1, 3, 4, 9, 14, 40, 49, 90, 99, 400, 444, 900, 949, 999, 1994, 3888, 3999, 4000, 4999, 12494, 130000}
	long := strings.Repeat("a-b.0.", 40) + "z"
	ss := []sem.Ver{
		{}, sem.New(1, 2, 3), sem.New(0, 0, 1, "alpha"), sem.New(1, 0, 0, "rc.1", "build.5"), sem.New(1, 0, 0, "", "001"),
		sem.New(^uint64(0), ^uint64(0), ^uint64(0), "x-y-z", "v1"), sem.New(10, 20, 30, long, long), sem.New(7, 0, 0, "v.+.-", "\x00\xff"),
	}
	zs := []size.Size{0, 1, 999, 1000, 1023, 1024, 1025, 1536, 999999, 1 << 20, 1<<20 + 1, 1234567890, 1 << 30, 1 << 40, 3 << 50, 1 << 60, 15 << 60, ^size.Size(0), 1000000000000000000, 12345678901234567890}
	is := []uu.ID{{}, {Higher: ^uint64(0), Lower: ^uint64(0)}, {Higher: 0xaaaaaaaaaaaaaaaa, Lower: 0x5555555555555555}, {Higher: 0x0123456789abcdef, Lower: 0xfedcba9876543210},
		{Higher: 0xf81d4fae7dec11d0, Lower: 0xa76500a0c91e6bf6}, {Higher: 0x00000000000f0000, Lower: 0x000f000000000000}, {Higher: 1, Lower: 1}}
	return ds, rs, ss, zs, is
}

func c16Formatters() []c16Formatter {
	return []c16Formatter{
		{name: "date", nValues: len(c16Dates), nFlags: 2, alphabet: []string{"0123456789", "-", "2021-01-01", "00000000", "-0-"},
			call: func(buf []byte, vi, flag int) ([]byte, error) {
				return date.DefaultFormatter(buf, c16Dates[vi], date.Format(flag))
			},
			describe: func(vi, flag int) string {
				y, m, d := c16Dates[vi].Date()
				return fmt.Sprintf("date %d-%d-%d format=%d", y, m, d, flag)
			}},
		{name: "roman", nValues: len(c16Romans), nFlags: 128, alphabet: []string{"IVXLCDM", "ivxlcdm", "MIX:", "mix:", "DIM LIVID MILD", "CIVIC civic", "I", "M", "x"},
			call: func(buf []byte, vi, flag int) ([]byte, error) {
				f, _ := romanFlags(flag)
				return roman.DefaultFormatter(buf, c16Romans[vi], f)
			},
			describe: func(vi, flag int) string {
				f, _ := romanFlags(flag)
				return fmt.Sprintf("roman %d format=%d", c16Romans[vi], int(f))
			}},
		{name: "sem", nValues: len(c16Sems), nFlags: 2, alphabet: []string{"v", "v1.2.3", "1.0.0-", "+", "-", ".", "vv", "0"},
			call: func(buf []byte, vi, flag int) ([]byte, error) {
				return sem.DefaultFormatter(buf, c16Sems[vi], sem.Format(flag))
			},
			describe: func(vi, flag int) string { return fmt.Sprintf("sem %+v format=%d", c16Sems[vi], flag) }},
		{name: "size", nValues: len(c16Sizes), nFlags: 4, alphabet: []string{"B", "KiB", " ", "&nbsp;", "1 024 ", "0123456789", "&nbsp", ";"},
			call: func(buf []byte, vi, flag int) ([]byte, error) {
				return size.DefaultFormatter(buf, c16Sizes[vi], size.Format(flag))
			},
			describe: func(vi, flag int) string { return fmt.Sprintf("size %d format=%d", uint64(c16Sizes[vi]), flag) }},
		{name: "uu", nValues: len(c16IDs), nFlags: 2, alphabet: []string{"urn:uuid:", "URN:UUID:", "0123456789abcdef", "ABCDEF", "-", "urn:", "u"},
			call: func(buf []byte, vi, flag int) ([]byte, error) {
				return uu.DefaultFormatter(buf, c16IDs[vi], uu.Format(flag))
			},
			describe: func(vi, flag int) string {
				return fmt.Sprintf("uu %016x%016x format=%d", c16IDs[vi].Higher, c16IDs[vi].Lower, flag)
			}},
	}
}

func init() {
	props["C16"] = runC16
	replayers["C16/longroman"] = func(v rt.Violation) string {
		c := rt.ReplayCtx("C16")
		c.Serial("replay", func(w *rt.W) {
			n, f, prefix, spare := roman.Number(rt.ArgUint(v, "n")), roman.Format(rt.ArgInt(v, "format")), rt.ArgString(v, "prefix"), int(rt.ArgInt(v, "spare"))
			ref0, _ := roman.DefaultFormatter(nil, n, f)
			out, err := roman.DefaultFormatter(append(make([]byte, 0, len(prefix)+spare), prefix...), n, f)
			w.Eval(1)
			if err != nil || string(out[:len(prefix)]) != prefix || !bytes.Equal(out[len(prefix):], ref0) {
				w.Fail("long-result-behind-prefix-roman", "longroman", v.Args, fmt.Sprintf("%d bytes", len(out)), fmt.Sprintf("%d bytes: prefix ++ format(nil)", len(prefix)+len(ref0)), "see the recorded event")
			}
		})
		return c.Report()
	}
	replayers["C16/append"] = func(v rt.Violation) string {
		c := rt.ReplayCtx("C16")
		for _, f := range c16Formatters() {
			if f.name == rt.ArgString(v, "formatter") {
				f := f
				c.Serial("replay", func(w *rt.W) {
					st := &c16State{}
					c16Case(w, st, &f, int(rt.ArgInt(v, "vi")), int(rt.ArgInt(v, "flag")), []byte(rt.ArgString(v, "prefix")), int(rt.ArgInt(v, "spare")))
					c16Case(w, st, &f, int(rt.ArgInt(v, "vi")), int(rt.ArgInt(v, "flag")), []byte(rt.ArgString(v, "prefix")), int(rt.ArgInt(v, "spare")))
				})
			}
		}
		return c.Report()
	}
}

// c16State retains the previous output to detect a result that changes after a
// later formatting call (scratch-buffer aliasing).
type c16State struct {
	calls    int
	prevOut  []byte
	prevNil  []byte
	prevWant []byte
	prevDesc string
}

// c16Call runs the formatter; a panic of the code under test becomes an error result so that
// the case is reported with its own arguments.
func c16Call(f *c16Formatter, buf []byte, vi, flag int) (out []byte, err error) {
	defer func() {
		if r := recover(); r != nil {
			out, err = nil, fmt.Errorf("formatter panicked: %v", r)
		}
	}()
	return f.call(buf, vi, flag)
}

func c16Case(w *rt.W, st *c16State, f *c16Formatter, vi, flag int, prefix []byte, spare int) {
	fail := func(key, got, want string) {
		w.Fail(key+"-"+f.name, "append", rt.Args("formatter", f.name, "vi", vi, "flag", flag, "prefix", prefix, "spare", spare, "value", f.describe(vi, flag)), got, want,
			"formatting into a caller buffer must return prefix ++ format(nil) and leave the caller's bytes alone")
	}
	refOut, err := c16Call(f, nil, vi, flag)
	if err != nil {
		fail("error", err.Error(), "nil error")
		return
	}
	refCopy := append([]byte(nil), refOut...)
	if st.prevNil != nil { // fill the spare capacity of the previous nil-buffer result: it belongs to the caller, not to later results
		x := st.prevNil[:cap(st.prevNil)]
		for i := len(st.prevNil); i < len(x); i++ {
			x[i] = '#'
		}
		if !bytes.Equal(refOut, refCopy) {
			fail("nil-buffer-results-share-capacity", string(refOut), string(refCopy))
			refOut = append([]byte(nil), refCopy...)
		}
	}
	st.prevNil = refOut
	if len(prefix) < 64 {
		foreignActivity(vi*7+flag+spare, "") // any other formatter or parser of the library may run in between
	}
	const guard = 8
	backing := make([]byte, len(prefix)+spare+guard)
	copy(backing, prefix)
	for i := len(prefix); i < len(backing); i++ {
		backing[i] = 0xEE
	}
	buf := backing[: len(prefix) : len(prefix)+spare]
	out, err := c16Call(f, buf, vi, flag)
	w.Eval(2)
	if err != nil {
		fail("error", err.Error(), "nil error")
		return
	}
	if !bytes.Equal(refOut, refCopy) {
		fail("nil-buffer-result-changed-by-later-call", string(refOut), string(refCopy))
	}
	want := append(append([]byte(nil), prefix...), refCopy...)
	if !bytes.Equal(out, want) {
		key := "result"
		if len(out) >= len(prefix) && !bytes.Equal(out[:len(prefix)], prefix) && bytes.Equal(out[len(prefix):], refCopy) {
			key = "prefix-altered-in-result"
		}
		fail(key, string(out), string(want))
	}
	if !bytes.Equal(backing[:len(prefix)], prefix) {
		fail("caller-bytes-modified-in-place", string(backing[:len(prefix)]), string(prefix))
	}
	for i := len(prefix) + spare; i < len(backing); i++ {
		if backing[i] != 0xEE {
			fail("write-beyond-capacity", fmt.Sprintf("%x", backing[len(prefix)+spare:]), "guard bytes untouched")
			break
		}
	}
	if st.prevOut != nil && !bytes.Equal(st.prevOut, st.prevWant) {
		fail("earlier-result-changed-by-later-call", string(st.prevOut), string(st.prevWant)+" ("+st.prevDesc+")")
	}
	st.prevOut, st.prevWant, st.prevDesc = out, append([]byte(nil), out...), f.describe(vi, flag)
	// every other call the caller reuses its buffers for something else: results of later calls
	// must not depend on the content of buffers handed out earlier
	st.calls++
	if st.calls%2 == 0 {
		for i := range refOut {
			refOut[i] = '#'
		}
		for i := range backing {
			backing[i] = '~'
		}
		st.prevOut = nil
		again, err := c16Call(f, nil, vi, flag)
		w.Eval(1)
		if err != nil || !bytes.Equal(again, refCopy) {
			fail("result-depends-on-earlier-returned-buffer", string(again), string(refCopy))
		}
	}
}

func runC16(c *rt.Ctx) {
	configuredEpisode() // the process has a past: failing configured Formatters and Parsers, since restored
	c.Extra("history_before_the_streams", "an episode of failing configured Formatter/Parser variables in all five packages")
	c.SetRule("for each of the five DefaultFormatter functions: boundary values x every format-flag subset (date 2, roman 128, sem 2, size 4, uu 2) x prefixes {empty, each single byte 0..255, strings over the formatter's own alphabet, text that means something to fmt/templates/regexp replacement and multi-byte text in front of the formatter's own letters (prefixes.go), seeded binary strings of length 1..40} x spare capacities {0,1,need-1,need,need+1,64,seeded} (all 0..64 in thorough); " +
		"the buffer is carved from a backing array with known content so in-place edits and writes past the capacity are visible; ID.URN against \"urn:uuid:\"+String for seeded IDs. " +
		"distinct_nontrivial counts distinct (formatter, value, flags, prefix) combinations whose prefix contains a byte the formatter can emit, each enumerated once")
	c.Assume("format(nil, v, f) is the reference for format(prefix, v, f); its own correctness is checked by C01/C02/C05/C13")
	{
		sc := rt.ReplayCtx("C16")
		bad := c16Formatter{name: "selftest", nValues: 1, nFlags: 1,
			call: func(buf []byte, vi, flag int) ([]byte, error) {
				for i := range buf {
					if buf[i] >= 'A' && buf[i] <= 'Z' {
						buf[i] += 32
					}
				}
				return append(buf, "xiv"...), nil
			}, describe: func(vi, flag int) string { return "synthetic in-place lower-casing formatter" }}
		sc.Serial("selftest", func(w *rt.W) { c16Case(w, &c16State{}, &bad, 0, 0, []byte("MIX:"), 4) })
		c.SelfTest("monitor-flags-in-place-edit", sc.Violations() >= 2)
		good := c16Formatter{name: "selftest", nValues: 1, nFlags: 1,
			call:     func(buf []byte, vi, flag int) ([]byte, error) { return append(buf, "xiv"...), nil },
			describe: func(vi, flag int) string { return "synthetic correct formatter" }}
		sc2 := rt.ReplayCtx("C16")
		sc2.Serial("selftest", func(w *rt.W) { c16Case(w, &c16State{}, &good, 0, 0, []byte("MIX:"), 2) })
		c.SelfTest("monitor-silent-on-correct-append", sc2.Violations() == 0)
	}

	fs := c16Formatters()
	// the exported Formatter variables are entry points of their own
	fs = append(fs,
		c16Formatter{name: "date.Formatter", nValues: len(c16Dates), nFlags: 2, alphabet: []string{"0123456789", "-"},
			call: func(buf []byte, vi, flag int) ([]byte, error) {
				return date.Formatter(buf, c16Dates[vi], date.Format(flag))
			},
			describe: func(vi, flag int) string { return fmt.Sprintf("date.Formatter value %d format=%d", vi, flag) }},
		c16Formatter{name: "roman.Formatter", nValues: len(c16Romans), nFlags: 128, alphabet: []string{"IVXLCDM", "mix:"},
			call: func(buf []byte, vi, flag int) ([]byte, error) {
				f, _ := romanFlags(flag)
				return roman.Formatter(buf, c16Romans[vi], f)
			},
			describe: func(vi, flag int) string { return fmt.Sprintf("roman.Formatter %d flags=%d", c16Romans[vi], flag) }},
		c16Formatter{name: "sem.Formatter", nValues: len(c16Sems), nFlags: 2, alphabet: []string{"v", "1.0.0-"},
			call: func(buf []byte, vi, flag int) ([]byte, error) {
				return sem.Formatter(buf, c16Sems[vi], sem.Format(flag))
			},
			describe: func(vi, flag int) string { return fmt.Sprintf("sem.Formatter %+v format=%d", c16Sems[vi], flag) }},
		c16Formatter{name: "size.Formatter", nValues: len(c16Sizes), nFlags: 4, alphabet: []string{"B", "&nbsp;", "9"},
			call: func(buf []byte, vi, flag int) ([]byte, error) {
				return size.Formatter(buf, c16Sizes[vi], size.Format(flag))
			},
			describe: func(vi, flag int) string {
				return fmt.Sprintf("size.Formatter %d format=%d", uint64(c16Sizes[vi]), flag)
			}},
		c16Formatter{name: "uu.Formatter", nValues: len(c16IDs), nFlags: 2, alphabet: []string{"urn:uuid:", "0123456789abcdef"},
			call: func(buf []byte, vi, flag int) ([]byte, error) { return uu.Formatter(buf, c16IDs[vi], uu.Format(flag)) },
			describe: func(vi, flag int) string {
				return fmt.Sprintf("uu.Formatter %016x%016x format=%d", c16IDs[vi].Higher, c16IDs[vi].Lower, flag)
			}},
	)
	nSeeded := c.Pick(24, 120)
	for fi := range fs {
		f := &fs[fi]
		// prefix set
		var prefixes [][]byte
		prefixes = append(prefixes, nil, []byte{})
		for b := 0; b < 256; b++ {
			prefixes = append(prefixes, []byte{byte(b)})
		}
		for _, a := range f.alphabet {
			prefixes = append(prefixes, []byte(a), []byte(a+a), []byte("#"+a))
		}
		for _, n := range []int{64, 100, 200, 255, 256, 257, 300, 400, 512, 700, 1000, 1024, 1500, 2048, 3000, 4095, 4096, 4097, 70000} { // existing content of every size class (a line, a log buffer, a page)
			prefixes = append(prefixes, []byte(strings.Repeat(f.alphabet[0], n/len(f.alphabet[0])+1)[:n]))
		}
		prefixes = append(prefixes, textPrefixes(f.alphabet)...)
		rg := rt.NewRand(c.Seed, "C16/prefix/"+f.name, 0)
		for i := 0; i < nSeeded; i++ {
			prefixes = append(prefixes, rg.Bytes(1+rg.Intn(40)))
		}
		emits := map[byte]bool{}
		for vi := 0; vi < f.nValues; vi++ {
			for flag := 0; flag < f.nFlags; flag++ {
				o, _ := c16Call(f, nil, vi, flag)
				for _, b := range o {
					emits[b] = true
				}
			}
		}
		type job struct{ vi, flag int }
		var jobs []job
		for vi := 0; vi < f.nValues; vi++ {
			for flag := 0; flag < f.nFlags; flag++ {
				jobs = append(jobs, job{vi, flag})
			}
		}
		c.Parallel("append/"+f.name, 0, func(w *rt.W) {
			st := &c16State{}
			for ji := w.Shard; ji < len(jobs); ji += w.NShards {
				j := jobs[ji]
				o, _ := c16Call(f, nil, j.vi, j.flag)
				need := len(o)
				for _, p := range prefixes {
					var spares []int
					if c.Quick() {
						spares = []int{0, 1, need - 1, need, need + 1, 64, w.Rng.Intn(65), 65 + w.Rng.Intn(64), 2*need + 3, 128, 1000 + w.Rng.Intn(3000)}
					} else {
						for s := 0; s <= 64; s++ {
							spares = append(spares, s)
						}
						spares = append(spares, need-1, need, need+1, 2*need+3, 65, 66, 67, 96, 127, 128, 129, 255, 256, 1024, 4096)
					}
					for _, s := range spares {
						if s < 0 {
							continue
						}
						c16Case(w, st, f, j.vi, j.flag, p, s)
					}
					nontriv := false
					for _, b := range p {
						if emits[b] {
							nontriv = true
						}
					}
					if nontriv {
						w.NT(1)
						w.ClassN(f.name+"-prefix-with-emittable-byte", 1)
					}
					if len(p) > 1 && nontriv && w.Class(f.name+"-sample") {
						w.Sample(f.name, map[string]any{"value": f.describe(j.vi, j.flag), "prefix": string(p), "result": string(append(append([]byte(nil), p...), o...))})
					}
				}
			}
		})
		c.Require(f.name+"-prefix-with-emittable-byte", 100)
	}

	// the arrays the caller keeps: a buffer too small for the result is outgrown (the formatter returns a new array), but
	// it is still the caller's - log lines, records, pooled buffers live on. Buffers of capacity 64..4096 with little
	// room are formatted into, then hundreds of later calls of every formatter run, then the old arrays and the old
	// results are compared with what they held.
	c.Serial("callers-arrays-after-later-calls", func(w *rt.W) {
		type kept struct {
			f        string
			backing  []byte
			plen     int
			out      []byte
			outCopy  string
			describe string
		}
		var ks []kept
		pat := func(n, salt int) []byte {
			b := make([]byte, n)
			for i := range b {
				b[i] = "0123456789abcdefIVXLCDMivxlcdm-.+ vKiB:urn"[(i*7+salt)%42]
			}
			return b
		}
		for fi := range fs[:5] {
			f := &fs[fi]
			for _, capacity := range []int{64, 96, 128, 256, 512, 1024, 2048, 4096} {
				for _, spare := range []int{0, 1, 4, 9} {
					for vi := 0; vi < f.nValues; vi += 1 + f.nValues/4 {
						flag := (vi + spare) % f.nFlags
						plen := capacity - spare
						backing := make([]byte, capacity)
						copy(backing, pat(plen, capacity+spare+vi))
						out, err := f.call(backing[:plen:capacity], vi, flag)
						w.Eval(1)
						if err != nil {
							continue
						}
						ks = append(ks, kept{f.name, backing, plen, out, string(out), f.describe(vi, flag)})
					}
				}
			}
		}
		for round := 0; round < 3; round++ {
			for fi := range fs[:5] {
				f := &fs[fi]
				for vi := 0; vi < f.nValues; vi++ {
					_, _ = f.call(nil, vi, vi%f.nFlags)
					_, _ = f.call(make([]byte, 3, 8), vi, (vi+1)%f.nFlags)
					_, _ = f.call(append(make([]byte, 0, 70), "log: "...), vi, 0)
				}
			}
		}
		for _, k := range ks {
			w.Eval(2)
			if string(k.out) != k.outCopy {
				w.Fail("kept-result-changed-by-later-calls-"+k.f, "keptarrays", rt.Args("formatter", k.f, "value", k.describe, "capacity", cap(k.backing), "prefix_len", k.plen), string(k.out), k.outCopy, "a result kept by the caller changed while later formatting calls ran")
				break
			}
		}
		for _, k := range ks {
			// the prefix was generated from (capacity, spare, vi); recompute it from the result, whose head is the prefix
			if string(k.backing[:k.plen]) != k.outCopy[:k.plen] {
				w.Fail("callers-outgrown-array-written-by-later-calls-"+k.f, "keptarrays", rt.Args("formatter", k.f, "value", k.describe, "capacity", cap(k.backing), "prefix_len", k.plen), string(k.backing[:k.plen]), k.outCopy[:k.plen], "the caller's own array, outgrown by the result, was written to by later formatting calls")
				break
			}
			w.ClassN("callers-array-rechecked-after-later-calls", 1)
		}
	})
	c.Require("callers-array-rechecked-after-later-calls", 300)

	// every history of three formatting calls over a few values and flags per formatter, on one goroutine (a formatter
	// that remembers its last value, flags or result shows only when nothing else runs in between)
	for fi := range fs[:5] {
		f := &fs[fi]
		var steps []func(w *rt.W)
		st := &c16State{}
		nv := f.nValues
		if nv > 5 {
			nv = 5
		}
		flags := []int{0, f.nFlags - 1}
		if f.nFlags > 2 {
			flags = append(flags, 1, f.nFlags/2)
		}
		for vi := 0; vi < nv; vi++ {
			for _, fl := range flags {
				vi, fl := vi, fl
				steps = append(steps, func(w *rt.W) { c16Case(w, st, f, vi, fl, []byte(f.alphabet[0]), 3) })
			}
		}
		if len(steps) > 14 {
			steps = steps[:14]
		}
		tripleHistories(c, steps)
	}

	// a megabyte or more already in the buffer (a log being built, a document): output caps and block sizes that count
	// the bytes that were there before; every formatter, a few values each
	c.Parallel("megabyte-prefixes", 0, func(w *rt.W) {
		lens := []int{1<<20 - 3, 1 << 20, 1<<20 + 5, 3<<20 + 1}
		for li := w.Shard; li < len(lens); li += w.NShards {
			prefix := []byte(strings.Repeat("vol. I ", lens[li]/7+1)[:lens[li]])
			for fi := range fs[:5] {
				f := &fs[fi]
				for vi := 0; vi < f.nValues; vi += 1 + f.nValues/6 {
					for _, flag := range []int{0, f.nFlags - 1} {
						ref0, err := f.call(nil, vi, flag)
						if err != nil {
							continue
						}
						for _, spare := range []int{0, len(ref0), 4096} {
							buf := append(make([]byte, 0, len(prefix)+spare), prefix...)
							out, err := f.call(buf, vi, flag)
							w.Eval(1)
							if err != nil || len(out) != len(prefix)+len(ref0) || !bytes.Equal(out[len(prefix):], ref0) || !bytes.Equal(out[:len(prefix)], prefix) {
								tail := out
								if len(tail) > 40 {
									tail = tail[len(tail)-40:]
								}
								w.Fail("result-behind-megabyte-prefix-"+f.name, "appendmb", rt.Args("formatter", f.name, "vi", vi, "flag", flag, "prefix", fmt.Sprintf("%d bytes of 'vol. I '", len(prefix)), "spare", spare, "value", f.describe(vi, flag)), fmt.Sprintf("%d bytes ending %q err=%v", len(out), tail, err), fmt.Sprintf("%d bytes ending %q", len(prefix)+len(ref0), ref0), "formatting behind a prefix of a megabyte or more must return prefix ++ format(nil)")
							}
						}
					}
				}
			}
			w.ClassN("megabyte-prefix", 1)
		}
	})
	c.Require("megabyte-prefix", 4)

	// very long results behind a prefix: numerals of several megabytes (block-wise writers copy from positions
	// computed without the prefix), a few flags, prefixes and capacities each
	c.Parallel("long-roman-results", 0, func(w *rt.W) {
		ns := []roman.Number{4095000, 4096000, 4097999, 8191000, 8192000, 8193444, 9000000}
		for i := w.Shard; i < len(ns); i += w.NShards {
			for _, f := range []roman.Format{0, roman.FormatLong | roman.FormatLowerCase} {
				ref0, err := roman.DefaultFormatter(nil, ns[i], f)
				if err != nil {
					continue
				}
				for _, prefix := range []string{"AB", "M", "MIX: ", "x", strings.Repeat("vol. ", 900)} {
					for _, spare := range []int{0, 7, len(ref0), len(ref0) + 1} {
						buf := append(make([]byte, 0, len(prefix)+spare), prefix...)
						var out []byte
						panicked, msg := rt.Call(func() { out, err = roman.DefaultFormatter(buf, ns[i], f) })
						w.Eval(1)
						ok := !panicked && err == nil && len(out) == len(prefix)+len(ref0) && string(out[:len(prefix)]) == prefix && bytes.Equal(out[len(prefix):], ref0)
						if !ok {
							at := -1
							for k := 0; k < len(out) && k < len(prefix)+len(ref0); k++ {
								want := byte(0)
								if k < len(prefix) {
									want = prefix[k]
								} else {
									want = ref0[k-len(prefix)]
								}
								if out[k] != want {
									at = k
									break
								}
							}
							w.Fail("long-result-behind-prefix-roman", "longroman", rt.Args("n", uint64(ns[i]), "format", int(f), "prefix", prefix, "spare", spare), fmt.Sprintf("%d bytes, first difference at offset %d, panic=%v %s err=%v", len(out), at, panicked, firstLine(msg), err), fmt.Sprintf("%d bytes: prefix ++ format(nil)", len(prefix)+len(ref0)), "formatting a very long numeral into a caller buffer must return prefix ++ format(nil)")
						}
					}
				}
			}
			w.ClassN("long-roman-result", 1)
			w.NT(1)
		}
	})
	c.Require("long-roman-result", 7)

	nIDs := c.Pick(200000, 20000000)
	c.Parallel("urn", 0, func(w *rt.W) {
		for i := 0; i < nIDs/w.NShards; i++ {
			id := uu.ID{Higher: w.Rng.U64(), Lower: w.Rng.U64()}
			if i < len(c16IDs) {
				id = c16IDs[i]
			}
			w.Eval(1)
			if got, want := id.URN(), "urn:uuid:"+id.String(); got != want {
				w.Fail("urn", "urn", rt.Args("hi", fmt.Sprint(id.Higher), "lo", fmt.Sprint(id.Lower)), got, want, "URN rendering must be urn:uuid: followed by the plain rendering")
			}
			w.NTHash(rt.HashU(id.Higher, id.Lower))
		}
		w.ClassN("urn-vs-string", int64(nIDs/w.NShards))
	})
	c.Require("urn-vs-string", 1000)
}
