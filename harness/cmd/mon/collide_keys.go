package main

// collidingKeys lists lower-case object keys whose checksum equals that of "value" or
// "unit" under one of the weakHashes (found offline by cmd/keycollide, an exhaustive
// search over all lower-case keys of up to seven letters). verifyCollidingKeys
// recomputes every entry, so the table needs no trust.
var collidingKeys = []struct{ hash, target, key string }{
	{"adler32", "unit", "hyze"},
	{"adler32", "unit", "hzxf"},
	{"adler32", "unit", "ixyf"},
	{"adler32", "unit", "iywg"},
	{"adler32", "value", "axyja"},
	{"adler32", "value", "axzhb"},
	{"adler32", "value", "aywka"},
	{"adler32", "value", "ayxib"},
	{"byte-sum", "unit", "akzz"},
	{"byte-sum", "unit", "alyz"},
	{"byte-sum", "unit", "alzy"},
	{"byte-sum", "unit", "amxz"},
	{"byte-sum", "value", "aagzz"},
	{"byte-sum", "value", "aahyz"},
	{"byte-sum", "value", "aahzy"},
	{"byte-sum", "value", "aaixz"},
	{"crc32-castagnoli", "unit", "ruqgccl"},
	{"crc32-castagnoli", "unit", "wpxdwfr"},
	{"crc32-castagnoli", "value", "gfnzhiv"},
	{"crc32-ieee", "unit", "botdjvu"},
	{"crc32-ieee", "unit", "nsrhkxs"},
	{"crc32-ieee", "value", "vxdbsh"},
	{"crc32-ieee", "value", "fkhcbjx"},
	{"crc32-ieee", "value", "uvjzrhw"},
	{"crc32-ieee", "value", "yjlvsfq"},
	{"djb2-33", "unit", "oufmwzx"},
	{"djb2-33", "unit", "ytnjcuc"},
	{"djb2-33", "value", "nonpso"},
	{"djb2-33", "value", "dhtvbbc"},
	{"djb2-33", "value", "qrtfhes"},
	{"fnv1-32", "unit", "oldunws"},
	{"fnv1-32", "unit", "xytckrc"},
	{"fnv1-32", "unit", "yicptox"},
	{"fnv1-32", "value", "atgtizb"},
	{"fnv1-32", "value", "ejtgfts"},
	{"fnv1-32", "value", "gcmubti"},
	{"fnv1a-32", "unit", "bdumvbd"},
	{"fnv1a-32", "value", "uessnhu"},
	{"fnv1a-32", "value", "vccjxct"},
	{"fnv1a-32", "value", "wqqnmsx"},
	{"fnv1a-64-folded", "unit", "ryegqly"},
	{"fnv1a-64-folded", "value", "ulceiql"},
	{"fnv1a-64-low", "unit", "mbtofr"},
	{"fnv1a-64-low", "unit", "qyusuxg"},
	{"fnv1a-64-low", "value", "fipuioi"},
	{"fnv1a-64-low", "value", "jhdbwxh"},
	{"java-31", "unit", "bmkfstk"},
	{"java-31", "unit", "ghkzrmo"},
	{"java-31", "unit", "lcloqfs"},
	{"java-31", "value", "lgezord"},
	{"java-31", "value", "qbfonkh"},
}

// verifyCollidingKeys reports how many entries really collide under their named function.
func verifyCollidingKeys() (ok int, bad []string) {
	for _, e := range collidingKeys {
		found := false
		for _, wh := range weakHashes {
			if wh.name == e.hash && wh.f(e.key) == wh.f(e.target) && e.key != e.target {
				found = true
			}
		}
		if found {
			ok++
		} else {
			bad = append(bad, e.hash+":"+e.key)
		}
	}
	return ok, bad
}
