package main

import (
	"encoding/json"
	"fmt"
	"io"
	"os"
	"os/exec"
	"runtime"
	"strings"
	"sync"
	"sync/atomic"
	"syscall"
	"unsafe"

	"verif/rt"
)

// Cold-start children. Some defects exist only in a process that has not yet done anything
// else with the package: tables built lazily on first use, a first call that happens to be an
// unusual one, first calls arriving from many goroutines at once. The sharded workloads warm the
// process up within microseconds, so each cold case runs in a freshly started child: `mon Cxx`
// re-executes itself with VERIF_COLD=Cxx/<index>, the child performs the indexed first operation
// (alone or from 16 goroutines released together), then a short monitored workload, and hands
// its witnesses back to the parent.

var coldCases = map[string]func(c *rt.Ctx, idx int){}

type coldReport struct {
	Violations []rt.Violation
	Total      int64
	Evals      int64
}

func coldChildMain(spec string) {
	parts := strings.SplitN(spec, "/", 2)
	f, ok := coldCases[parts[0]]
	if !ok || len(parts) != 2 {
		fmt.Println("COLD-RESULT {}")
		return
	}
	var idx int
	fmt.Sscan(parts[1], &idx)
	c := rt.ReplayCtx(parts[0])
	func() {
		defer func() {
			if r := recover(); r != nil {
				c.Fail("panic-in-cold-start", "cold", rt.Args("index", idx), fmt.Sprint("panic: ", r), "no panic", "a first call in a fresh process panicked")
			}
		}()
		f(c, idx)
	}()
	vs, n, ev := c.ExportViolations()
	b, _ := json.Marshal(coldReport{vs, n, ev})
	if os.Getenv("VERIF_COLD_FD") == "3" { // standard output may be /dev/null, a file or a terminal in this child
		f := os.NewFile(3, "result")
		fmt.Fprintln(f, "COLD-RESULT "+string(b))
		f.Close()
		return
	}
	fmt.Println("COLD-RESULT " + string(b))
}

// coldStdio gives child i its standard streams: what a library may look at when it starts (is standard
// output a terminal, a character device, a file?) differs between a test run and production. The
// result travels over descriptor 3. Returns a description and a cleanup function.
func coldStdio(cmd *exec.Cmd, i int) (string, func()) {
	null := func(flag int) *os.File { f, _ := os.OpenFile(os.DevNull, flag, 0); return f }
	switch i % 4 {
	case 1:
		in, out := null(os.O_RDONLY), null(os.O_WRONLY)
		cmd.Stdin, cmd.Stdout = in, out
		return "stdin and stdout are /dev/null", func() { in.Close(); out.Close() }
	case 2:
		f, err := os.CreateTemp("", "verif-cold-stdout-")
		if err == nil {
			cmd.Stdout = f
			return "stdout is a regular file, stdin closed", func() { f.Close(); os.Remove(f.Name()) }
		}
	case 3:
		if m, sl, err := openPty(); err == nil {
			cmd.Stdin, cmd.Stdout = sl, sl
			return "stdin and stdout are a pseudo-terminal", func() { sl.Close(); m.Close() }
		}
		out := null(os.O_WRONLY)
		cmd.Stdout = out
		return "stdout is /dev/null (no pseudo-terminal available)", func() { out.Close() }
	}
	return "stdout is a pipe", func() {}
}

// openPty opens a pseudo-terminal pair through /dev/ptmx.
func openPty() (master, slave *os.File, err error) {
	master, err = os.OpenFile("/dev/ptmx", os.O_RDWR|syscall.O_NOCTTY, 0)
	if err != nil {
		return nil, nil, err
	}
	var n uint32
	var unlock int32
	if _, _, e := syscall.Syscall(syscall.SYS_IOCTL, master.Fd(), syscall.TIOCSPTLCK, uintptr(unsafe.Pointer(&unlock))); e != 0 {
		master.Close()
		return nil, nil, e
	}
	if _, _, e := syscall.Syscall(syscall.SYS_IOCTL, master.Fd(), syscall.TIOCGPTN, uintptr(unsafe.Pointer(&n))); e != 0 {
		master.Close()
		return nil, nil, e
	}
	slave, err = os.OpenFile(fmt.Sprintf("/dev/pts/%d", n), os.O_RDWR|syscall.O_NOCTTY, 0)
	if err != nil {
		master.Close()
		return nil, nil, err
	}
	return master, slave, nil
}

// coldStart runs n cold cases of prop in fresh child processes and merges what they observed.
func coldStart(c *rt.Ctx, prop string, n int) {
	var mu sync.Mutex
	var wg sync.WaitGroup
	sem := make(chan struct{}, 8)
	done := 0
	streams := map[string]int{}
	for i := 0; i < n; i++ {
		wg.Add(1)
		sem <- struct{}{}
		go func(i int) {
			defer wg.Done()
			defer func() { <-sem }()
			cmd := exec.Command(os.Args[0], prop)
			cmd.Env = append(coldEnv(i), fmt.Sprintf("VERIF_COLD=%s/%d", prop, i), "GOTRACEBACK=single", "VERIF_COLD_FD=3")
			pr, pw, perr := os.Pipe()
			if perr != nil {
				c.Inconclusive("cannot create a pipe for a cold child: " + perr.Error())
				return
			}
			cmd.ExtraFiles = []*os.File{pw}
			var errb strings.Builder
			cmd.Stderr = &errb
			stdio, cleanup := coldStdio(cmd, i)
			err := cmd.Start()
			pw.Close()
			var out []byte
			if err == nil {
				out, _ = io.ReadAll(pr)
				err = cmd.Wait()
			}
			pr.Close()
			cleanup()
			out = append(out, errb.String()...)
			mu.Lock()
			defer mu.Unlock()
			streams[stdio]++
			line := ""
			for _, l := range strings.Split(string(out), "\n") {
				if strings.HasPrefix(l, "COLD-RESULT ") {
					line = strings.TrimPrefix(l, "COLD-RESULT ")
				}
			}
			var rep coldReport
			if line == "" || json.Unmarshal([]byte(line), &rep) != nil {
				tail := string(out)
				if len(tail) > 1500 {
					tail = tail[len(tail)-1500:]
				}
				c.Fail("cold-child-died", "cold", rt.Args("index", i, "output", tail), fmt.Sprint("child died: ", err), "normal exit", "a fresh process died during its first calls\n"+tail)
				return
			}
			for _, v := range rep.Violations {
				if v.Args == nil {
					v.Args = map[string]any{}
				}
				v.Args["cold_start_index"] = i
				v.Args["environment"] = strings.Join(hostileEnvs[i%len(hostileEnvs)], " ")
				v.Args["standard_streams"] = stdio
				v.Key = "cold-start:" + v.Key
				c.ImportViolation(v)
			}
			c.AddEvals(rep.Evals)
			done++
		}(i)
	}
	wg.Wait()
	c.Extra("cold_start_children", done)
	c.Extra("cold_start_environments", len(hostileEnvs))
	c.Extra("cold_start_standard_streams", streams)
	if done < n {
		c.Inconclusive(fmt.Sprintf("only %d of %d cold-start children reported", done, n))
	}
}

// hostileEnvs are the locale and zone settings real installations have and the sandbox has not. The
// values a library computes must not depend on them; each cold child runs under one of them
// (index modulo 11, so that every first operation meets several settings).
var hostileEnvs = [][]string{
	{},
	{"LC_ALL=en_US.UTF-8"},
	{"LC_NUMERIC=de_DE.UTF-8"},
	{"LANG=fr_FR.UTF-8", "LANGUAGE=fr:en"},
	{"LC_ALL=C"},
	{"TZ=America/St_Johns"},
	{"LC_NUMERIC=en_US.UTF-8", "LANG=cs_CZ.UTF-8"},
	{"LC_ALL=ja_JP.eucJP", "TZ=Asia/Tokyo"},
	{"LC_ALL=tr_TR.UTF-8", "LANG=tr_TR.UTF-8"},
	{"LANG=en_IN", "LC_NUMERIC=en_IN"},
	{"TZ=Pacific/Apia", "LC_TIME=ar_SA.UTF-8", "LC_MONETARY=de_CH.UTF-8", "LC_CTYPE=el_GR.UTF-8"},
}

// coldEnv is the parent's environment without locale and zone variables, plus the i-th hostile setting.
func coldEnv(i int) []string {
	var env []string
	for _, kv := range os.Environ() {
		if strings.HasPrefix(kv, "LC_") || strings.HasPrefix(kv, "LANG=") || strings.HasPrefix(kv, "LANGUAGE=") || strings.HasPrefix(kv, "TZ=") {
			continue
		}
		env = append(env, kv)
	}
	return append(env, hostileEnvs[i%len(hostileEnvs)]...)
}

// coldGeneric builds a cold case from a list of first operations and a short monitored workload.
func coldGeneric(first []func(), work func(w *rt.W, k int), nWork int) func(c *rt.Ctx, idx int) {
	return func(c *rt.Ctx, idx int) {
		f := first[idx%len(first)]
		if idx >= len(first) { // first calls arrive from 16 goroutines at once
			var ready int32
			c.Parallel("cold", 16, func(w *rt.W) {
				coldBarrier(&ready, 16)
				f()
				for k := 0; k < 3; k++ {
					work(w, (w.Shard+k*5)%nWork)
				}
			})
			return
		}
		c.Serial("cold", func(w *rt.W) {
			f()
			for k := 0; k < nWork; k++ {
				work(w, k)
			}
		})
	}
}

// coldBarrier releases n goroutines together (spin barrier: the point is that their first calls overlap).
func coldBarrier(ready *int32, n int32) {
	atomic.AddInt32(ready, 1)
	for spins := 0; atomic.LoadInt32(ready) < n && spins < 50000000; spins++ {
		if spins%1000 == 999 {
			runtime.Gosched()
		}
	}
}
