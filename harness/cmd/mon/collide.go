package main

import (
	"verif/rt"

	"hash/adler32"
	"hash/crc32"
	"hash/fnv"
	"sort"
	"sync"
)

// A result remembered between calls under a weak key (a checksum instead of the
// text) is only wrong when two different inputs with the same key follow each other,
// which enumeration in natural order or random sampling essentially never produces.
// collisionPairs searches a universe of valid texts for pairs of equal length that
// collide under the cheap hash functions such a key would plausibly use; the caller
// then feeds each pair back to back, in both orders, to the monitored entry points.

type weakHash struct {
	name string
	f    func(s string) uint32
}

var weakHashes = []weakHash{
	{"fnv1a-32", func(s string) uint32 { h := fnv.New32a(); h.Write([]byte(s)); return h.Sum32() }},
	{"fnv1-32", func(s string) uint32 { h := fnv.New32(); h.Write([]byte(s)); return h.Sum32() }},
	{"crc32-ieee", func(s string) uint32 { return crc32.ChecksumIEEE([]byte(s)) }},
	{"crc32-castagnoli", func(s string) uint32 { return crc32.Checksum([]byte(s), crc32.MakeTable(crc32.Castagnoli)) }},
	{"adler32", func(s string) uint32 { return adler32.Checksum([]byte(s)) }},
	{"java-31", func(s string) uint32 {
		var h uint32
		for i := 0; i < len(s); i++ {
			h = h*31 + uint32(s[i])
		}
		return h
	}},
	{"djb2-33", func(s string) uint32 {
		h := uint32(5381)
		for i := 0; i < len(s); i++ {
			h = h*33 + uint32(s[i])
		}
		return h
	}},
	{"byte-sum", func(s string) uint32 {
		var h uint32
		for i := 0; i < len(s); i++ {
			h += uint32(s[i])
		}
		return h
	}},
	{"byte-xor-rotate", func(s string) uint32 {
		var h uint32
		for i := 0; i < len(s); i++ {
			h = (h<<5 | h>>27) ^ uint32(s[i])
		}
		return h
	}},
	{"fnv1a-64-folded", func(s string) uint32 {
		h := fnv.New64a()
		h.Write([]byte(s))
		v := h.Sum64()
		return uint32(v) ^ uint32(v>>32)
	}},
	{"fnv1a-64-low", func(s string) uint32 { h := fnv.New64a(); h.Write([]byte(s)); return uint32(h.Sum64()) }},
}

type collision struct {
	hash string
	a, b string
}

func collisionPairs(texts []string, maxPerHash int) []collision {
	var out []collision
	type hv struct {
		h   uint32
		l   uint32
		idx int32
	}
	var mu sync.Mutex
	var wg sync.WaitGroup
	for _, wh := range weakHashes {
		wh := wh
		wg.Add(1)
		go func() {
			defer wg.Done()
			hs := make([]hv, len(texts))
			var local []collision
			for i, t := range texts {
				hs[i] = hv{wh.f(t), uint32(len(t)), int32(i)}
			}
			sort.Slice(hs, func(i, j int) bool {
				if hs[i].h != hs[j].h {
					return hs[i].h < hs[j].h
				}
				return hs[i].l < hs[j].l
			})
			n := 0
			for i := 1; i < len(hs) && n < maxPerHash; i++ {
				if hs[i].h == hs[i-1].h && hs[i].l == hs[i-1].l && texts[hs[i].idx] != texts[hs[i-1].idx] {
					local = append(local, collision{wh.name, texts[hs[i-1].idx], texts[hs[i].idx]})
					n++
					i += 3 // spread over the hash range instead of taking runs of one bucket
				}
			}
			mu.Lock()
			out = append(out, local...)
			mu.Unlock()
		}()
	}
	wg.Wait()
	sort.Slice(out, func(i, j int) bool {
		if out[i].hash != out[j].hash {
			return out[i].hash < out[j].hash
		}
		return out[i].a+out[i].b < out[j].a+out[j].b
	})
	return out
}

// collisionHistories feeds every colliding pair back to back (a b a / b a b / a a b b) to visit,
// which runs the property's normal monitor on one text.
func collisionHistories(c *rt.Ctx, texts []string, maxPerHash int, minPairs int64, visit func(w *rt.W, t string)) {
	cols := collisionPairs(texts, maxPerHash)
	c.Extra("checksum_collision_pairs", len(cols))
	c.Parallel("checksum-collisions", 0, func(w *rt.W) {
		for i := w.Shard; i < len(cols); i += w.NShards {
			a, b := cols[i].a, cols[i].b
			for _, seq := range [][]string{{a, b, a}, {b, a, b}, {a, a, b, b}} {
				for _, t := range seq {
					visit(w, t)
				}
			}
			w.ClassN("checksum-collision-pair:"+cols[i].hash, 1)
			w.ClassN("checksum-collision-pairs", 1)
		}
	})
	c.Require("checksum-collision-pairs", minPairs)
}
