package main

import (
	"errors"
	"fmt"
	"strconv"
	"time"

	"go.lstv.dev/util/date"

	"verif/ref"
	"verif/rt"
)

// C07 — Date ordering and arithmetic agree with the calendar.

func init() {
	props["C07"] = runC07
	replayers["C07/pair"] = func(v rt.Violation) string {
		c := rt.ReplayCtx("C07")
		c.Serial("replay", func(w *rt.W) { c07Pair(w, rt.ArgInt(v, "a_ordinal"), rt.ArgInt(v, "b_ordinal")) })
		return c.Report()
	}
	replayers["C07/add"] = func(v rt.Violation) string {
		c := rt.ReplayCtx("C07")
		c.Serial("replay", func(w *rt.W) {
			c07Add(w, rt.ArgInt(v, "a_ordinal"), int(rt.ArgInt(v, "years")), int(rt.ArgInt(v, "months")), int(rt.ArgInt(v, "days")))
		})
		return c.Report()
	}
	replayers["C07/addduration"] = func(v rt.Violation) string {
		c := rt.ReplayCtx("C07")
		c.Serial("replay", func(w *rt.W) {
			c07AddDuration(w, rt.ArgInt(v, "a_ordinal"), time.Duration(rt.ArgInt(v, "duration_ns")))
		})
		return c.Report()
	}
	replayers["C07/fromtimein"] = func(v rt.Violation) string {
		c := rt.ReplayCtx("C07")
		c.Serial("replay", func(w *rt.W) {
			if loc, err := time.LoadLocation(rt.ArgString(v, "zone")); err == nil {
				t := time.Unix(rt.ArgInt(v, "unix_sec"), 0).In(loc)
				for k := -96; k <= 0; k++ { // the two days before, in half-hour steps, then the instant itself
					c07FromTimeIn(w, t.Add(time.Duration(k)*30*time.Minute))
				}
				for k := 96; k >= 0; k-- { // and coming from the two days after
					c07FromTimeIn(w, t.Add(time.Duration(k)*30*time.Minute))
				}
			}
		})
		return c.Report()
	}
	replayers["C07/fromtime"] = func(v rt.Violation) string {
		c := rt.ReplayCtx("C07")
		c.Serial("replay", func(w *rt.W) { c07FromTime(w, rt.ArgInt(v, "unix_sec"), int(rt.ArgInt(v, "offset_sec"))) })
		return c.Report()
	}
}

const maxDurDays = 106751 // floor((2^63-1) ns / 24h)

func c07Pair(w *rt.W, oa, ob int64) {
	a, b := ordDate(oa), ordDate(ob)
	fail := func(key, got, want string) {
		w.Fail(key, "pair", rt.Args("a_ordinal", oa, "b_ordinal", ob, "a", ordText(oa), "b", ordText(ob)), got, want, "ordering/difference disagrees with day ordinals: "+key)
	}
	bef, aft, eq := a.Before(b), a.After(b), a.Equal(b)
	w.Eval(3)
	if bef != (oa < ob) || aft != (oa > ob) || eq != (oa == ob) {
		fail("ordering", fmt.Sprintf("before=%v equal=%v after=%v", bef, eq, aft), fmt.Sprintf("before=%v equal=%v after=%v", oa < ob, oa == ob, oa > ob))
	}
	n := 0
	for _, x := range []bool{bef, aft, eq} {
		if x {
			n++
		}
	}
	if n != 1 {
		fail("not-exactly-one-of-before-equal-after", fmt.Sprintf("before=%v equal=%v after=%v", bef, eq, aft), "exactly one true")
	}
	delta := oa - ob
	if delta > maxDurDays || delta < -maxDurDays {
		w.DontCare("difference beyond time.Duration's range")
		return
	}
	w.Eval(2)
	if got, want := a.Sub(b), time.Duration(delta)*24*time.Hour; got != want {
		fail("sub", got.String(), want.String())
	}
	if got := a.DaysBetween(b); int64(got) != delta {
		fail("daysbetween", fmt.Sprint(got), fmt.Sprint(delta))
	}
}

func c07CheckDate(w *rt.W, key, op string, args map[string]any, got date.Date, wy int64, wm, wd int) {
	gy, gm, gd := got.Date()
	if int64(gy) != wy || int(gm) != wm || gd != wd || got.Year() != gy || got.Month() != gm || got.Day() != gd {
		w.Fail(key, op, args, fmt.Sprintf("%d-%02d-%02d", gy, int(gm), gd), fmt.Sprintf("%d-%02d-%02d", wy, wm, wd), "result disagrees with the proleptic Gregorian calendar reference: "+key)
	}
}

func c07Add(w *rt.W, oa int64, years, months, days int) {
	y, m, d := ref.Civil(oa)
	wy, wm, wd := ref.AddDate(y, m, d, int64(years), int64(months), int64(days))
	if wy < -2000000000 || wy > 2000000000 {
		w.DontCare("result outside int32 years")
		return
	}
	got := ordDate(oa).Add(years, months, days)
	w.Eval(1)
	c07CheckDate(w, "add", "add", rt.Args("a_ordinal", oa, "a", ordText(oa), "years", years, "months", months, "days", days), got, wy, wm, wd)
}

func floorDiv64(a, b int64) int64 {
	q := a / b
	if a%b != 0 && (a < 0) != (b < 0) {
		q--
	}
	return q
}

func c07AddDuration(w *rt.W, oa int64, dur time.Duration) {
	wo := oa + floorDiv64(int64(dur), int64(24*time.Hour))
	wy, wm, wd := ref.Civil(wo)
	got := ordDate(oa).AddDuration(dur)
	w.Eval(1)
	c07CheckDate(w, "addduration", "addduration", rt.Args("a_ordinal", oa, "a", ordText(oa), "duration_ns", int64(dur), "duration", dur.String()), got, wy, wm, wd)
}

// c07FromTimeIn checks the conversion of one instant shown in a real (tz database) location: the date is the one
// the instant's own zone offset gives, whatever was converted before with the same location.
func c07FromTimeIn(w *rt.W, t time.Time) {
	_, off := t.Zone()
	wy, wm, wd := ref.Civil(floorDiv64(t.Unix()+int64(off), 86400))
	args := rt.Args("unix_sec", t.Unix(), "offset_sec", off, "zone", t.Location().String(), "time", t.Format(time.RFC3339))
	c07CheckDate(w, "fromtime-func-in-location", "fromtimein", args, date.FromTime(t), wy, wm, wd)
	var d date.Date
	d.FromTime(t)
	c07CheckDate(w, "fromtime-method-in-location", "fromtimein", args, d, wy, wm, wd)
	s := date.New(1234, 5, 6)
	if err := s.Scan(t); err != nil {
		w.Fail("scan-error", "fromtimein", args, err.Error(), "nil", "Scan(time.Time) must succeed")
	}
	c07CheckDate(w, "scan-in-location", "fromtimein", args, s, wy, wm, wd)
	w.Eval(3)
}

// c07FromTime checks conversion of the instant unixSec shown in a fixed zone.
func c07FromTime(w *rt.W, unixSec int64, offset int) {
	// the zone's name says nothing about its offset: zones called UTC, GMT, Local or nothing at all are legal for any offset
	name := []string{"Z", "UTC", "GMT", "Local", "", "UTC+2", "CET", "utc"}[uint64(unixSec^int64(offset)*31)%8]
	t := time.Unix(unixSec, 0).In(time.FixedZone(name, offset))
	if t.IsZero() {
		w.DontCare("zero time.Time")
		return
	}
	wy, wm, wd := ref.Civil(floorDiv64(unixSec+int64(offset), 86400))
	args := rt.Args("unix_sec", unixSec, "offset_sec", offset, "time", t.Format(time.RFC3339), "zone_name", name)
	c07CheckDate(w, "fromtime-func", "fromtime", args, date.FromTime(t), wy, wm, wd)
	var d date.Date
	d.FromTime(t)
	c07CheckDate(w, "fromtime-method", "fromtime", args, d, wy, wm, wd)
	// receivers that already hold a date (the UTC day of the instant, its neighbours, an unrelated day)
	// must be overwritten completely: no dependence on the previous content
	for _, prev := range []int64{floorDiv64(unixSec, 86400), floorDiv64(unixSec, 86400) - 1, floorDiv64(unixSec, 86400) + 1, 0, 11016} {
		r := ordDate(prev)
		r.FromTime(t)
		c07CheckDate(w, "fromtime-method-on-used-receiver", "fromtime", args, r, wy, wm, wd)
		r2 := ordDate(prev)
		if err := r2.Scan(t); err != nil {
			w.Fail("scan-error", "fromtime", args, err.Error(), "nil", "Scan(time.Time) must succeed")
		}
		c07CheckDate(w, "scan-on-used-receiver", "fromtime", args, r2, wy, wm, wd)
		w.Eval(2)
	}
	var s date.Date
	if err := s.Scan(t); err != nil {
		w.Fail("scan-error", "fromtime", args, err.Error(), "nil", "Scan(time.Time) must succeed")
	}
	c07CheckDate(w, "scan", "fromtime", args, s, wy, wm, wd)
	w.Eval(3)
}

func c07Time(w *rt.W, o int64) {
	y, m, d := ref.Civil(o)
	dt := ordDate(o)
	args := rt.Args("a_ordinal", o, "a", ordText(o))
	for _, p := range []struct {
		name string
		t    time.Time
	}{{"Time", dt.Time()}, {"Value", func() time.Time { v, err := dt.Value(); t, _ := v.(time.Time); _ = err; return t }()}} {
		t := p.t
		w.Eval(1)
		if t.Unix() != o*86400 || t.Nanosecond() != 0 || t.Location() != time.UTC || int64(t.Year()) != y || int(t.Month()) != m || t.Day() != d || t.Hour() != 0 || t.Minute() != 0 || t.Second() != 0 {
			w.Fail("time-not-midnight-utc", "pair", args, t.Format(time.RFC3339Nano)+" "+t.Location().String(), fmt.Sprintf("%04d-%02d-%02dT00:00:00Z UTC", y, m, d), p.name+"() must be midnight UTC of the same day")
		}
	}
	if dt.IsZero() != (y == 1 && m == 1 && d == 1) {
		w.Fail("iszero", "pair", args, fmt.Sprint(dt.IsZero()), fmt.Sprint(y == 1 && m == 1 && d == 1), "IsZero is true exactly for 0001-01-01")
	}
}

func c07Boundary() []int64 {
	seen := map[int64]bool{}
	var out []int64
	add := func(o int64) {
		if !seen[o] && o >= ref.Ordinal(0, 1, 1) && o <= ref.Ordinal(9999, 12, 31) {
			seen[o] = true
			out = append(out, o)
		}
	}
	years := []int64{0, 1, 2, 3, 4, 5, 99, 100, 101, 399, 400, 401, 1582, 1600, 1699, 1700, 1899, 1900, 1901, 1969, 1970, 1971, 1999, 2000, 2001, 2019, 2020, 2021, 2023, 2024, 2099, 2100, 2101, 2399, 2400, 9996, 9998, 9999}
	for _, y := range years {
		for m := 1; m <= 12; m++ {
			add(ref.Ordinal(y, m, 1))
			add(ref.Ordinal(y, m, ref.DaysIn(y, m)))
			add(ref.Ordinal(y, m, ref.DaysIn(y, m)) - 1)
			add(ref.Ordinal(y, m, 15))
		}
		add(ref.Ordinal(y, 2, 28))
	}
	return out
}

func runC07(c *rt.Ctx) {
	c.SetRule("(a) every adjacent pair (d, d+1) and (d, d) of the 3,652,425 dates of years 0000-9999: Before/After/Equal both ways, Sub, DaysBetween, Add(0,0,+-1), AddDuration(+-24h), Time, Value, IsZero (exhaustive); " +
		"(b) all ordered pairs of a boundary set (month ends, leap days, century years, years 0/1/1582/1970/9999); (c) Add over the boundary set x a (years, months, days) grid with negative and overflowing months/days; (d) AddDuration with k*24h + {-1ns,0,+1ns,+-12h}; " +
		"(e) FromTime/Scan for fixed-offset zones -12h..+14h every 30 min at instants +-1 s around local and UTC midnight. distinct_nontrivial counts distinct (op, operands) cases whose operands differ in at least two of year/month/day or cross a month boundary (enumerated once each)")
	c.Assume("day ordinals, civil-from-days and the AddDate normalisation rule come from harness/ref/civil.go; package time is used only to construct inputs and as the carrier of results")
	{
		y, m, d := ref.AddDate(2021, 1, 31, 0, 1, 0)
		c.SelfTest("adddate-jan31-plus-month=mar03", y == 2021 && m == 3 && d == 3)
		y, m, d = ref.AddDate(2020, 2, 29, 1, 0, 0)
		c.SelfTest("adddate-leapday-plus-year=mar01", y == 2021 && m == 3 && d == 1)
		y, m, d = ref.AddDate(2021, 3, 31, 0, -13, 0)
		c.SelfTest("adddate-negative-months", y == 2020 && m == 3 && d == 2)
		y, m, d = ref.AddDate(2021, 1, 1, 0, 0, -1)
		c.SelfTest("adddate-minus-day", y == 2020 && m == 12 && d == 31)
		c.SelfTest("ordinal-difference", ref.Ordinal(2000, 3, 1)-ref.Ordinal(1900, 3, 1) == 36525 && ref.Ordinal(1970, 1, 1)-ref.Ordinal(1, 1, 1) == 719162)
		sc := rt.ReplayCtx("C07")
		sc.Serial("selftest", func(w *rt.W) { c07CheckDate(w, "k", "add", nil, date.New(2021, 2, 28), 2021, 3, 3) })
		c.SelfTest("monitor-flags-a-clamped-month-end", sc.Violations() == 1)
	}

	first, last := ref.Ordinal(0, 1, 1), ref.Ordinal(9999, 12, 31)
	total := last - first + 1
	c.Parallel("adjacent", 0, func(w *rt.W) {
		lo := first + total*int64(w.Shard)/int64(w.NShards)
		hi := first + total*int64(w.Shard+1)/int64(w.NShards)
		for o := lo; o < hi; o++ {
			c07Pair(w, o, o)
			c07Time(w, o)
			if o < last {
				c07Pair(w, o, o+1)
				c07Pair(w, o+1, o)
				c07Add(w, o, 0, 0, 1)
				c07AddDuration(w, o, 24*time.Hour)
				_, _, d := ref.Civil(o + 1)
				if d == 1 {
					w.NT(3)
					w.ClassN("adjacent-pair-crossing-month", 1)
				}
			}
			if o > first {
				c07Add(w, o, 0, 0, -1)
				c07AddDuration(w, o, -24*time.Hour)
			}
		}
	})
	c.Exhaustive("all adjacent and identical pairs of the 3,652,425 dates of years 0000-9999")

	B := c07Boundary()
	c.Extra("boundary_set_size", len(B))
	c.Parallel("boundary-pairs", 0, func(w *rt.W) {
		for i := w.Shard; i < len(B); i += w.NShards {
			for _, ob := range B {
				c07Pair(w, B[i], ob)
				w.NT(1)
			}
			if w.Class("sample-boundary-pair") {
				j := (i*17 + 5) % len(B)
				w.Sample("boundary-pair", map[string]any{"a": ordText(B[i]), "b": ordText(B[j]), "days_between": B[i] - B[j]})
			}
		}
		w.ClassN("boundary-pair-rows", 1)
	})
	c.Exhaustive(fmt.Sprintf("all ordered pairs of the %d-date boundary set", len(B)))

	c.Parallel("pairs-near-duration-limit", 0, func(w *rt.W) {
		for i := w.Shard; i < len(B); i += w.NShards {
			for dd := int64(106400); dd <= maxDurDays+2; dd += 1 + (maxDurDays+2-dd)/9 {
				for _, o2 := range []int64{B[i] + dd, B[i] - dd} {
					if o2 >= first && o2 <= last {
						c07Pair(w, B[i], o2)
						c07Pair(w, o2, B[i])
					}
				}
			}
			for _, dd := range []int64{maxDurDays - 1, maxDurDays, maxDurDays + 1} {
				if B[i]+dd <= last {
					c07Pair(w, B[i]+dd, B[i])
				}
			}
			w.ClassN("pair-near-duration-limit", 1)
		}
	})
	c.Require("pair-near-duration-limit", 1000)
	yearsG := []int{-400, -100, -4, -1, 0, 1, 3, 4, 100, 400}
	daysG := []int{-800, -366, -365, -60, -31, -30, -29, -28, -1, 0, 1, 27, 28, 29, 30, 31, 59, 365, 366, 800}
	if !c.Quick() {
		daysG = nil
		for d := -800; d <= 800; d += 7 {
			daysG = append(daysG, d)
		}
		daysG = append(daysG, -366, -365, -31, -30, -29, -28, -1, 0, 1, 28, 29, 30, 31, 365, 366)
	}
	c.Parallel("add-grid", 0, func(w *rt.W) {
		for i := w.Shard; i < len(B); i += w.NShards {
			for _, ys := range yearsG {
				for ms := -25; ms <= 25; ms++ {
					for _, ds := range daysG {
						c07Add(w, B[i], ys, ms, ds)
					}
				}
			}
			w.NT(int64(len(yearsG) * 51 * len(daysG)))
			_, _, d := ref.Civil(B[i])
			if d >= 29 {
				w.ClassN("add-from-day-29-31", 1)
			}
		}
	})
	c.Require("add-from-day-29-31", 100)

	c.Parallel("addduration-grid", 0, func(w *rt.W) {
		deltas := []time.Duration{-1, 0, 1, -12 * time.Hour, 12 * time.Hour, 24*time.Hour - 1, -(24*time.Hour - 1), time.Second, -time.Second}
		for i := w.Shard; i < len(B); i += w.NShards {
			for k := -800; k <= 800; k += c.Pick(7, 1) {
				for _, dl := range deltas {
					c07AddDuration(w, B[i], time.Duration(k)*24*time.Hour+dl)
				}
			}
			for _, k := range []int{-106751, 106751, -36525, 36525, -1, 0, 1} {
				for _, dl := range deltas[:3] {
					if (k == 106751 && dl > 0) || (k == -106751 && dl < 0) {
						continue
					}
					c07AddDuration(w, B[i], time.Duration(k)*24*time.Hour+dl)
				}
			}
			w.ClassN("addduration-rows", 1)
		}
	})

	// dates outside 0000-9999 ("for any two dates"): BCE years, five- to nine-digit years. The same
	// monitors, on every day of the years -1300..-1 and 10000..10400 and on a boundary set of far years.
	{
		sweeps := [][2]int64{{ref.Ordinal(-1300, 1, 1), ref.Ordinal(0, 1, 2)}, {ref.Ordinal(9999, 12, 30), ref.Ordinal(10400, 12, 31)}}
		for _, sw := range sweeps {
			sw := sw
			c.Parallel("adjacent-outside-0000-9999", 0, func(w *rt.W) {
				n := sw[1] - sw[0] + 1
				lo := sw[0] + n*int64(w.Shard)/int64(w.NShards)
				hi := sw[0] + n*int64(w.Shard+1)/int64(w.NShards)
				for o := lo; o < hi; o++ {
					c07Pair(w, o, o)
					c07Pair(w, o, o+1)
					c07Pair(w, o+1, o)
					for _, k := range []int64{28, 29, 31, 365, 366, 372, 1461, 36524, 36525, 106751} {
						c07Pair(w, o+k, o)
						c07Pair(w, o-k, o)
					}
					c07Time(w, o)
					c07Add(w, o, 0, 0, 1)
					c07Add(w, o, 0, 0, -1)
					c07Add(w, o, 0, 1, 0)
					c07Add(w, o, -1, 0, 0)
					c07AddDuration(w, o, 24*time.Hour)
					c07AddDuration(w, o, -1)
					w.ClassN("day-outside-0000-9999", 1)
				}
				w.NT(hi - lo)
			})
		}
		c.Require("day-outside-0000-9999", 600000)
		var F []int64
		for _, y := range []int64{-999999999, -268435457, -5000000, -131073, -100000, -10000, -9999, -4001, -4000, -2001, -2000, -1601, -1600, -801, -800, -401, -400, -399, -301, -300, -201, -200, -101, -100, -99, -5, -4, -3, -1,
			10000, 10001, 32767, 32768, 65535, 65536, 100000, 102500, 131071, 131072, 4194303, 4194304, 5000000, 268435456, 999999999} {
			for m := 1; m <= 12; m++ {
				F = append(F, ref.Ordinal(y, m, 1), ref.Ordinal(y, m, ref.DaysIn(y, m)))
			}
			F = append(F, ref.Ordinal(y, 2, 28), ref.Ordinal(y, 8, 20), ref.Ordinal(y, 8, 27))
		}
		c.Extra("far_boundary_set_size", len(F))
		c.Parallel("far-boundary-pairs", 0, func(w *rt.W) {
			for i := w.Shard; i < len(F); i += w.NShards {
				for _, ob := range F {
					c07Pair(w, F[i], ob)
				}
				for _, k := range []int64{1, 2, 27, 28, 29, 30, 31, 59, 60, 365, 366, 372, 373, 730, 1461, 36524, 36525, 106750, 106751, 106752} {
					c07Pair(w, F[i]+k, F[i])
					c07Pair(w, F[i], F[i]+k)
					c07Pair(w, F[i]-k, F[i])
				}
				c07Time(w, F[i])
				for _, ys := range []int{-400, -1, 0, 1, 4} {
					for ms := -14; ms <= 14; ms++ {
						for _, ds := range []int{-366, -31, -1, 0, 1, 29, 31, 365} {
							c07Add(w, F[i], ys, ms, ds)
						}
					}
				}
				for _, k := range []int{-106751, -36525, -366, -1, 0, 1, 365, 36524, 106751} {
					c07AddDuration(w, F[i], time.Duration(k)*24*time.Hour)
					c07AddDuration(w, F[i], time.Duration(k)*24*time.Hour+time.Duration(k%3-1))
				}
				w.NT(int64(len(F)))
				w.ClassN("far-boundary-rows", 1)
			}
		})
		c.Require("far-boundary-rows", 1000)

		// arguments far larger than a calendar unit: day numbers turned into dates (Add(0, 0, n)), month and year counts
		// of the same magnitude, alone and mixed. Values beyond the platform's int are skipped.
		big := []int64{106750, 106751, 106752, 106753, 110000, 146096, 146097, 146098, 292194, 365242, 730485, 737999, 1000000, 3652424, 3652425, 36524250, 2147483647}
		// (time.AddDate adds its arguments to the day, month and year in int: on a 32-bit platform counts within a
		// thousand of the int range overflow inside package time, which "time.AddDate-style normalisation" includes)
		fits := func(v int64) bool { return strconv.IntSize == 64 || (v >= -2147482647 && v <= 2147482647) }
		bases := append([]int64{}, F...)
		for i := 0; i < len(B); i += 9 {
			bases = append(bases, B[i])
		}
		c.Parallel("add-large-arguments", 0, func(w *rt.W) {
			for i := w.Shard; i < len(bases); i += w.NShards {
				for _, v := range big {
					for _, sg := range []int64{1, -1} {
						n := v * sg
						if !fits(n) {
							continue
						}
						c07Add(w, bases[i], 0, 0, int(n))
						c07Add(w, bases[i], 1, 0, int(n))
						c07Add(w, bases[i], 0, 1, int(n))
						c07Add(w, bases[i], 0, -1, int(n))
						if v <= 36524250 {
							c07Add(w, bases[i], 0, int(n), 0)
							c07Add(w, bases[i], 0, int(n), 31)
							c07Add(w, bases[i], int(n), 0, 0)
							c07Add(w, bases[i], int(n), 1, -1)
						}
					}
				}
				w.NT(int64(len(big)))
				w.ClassN("add-large-argument-rows", 1)
			}
		})
		c.Require("add-large-argument-rows", 1000)

		// years that agree in their low bits: a table of recently used years, indexed by the low bits of the year and
		// labelled with a shortened rest of it, answers for year Y with what it kept for Y +- m*2^k. One goroutine, so
		// that the sequence "far year first, then the near one" (and the other way round) is what the library sees.
		c.Serial("years-congruent-modulo-powers-of-two", func(w *rt.W) {
			inRange := func(y int64) bool { return y >= -999999990 && y <= 999999990 }
			probe := func(y int64) {
				o := ref.Ordinal(y, 3, 1)
				for _, k := range []int64{0, 1, 59, 306, 365, 366, 1461, 36525, 105000} {
					c07Pair(w, o+k, o)
					c07Pair(w, o, o+k)
					c07Pair(w, o-k, o)
				}
				c07Time(w, o)
				c07Add(w, o, 1, 0, 0)
				c07Add(w, o, 0, -3, 0)
				c07Add(w, o, 0, 0, 366)
				c07AddDuration(w, o, 366*24*time.Hour)
			}
			for _, y := range []int64{1970, 2024, 2100, 1582, 1, 0, -44, 9999, 12345, 65536, 400000001} {
				for k := uint(3); k <= 29; k++ {
					for _, m := range []int64{1, -1, 2, 3, -3, 5} {
						far := y + m<<k
						if !inRange(far) {
							continue
						}
						probe(far)
						probe(y)
						probe(far)
						w.ClassN("congruent-year-visited-before-and-after", 1)
					}
				}
				w.NT(1)
			}
		})
		c.Require("congruent-year-visited-before-and-after", 1000)
	}

	c.Parallel("fromtime", 0, func(w *rt.W) {
		for i := w.Shard; i < len(B); i += w.NShards {
			// local mean time style offsets (not a multiple of 60 s), instants within a minute of local midnight
			for _, off := range []int{19*60 + 32, -(44*60 + 30), 5*3600 + 53*60 + 28, -(4*3600 + 56*60 + 2), 59, -59, 1, -1, 3600 + 1, 13*3600 + 59*60 + 59} {
				for _, ds := range []int64{-61, -60, -59, -31, -1, 0, 1, 10, 31, 59, 60, 61} {
					c07FromTime(w, B[i]*86400-int64(off)+ds, off)
				}
				w.ClassN("fromtime-offset-with-seconds", 12)
			}
			for off := -12 * 3600; off <= 14*3600; off += 1800 {
				for _, ds := range []int64{-1, 0, 1, 43200} {
					// around UTC midnight
					c07FromTime(w, B[i]*86400+ds, off)
					// around local midnight
					c07FromTime(w, B[i]*86400-int64(off)+ds, off)
				}
				if off != 0 {
					w.ClassN("fromtime-non-utc-zone-near-midnight", 8)
					w.NT(8)
				}
			}
			if w.Class("sample-fromtime") {
				w.Sample("fromtime", map[string]any{"instant": time.Unix(B[i]*86400-1, 0).In(time.FixedZone("Z", 7200)).Format(time.RFC3339), "date": date.FromTime(time.Unix(B[i]*86400-1, 0).In(time.FixedZone("Z", 7200))).String()})
			}
		}
		// wrong dynamic types for Scan
		for _, src := range []any{nil, "2021-01-01", []byte("2021-01-01"), 5, int64(5), 1.5, true, &time.Time{}, date.New(2021, 1, 1), struct{}{}} {
			d := date.New(1234, 5, 6)
			err := d.Scan(src)
			w.Eval(1)
			if err == nil || !errors.Is(err, date.ErrInvalidType) {
				w.Fail("scan-wrong-type-accepted", "fromtime", rt.Args("src_type", fmt.Sprintf("%T", src)), fmt.Sprint(err), "ErrInvalidType", "Scan of a non-time source must fail with the documented error")
			}
		}
	})
	// real locations, walked in half-hour steps across their daylight-saving transitions (23- and 25-hour days, days
	// that start at 01:00, skipped and repeated calendar days), the location value the same throughout - also
	// backwards, and jumping between two locations
	{
		locs := hostileZones()
		windows := [][2]time.Time{
			{time.Date(2024, 3, 7, 0, 0, 0, 0, time.UTC), time.Date(2024, 4, 9, 0, 0, 0, 0, time.UTC)},
			{time.Date(2024, 9, 3, 0, 0, 0, 0, time.UTC), time.Date(2024, 11, 6, 0, 0, 0, 0, time.UTC)},
			{time.Date(2011, 12, 27, 0, 0, 0, 0, time.UTC), time.Date(2012, 1, 3, 0, 0, 0, 0, time.UTC)},
			{time.Date(1994, 12, 28, 0, 0, 0, 0, time.UTC), time.Date(1995, 1, 4, 0, 0, 0, 0, time.UTC)},
			{time.Date(2018, 10, 30, 0, 0, 0, 0, time.UTC), time.Date(2018, 11, 8, 0, 0, 0, 0, time.UTC)},
		}
		// single-threaded first (nothing else converts in between: the walk itself is the only history), then on all cores
		c.Serial("daylight-saving-walk-alone", func(w *rt.W) {
			for _, loc := range locs {
				for _, win := range windows {
					for t := win[0]; t.Before(win[1]); t = t.Add(30 * time.Minute) {
						c07FromTimeIn(w, t.In(loc))
					}
					for t := win[1]; t.After(win[0]); t = t.Add(-30 * time.Minute) {
						tt := t.In(loc)
						if got := date.FromTime(tt); true {
							_, off := tt.Zone()
							wy, wm, wd := ref.Civil(floorDiv64(tt.Unix()+int64(off), 86400))
							c07CheckDate(w, "fromtime-func-in-location", "fromtimein", rt.Args("unix_sec", tt.Unix(), "offset_sec", off, "zone", loc.String(), "time", tt.Format(time.RFC3339), "direction", "backwards"), got, wy, wm, wd)
						}
					}
				}
				w.ClassN("location-walked-alone", 1)
			}
		})
		c.Require("location-walked-alone", int64(len(locs)))
		c.Parallel("daylight-saving-walk", 0, func(w *rt.W) {
			for li := w.Shard; li < len(locs); li += w.NShards {
				loc := locs[li]
				other := locs[(li+5)%len(locs)]
				for _, win := range windows {
					n := 0
					for t := win[0]; t.Before(win[1]); t = t.Add(30 * time.Minute) {
						c07FromTimeIn(w, t.In(loc))
						if n%7 == 0 {
							c07FromTimeIn(w, t.In(other))
							c07FromTimeIn(w, t.Add(-1).In(loc))
						}
						n++
					}
					for t := win[1]; t.After(win[0]); t = t.Add(-47 * time.Minute) {
						c07FromTimeIn(w, t.In(loc))
					}
					// exact local wall-clock readings on the hour around midnight, every day of the window
					for day := win[0]; day.Before(win[1]); day = day.Add(24 * time.Hour) {
						y, m, d := day.Date()
						for _, hh := range []int{0, 1, 2, 3, 22, 23} {
							c07FromTimeIn(w, time.Date(y, m, d, hh, 0, 0, 0, loc))
							c07FromTimeIn(w, time.Date(y, m, d, hh, 59, 59, 999999999, loc))
						}
					}
				}
				w.ClassN("location-walked-across-transitions", 1)
				w.NT(1)
			}
		})
		c.Require("location-walked-across-transitions", int64(len(locs)))
	}

	// the process-local zone is configuration the arithmetic must not depend on
	zf, zl := ref.Ordinal(1990, 1, 1), ref.Ordinal(2030, 12, 31)
	for _, loc := range hostileZones() {
		loc := loc
		withLocal(loc, func() {
			c.Parallel("zones/"+loc.String(), 0, func(w *rt.W) {
				for o := zf + int64(w.Shard); o <= zl; o += int64(w.NShards) {
					c07Pair(w, o, o+1)
					c07Pair(w, o+1, o)
					c07Pair(w, o, o)
					c07Time(w, o)
					c07Add(w, o, 0, 0, 1)
					c07Add(w, o, 0, 1, 0)
					c07Add(w, o, 1, -1, 31)
					c07Add(w, o, 0, 0, -1)
					for _, d := range []time.Duration{0, 1, -1, time.Hour, -time.Hour, 23 * time.Hour, 24 * time.Hour, 25 * time.Hour, -24 * time.Hour, 12 * time.Hour} {
						c07AddDuration(w, o, d)
					}
					if o%7 == 0 {
						c07FromTime(w, o*86400+3600, 7200)
						c07FromTime(w, o*86400-3600, -7200)
						// the instant shown in the process-local zone itself
						t := time.Unix(o*86400+1800, 0).In(time.Local)
						_, off := t.Zone()
						c07FromTime(w, o*86400+1800, off)
						wy, wm, wd := ref.Civil(floorDiv64(o*86400+1800+int64(off), 86400))
						c07CheckDate(w, "fromtime-local-zone", "fromtime", rt.Args("unix_sec", o*86400+1800, "offset_sec", off, "zone", time.Local.String()), date.FromTime(t), wy, wm, wd)
					}
				}
				if w.Shard == 0 { // Today is the conversion of the current instant as shown in the local zone
					for k := 0; k < 50; k++ {
						t1 := time.Now()
						got := date.Today()
						t2 := time.Now()
						y1, m1, d1 := t1.Date()
						y2, m2, d2 := t2.Date()
						gy, gm, gd := got.Date()
						w.Eval(1)
						if !(gy == y1 && gm == m1 && gd == d1) && !(gy == y2 && gm == m2 && gd == d2) {
							w.Fail("today", "fromtime", rt.Args("zone", time.Local.String(), "unix_sec", t1.Unix(), "offset_sec", 0), got.String(), t1.Format("2006-01-02"), "Today must be the date the current instant shows in the local zone")
						}
					}
					w.ClassN("today-in-local-zone", 1)
				}
				w.ClassN("local-zone-sweep", 1)
			})
		})
	}
	c.Require("today-in-local-zone", int64(len(hostileZones())))
	c.Require("local-zone-sweep", int64(len(hostileZones())))
	c.Require("fromtime-non-utc-zone-near-midnight", 100000)
	c.Require("fromtime-offset-with-seconds", 100000)
	c.Require("adjacent-pair-crossing-month", 119000)
	c.Require("boundary-pair-rows", 1)
}
