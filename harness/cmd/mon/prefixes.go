package main

import "strings"

// textPrefixes is existing buffer content that means something to machinery a formatter may be built on
// (fmt directives and fmt's own diagnostics, template and regexp replacement syntax), multi-byte text in
// front of letters the formatter itself emits (offsets counted in characters instead of bytes), and text
// that ends like the formatter's own output. A formatter appends; what is already in the buffer is data.
func textPrefixes(alphabet []string) [][]byte {
	out := [][]byte{}
	for _, s := range []string{
		"%", "%%", "%d", "%s", "%v", "%q", "100% ", "load 100% on ", "from%3D", "a%20b=", "%!", "%!(EXTRA ", "%!(EXTRA string=x) ",
		"(MISSING)", "%!d(MISSING)", "%!s(MISSING) ", "log: %!v(MISSING) -> ", "%!(NOVERB)", "%!(BADINDEX)", "%!(BADWIDTH)", "%[1]d", "%[2]*d", "%*d", "%.*s",
		"{{.}}", "{{", "$1", "${1}", "$0", `\1`, `\\`, "\x00", "\x00\x00", "\r\n", "\n", "\t", " ", "  ", "a b", "Total size: ", "<td>Free space: ",
		"used, total: ", ",", "a,b;c:d ", "1,234 ", "x_y_z ", ";", "'", "|", "~", "#", "\u00a0", "\u2009", "urn:uuid:", "xmlns:u=urn:uuid:", "v", "V", "0x", "&nbsp;", "&", "\"", "'", "`",
		"Část M", "Část MDCLXVI", "Část mdclxvi", "日本語XVI", "€M", " I", "\U0001F600DCLXVI ", "ééééIVXLCDM",
		"Část 2021-01-01", "日本語1.2.3-rc.1", "€1 024 KiB", "\U0001F600urn:uuid:", "ééABCDEF-abcdef",
	} {
		out = append(out, []byte(s))
	}
	for _, a := range alphabet {
		out = append(out, []byte("Čášť "+a), []byte("日本"+a+a), []byte(strings.ToUpper(a)), []byte(strings.ToLower(a)), []byte("%"+a), []byte(a+"%"), []byte("(MISSING)"+a))
	}
	return out
}
