package main

import (
	"encoding/json"
	"fmt"
	"testing"
	"time"

	"go.lstv.dev/util/date"
	"go.lstv.dev/util/roman"
	"go.lstv.dev/util/sem"
	"go.lstv.dev/util/size"
	"go.lstv.dev/util/uu"

	"verif/rt"
)

// TestEnvProbe is not a test: run.sh runs it with -test.testlogfile, and the Go runtime's own test log then lists
// every environment variable the process looked up (package initialisation included) while each entry point of the
// library ran once on a valid and on a hostile input. The names found there (minus the ones the Go runtime and the
// standard library read themselves) are the switches the environment pass of run.sh turns on.
func TestEnvProbe(t *testing.T) {
	r := rt.NewRand(1, "envprobe", 0)
	for _, e := range c18Entries {
		for k := 0; k < 4; k++ {
			a := c18Valid(r, e.pkg)
			if k%2 == 1 {
				a = c18Hostile(r, e.pkg)
			}
			b := c18Partner(r, a)
			rt.Call(func() { _, _ = e.call(a, b) })
		}
	}
	rt.Call(func() {
		d := date.New(2024, 2, 29)
		_, _ = d.MarshalText()
		_, _ = d.MarshalBinary()
		_ = d.UnmarshalBinary(nil)
		_ = d.UnmarshalBinary([]byte{1, 0, 0, 7, 0xe8, 2, 29})
		_ = d.Scan(time.Now())
		_, _ = d.Value()
		_ = fmt.Sprintf("%v %s %b %e", d, d, d, d)
		_, _ = date.DefaultFormatter(nil, d, date.FormatBasic)
		_, _ = json.Marshal(d)
		f, _ := date.FilterFromTo(&d, &d)
		if f != nil {
			_ = f.Contains(d)
		}
		_ = d.Add(1, 1, 1)
		_ = d.Sub(date.New(2000, 1, 1))
		_ = date.FromTime(time.Now())
	})
	rt.Call(func() {
		n := roman.Number(1994)
		_, _ = n.MarshalText()
		_ = fmt.Sprintf("%v %s %r %R", n, n, n, n)
		_, _ = roman.DefaultFormatter(nil, n, roman.FormatLowerCase|roman.FormatLong)
	})
	rt.Call(func() {
		v := sem.New(1, 2, 3, "rc.1", "b")
		_, _ = v.MarshalText()
		_ = fmt.Sprintf("%v %s", v, v)
		_ = v.Valid()
		_ = v.Compare(sem.New(1, 2, 3, "rc.2", ""))
		_, _ = sem.Compare("v1.0.0", "1.0.1")
		_, _ = sem.Latest("1.0.0", "1.0.1")
		_ = v.NextMajor()
	})
	rt.Call(func() {
		s := size.Size(1536)
		_, _ = s.MarshalText()
		_, _ = s.MarshalJSON()
		_, _, _ = s.String(), s.PrettyString(), s.PrettyHTML()
		_, _ = s.Shorten()
		_, _ = size.New(5, "kB")
		_, _ = size.New(-1.5, "xB")
		_, _ = size.DefaultFormatter(nil, s, size.FormatPretty|size.FormatHTML)
		_, _ = size.Bytes[int8](s)
		_, _ = size.Bytes[float64](s)
	})
	rt.Call(func() {
		id := uu.RandomID()
		_, _ = id.MarshalText()
		_ = fmt.Sprintf("%v %s %u %x", id, id, id, id)
		_ = id.URN()
		_, _ = uu.DefaultFormatter(nil, id, uu.FormatURN)
		for i := 0; i < 100; i++ {
			_ = uu.RandomID()
		}
	})
}
