package main

import (
	"encoding/binary"
	"errors"
	"fmt"
	"math"
	"os"
	"os/exec"
	"path/filepath"
	"runtime"
	"runtime/metrics"
	"sort"
	"strconv"
	"strings"
	"sync"
	"syscall"
	"time"

	"go.lstv.dev/util/date"
	"go.lstv.dev/util/roman"
	"go.lstv.dev/util/sem"
	"go.lstv.dev/util/size"
	"go.lstv.dev/util/uu"

	"verif/ref"
	"verif/rt"
)

// C18 — Parsers are total and enforce the configured input limit first.
//
// The workload runs in a child process. Every worker records the call it is about
// to make in its slot of a shared memory-mapped file, so that a death of the child
// that recover() cannot see (stack exhaustion, out of memory, fatal runtime error)
// still leaves the in-flight inputs for the parent to report as the witness.

func init() {
	props["C18"] = runC18
	replayers["C18/retention"] = func(v rt.Violation) string {
		return "the event is a measurement over 50,000 calls in the single-threaded retention stage: re-run ./run.sh C18 quick"
	}
	replayers["C18/latemsg"] = func(v rt.Violation) string {
		c := rt.ReplayCtx("C18")
		c.Serial("replay", func(w *rt.W) {
			for i := range c18Entries {
				if c18Entries[i].name == rt.ArgString(v, "entry") {
					restore := c18ApplyLimit(int(rt.ArgInt(v, "limit_setting")))
					_, err := c18Entries[i].call(rt.ArgString(v, "a"), "")
					restore()
					if err != nil {
						c18KeptMu.Lock()
						c18Kept = []c18KeptErr{{err, rt.ArgString(v, "a"), i, int(rt.ArgInt(v, "limit_setting"))}}
						c18KeptMu.Unlock()
						c18RereadKept(w)
					}
				}
			}
		})
		return c.Report()
	}
	replayers["C18/call"] = func(v rt.Violation) string {
		c := rt.ReplayCtx("C18")
		restore := c18ApplyLimit(int(rt.ArgInt(v, "limit_setting")))
		defer restore()
		c.Serial("replay", func(w *rt.W) {
			for i := range c18Entries {
				if c18Entries[i].name == rt.ArgString(v, "entry") {
					c18Call(w, nil, i, int(rt.ArgInt(v, "limit_setting")), rt.ArgString(v, "a"), rt.ArgString(v, "b"))
				}
			}
		})
		return c.Report()
	}
}

type c18Entry struct {
	pkg     string
	name    string
	limited bool // MaxInputLength of pkg applies to argument a (and b)
	pair    bool
	// call returns whether the returned value is the zero value, and the error (nil for entry points without error result)
	call func(a, b string) (zero bool, err error)
}

var c18TooLong = map[string]error{"date": date.ErrInputTooLong, "roman": roman.ErrInputTooLong, "sem": sem.ErrInputTooLong, "size": size.ErrInputTooLong, "uu": uu.ErrInputTooLong}
var c18Defaults = map[string]int{"date": 10, "roman": 128, "sem": 1024, "size": 128, "uu": 45}

func c18LimitFor(pkg string, setting int) int {
	switch setting {
	case 0:
		return 0
	case 1:
		return 1
	case 2:
		return c18Defaults[pkg]
	case 3:
		return c18Defaults[pkg] + 1
	}
	if setting == 8 {
		return math.MaxInt
	}
	if setting == 9 {
		return math.MaxInt32
	}
	if setting == 10 { // a negative limit is non-zero: every input is longer than it
		return -1
	}
	if setting == 11 {
		return math.MinInt
	}
	// settings 4..7: limits between the lengths of the package's own text forms (a limit that cuts between the plain
	// and the URN form of an ID, between the basic and the extended date, inside typical numerals and versions)
	return map[string][4]int{"date": {8, 9, 12, 40}, "roman": {7, 15, 64, 40}, "sem": {5, 11, 64, 40}, "size": {4, 24, 16, 40}, "uu": {36, 44, 37, 40}}[pkg][(setting-4)%4]
}

const c18Settings = 12

func c18ApplyLimit(setting int) func() {
	a, b, cc, d, e := date.MaxInputLength, roman.MaxInputLength, sem.MaxInputLength, size.MaxInputLength, uu.MaxInputLength
	date.MaxInputLength, roman.MaxInputLength, sem.MaxInputLength, size.MaxInputLength, uu.MaxInputLength =
		c18LimitFor("date", setting), c18LimitFor("roman", setting), c18LimitFor("sem", setting), c18LimitFor("size", setting), c18LimitFor("uu", setting)
	return func() {
		date.MaxInputLength, roman.MaxInputLength, sem.MaxInputLength, size.MaxInputLength, uu.MaxInputLength = a, b, cc, d, e
	}
}

var c18Entries = buildC18Entries()

func buildC18Entries() []c18Entry {
	var es []c18Entry
	add := func(pkg, name string, limited, pair bool, f func(a, b string) (bool, error)) {
		es = append(es, c18Entry{pkg, name, limited, pair, f})
	}
	for _, r := range []date.Rule{0, date.RuleDisableBasic, 2, -1} {
		r := r
		add("date", fmt.Sprintf("date.DefaultParser[string](%d)", r), true, false, func(a, _ string) (bool, error) { v, err := date.DefaultParser(a, r); return v == date.Date{}, err })
		add("date", fmt.Sprintf("date.DefaultParser[[]byte](%d)", r), true, false, func(a, _ string) (bool, error) {
			v, err := date.DefaultParser([]byte(a), r)
			return v == date.Date{}, err
		})
	}
	add("date", "date.Date.UnmarshalText", true, false, func(a, _ string) (bool, error) {
		var v date.Date
		err := v.UnmarshalText([]byte(a))
		return v == date.Date{}, err
	})
	add("date", "date.Date.UnmarshalBinary", false, false, func(a, _ string) (bool, error) {
		var v date.Date
		err := v.UnmarshalBinary([]byte(a))
		return v == date.Date{}, err
	})
	add("date", "date.Date.Scan", false, false, func(a, _ string) (bool, error) {
		var v date.Date
		var src any
		switch len(a) % 9 {
		case 0:
			src = a
		case 1:
			src = []byte(a)
		case 2:
			src = nil
		case 3:
			src = len(a)
		case 4:
			src = float64(len(a))
		case 5:
			src = &a
		case 6:
			src = []any{a}
		case 7:
			src = map[string]string{a: a}
		default:
			src = errors.New(a)
		}
		err := v.Scan(src)
		return v == date.Date{}, err
	})
	add("date", "date.Date.Scan (typed nil pointers, Valuers, odd kinds)", false, false, func(a, _ string) (bool, error) {
		hs := hostileScanSources()
		v := date.New(2020, 2, 2)
		err := v.Scan(hs[len(a)%len(hs)])
		if err == nil {
			return true, nil
		}
		return v == date.New(2020, 2, 2), err // an error leaves the receiver alone (reported as "zero" to the generic judge)
	})
	add("date", "date.Date.Scan (containers that contain themselves)", false, false, func(a, _ string) (bool, error) {
		// a source of the wrong type is refused by naming its type; rendering its content would never end on these
		m := map[string]any{"name": a}
		m["parent"] = m
		l := []any{a, nil}
		l[1] = l
		type node struct {
			Name string
			Next any
		}
		n := &node{Name: a}
		n.Next = n
		var p any
		p = &p
		srcs := []any{m, l, n, *n, p, map[string]any{"deep": map[string]any{"again": m}}, []any{l, m}}
		v := date.New(2020, 2, 2)
		err := v.Scan(srcs[len(a)%len(srcs)])
		if err == nil {
			return true, nil
		}
		return v == date.New(2020, 2, 2), err
	})
	for _, r := range []roman.Rule{0, roman.RuleDisableEmptyAsZero, -1} {
		r := r
		add("roman", fmt.Sprintf("roman.DefaultParser[string](%d)", r), true, false, func(a, _ string) (bool, error) { v, err := roman.DefaultParser(a, r); return v == 0, err })
		add("roman", fmt.Sprintf("roman.DefaultParser[[]byte](%d)", r), true, false, func(a, _ string) (bool, error) { v, err := roman.DefaultParser([]byte(a), r); return v == 0, err })
		add("roman", fmt.Sprintf("roman.Valid[string](%d)", r), true, false, func(a, _ string) (bool, error) { return true, roman.Valid(a, r) })
		add("roman", fmt.Sprintf("roman.Valid[[]byte](%d)", r), true, false, func(a, _ string) (bool, error) { return true, roman.Valid([]byte(a), r) })
	}
	add("roman", "roman.Number.UnmarshalText", true, false, func(a, _ string) (bool, error) {
		var v roman.Number
		err := v.UnmarshalText([]byte(a))
		return v == 0, err
	})
	for _, r := range []sem.Rule{0, sem.RuleDisableTag, -1} {
		r := r
		add("sem", fmt.Sprintf("sem.DefaultParser[string](%d)", r), true, false, func(a, _ string) (bool, error) { v, err := sem.DefaultParser(a, r); return v == sem.Ver{}, err })
		add("sem", fmt.Sprintf("sem.DefaultParser[[]byte](%d)", r), true, false, func(a, _ string) (bool, error) { v, err := sem.DefaultParser([]byte(a), r); return v == sem.Ver{}, err })
	}
	add("sem", "sem.Parse[string]", true, false, func(a, _ string) (bool, error) { v, err := sem.Parse(a); return v == sem.Ver{}, err })
	add("sem", "sem.Parse[[]byte]", true, false, func(a, _ string) (bool, error) { v, err := sem.Parse([]byte(a)); return v == sem.Ver{}, err })
	add("sem", "sem.ParseVersion[string]", true, false, func(a, _ string) (bool, error) { v, err := sem.ParseVersion(a); return v == sem.Ver{}, err })
	add("sem", "sem.ParseVersion[[]byte]", true, false, func(a, _ string) (bool, error) { v, err := sem.ParseVersion([]byte(a)); return v == sem.Ver{}, err })
	add("sem", "sem.ParseTag[string]", true, false, func(a, _ string) (bool, error) { v, err := sem.ParseTag(a); return v == sem.Ver{}, err })
	add("sem", "sem.ParseTag[[]byte]", true, false, func(a, _ string) (bool, error) { v, err := sem.ParseTag([]byte(a)); return v == sem.Ver{}, err })
	add("sem", "sem.Ver.UnmarshalText", true, false, func(a, _ string) (bool, error) {
		var v sem.Ver
		err := v.UnmarshalText([]byte(a))
		return v == sem.Ver{}, err
	})
	add("sem", "sem.Compare[string,[]byte]", true, true, func(a, b string) (bool, error) { v, err := sem.Compare(a, []byte(b)); return v == 0, err })
	add("sem", "sem.CompareVersion", true, true, func(a, b string) (bool, error) {
		v, err := sem.CompareVersion[string, string](a, b)
		return v == 0, err
	})
	add("sem", "sem.CompareTag[[]byte,string]", true, true, func(a, b string) (bool, error) { v, err := sem.CompareTag([]byte(a), b); return v == 0, err })
	add("sem", "sem.Latest[[]byte,[]byte]", true, true, func(a, b string) (bool, error) {
		v, err := sem.Latest([]byte(a), []byte(b))
		return v == sem.Ver{}, err
	})
	add("sem", "sem.LatestVersion[string,string]", true, true, func(a, b string) (bool, error) { v, err := sem.LatestVersion(a, b); return v == sem.Ver{}, err })
	add("sem", "sem.LatestTag[string,[]byte]", true, true, func(a, b string) (bool, error) { v, err := sem.LatestTag(a, []byte(b)); return v == sem.Ver{}, err })
	add("sem", "sem.DefaultComparePreRelease[string,string]", false, true, func(a, b string) (bool, error) { sem.DefaultComparePreRelease(a, b); return true, nil })
	add("sem", "sem.DefaultComparePreRelease[[]byte,string]", false, true, func(a, b string) (bool, error) { sem.DefaultComparePreRelease([]byte(a), b); return true, nil })
	add("sem", "sem.DefaultComparePreRelease[string,[]byte]", false, true, func(a, b string) (bool, error) { sem.DefaultComparePreRelease(a, []byte(b)); return true, nil })
	add("sem", "sem.DefaultComparePreRelease[[]byte,[]byte]", false, true, func(a, b string) (bool, error) { sem.DefaultComparePreRelease([]byte(a), []byte(b)); return true, nil })
	add("sem", "sem.Ver.Compare/Latest on arbitrary fields", false, true, func(a, b string) (bool, error) {
		x, y := sem.Ver{Major: 1, PreRelease: a, Build: b}, sem.Ver{Major: 1, PreRelease: b, Build: a}
		x.Compare(y)
		y.Compare(x)
		x.Latest(y)
		return true, nil
	})
	add("sem", "sem.Ver.Valid on arbitrary fields", false, true, func(a, b string) (bool, error) {
		_ = sem.Ver{PreRelease: a, Build: b}.Valid()
		_ = sem.Ver{PreRelease: b, Build: a}.String()
		return true, nil
	})
	for r := 0; r < 16; r++ {
		r := size.Rule(r)
		add("size", fmt.Sprintf("size.DefaultParser[string](%d)", r), true, false, func(a, _ string) (bool, error) { v, err := size.DefaultParser(a, r); return v == 0, err })
		add("size", fmt.Sprintf("size.DefaultParser[[]byte](%d)", r), true, false, func(a, _ string) (bool, error) { v, err := size.DefaultParser([]byte(a), r); return v == 0, err })
	}
	for _, rv := range []size.Rule{-1, 16, 22, 1 << 20, 6 | 1<<10} {
		rv := rv
		add("size", fmt.Sprintf("size.DefaultParser[string](%d)", rv), true, false, func(a, _ string) (bool, error) { v, err := size.DefaultParser(a, rv); return v == 0, err })
		add("size", fmt.Sprintf("size.DefaultParser[[]byte](%d)", rv), true, false, func(a, _ string) (bool, error) { v, err := size.DefaultParser([]byte(a), rv); return v == 0, err })
	}
	add("size", "size.Size.UnmarshalText", true, false, func(a, _ string) (bool, error) {
		var v size.Size
		err := v.UnmarshalText([]byte(a))
		return v == 0, err
	})
	add("size", "size.Size.UnmarshalJSON", true, false, func(a, _ string) (bool, error) {
		var v size.Size
		err := v.UnmarshalJSON([]byte(a))
		return v == 0, err
	})
	for r := 0; r < 4; r++ {
		r := uu.Rule(r)
		add("uu", fmt.Sprintf("uu.DefaultParser[string](%d)", r), true, false, func(a, _ string) (bool, error) { v, err := uu.DefaultParser(a, r); return v == uu.ID{}, err })
		add("uu", fmt.Sprintf("uu.DefaultParser[[]byte](%d)", r), true, false, func(a, _ string) (bool, error) { v, err := uu.DefaultParser([]byte(a), r); return v == uu.ID{}, err })
	}
	for _, rv := range []uu.Rule{-1, 4, 8, 1 << 20, 5, 6, 7} {
		rv := rv
		add("uu", fmt.Sprintf("uu.DefaultParser[string](%d)", rv), true, false, func(a, _ string) (bool, error) { v, err := uu.DefaultParser(a, rv); return v == uu.ID{}, err })
		add("uu", fmt.Sprintf("uu.DefaultParser[[]byte](%d)", rv), true, false, func(a, _ string) (bool, error) { v, err := uu.DefaultParser([]byte(a), rv); return v == uu.ID{}, err })
	}
	add("uu", "uu.ID.UnmarshalText", true, false, func(a, _ string) (bool, error) {
		var v uu.ID
		err := v.UnmarshalText([]byte(a))
		return v == uu.ID{}, err
	})
	return es
}

// ---- in-flight recorder (memory-mapped, survives the death of the process)

const c18Slot = 4096

type c18Flight struct{ mem []byte }

func c18OpenFlight(path string, slots int, create bool) (*c18Flight, error) {
	flag := os.O_RDWR
	if create {
		flag |= os.O_CREATE | os.O_TRUNC
	}
	f, err := os.OpenFile(path, flag, 0o644)
	if err != nil {
		return nil, err
	}
	defer f.Close()
	if create {
		if err := f.Truncate(int64(slots * c18Slot)); err != nil {
			return nil, err
		}
	}
	st, _ := f.Stat()
	mem, err := syscall.Mmap(int(f.Fd()), 0, int(st.Size()), syscall.PROT_READ|syscall.PROT_WRITE, syscall.MAP_SHARED)
	if err != nil {
		return nil, err
	}
	return &c18Flight{mem}, nil
}

func (f *c18Flight) record(slot, entry, setting int, a, b string) {
	if f == nil {
		return
	}
	m := f.mem[slot*c18Slot : (slot+1)*c18Slot]
	binary.LittleEndian.PutUint32(m[0:], 0) // invalid while being written
	binary.LittleEndian.PutUint32(m[4:], uint32(entry))
	binary.LittleEndian.PutUint32(m[8:], uint32(setting))
	binary.LittleEndian.PutUint32(m[12:], uint32(len(a)))
	binary.LittleEndian.PutUint32(m[16:], uint32(len(b)))
	na := copy(m[24:24+1900], a)
	nb := copy(m[2000:2000+1900], b)
	binary.LittleEndian.PutUint16(m[20:], uint16(na))
	binary.LittleEndian.PutUint16(m[22:], uint16(nb))
	binary.LittleEndian.PutUint32(m[0:], 1)
}

func (f *c18Flight) clear(slot int) {
	if f != nil {
		binary.LittleEndian.PutUint32(f.mem[slot*c18Slot:], 2)
	}
}

type c18InFlight struct {
	slot, entry, setting, lenA, lenB int
	a, b                             string
}

func (f *c18Flight) inFlight() []c18InFlight {
	var out []c18InFlight
	for s := 0; s*c18Slot < len(f.mem); s++ {
		m := f.mem[s*c18Slot : (s+1)*c18Slot]
		if binary.LittleEndian.Uint32(m[0:]) != 1 {
			continue
		}
		na, nb := int(binary.LittleEndian.Uint16(m[20:])), int(binary.LittleEndian.Uint16(m[22:]))
		out = append(out, c18InFlight{s, int(binary.LittleEndian.Uint32(m[4:])), int(binary.LittleEndian.Uint32(m[8:])), int(binary.LittleEndian.Uint32(m[12:])), int(binary.LittleEndian.Uint32(m[16:])), string(m[24 : 24+na]), string(m[2000 : 2000+nb])})
	}
	return out
}

// ---- monitor for one call

func containsWindow(msg, input string, limits ...int) (string, bool) {
	if len(input) < 8 {
		return "", false
	}
	// the message states the two lengths; their digits are not the input (with limits like -9223372036854775808 an
	// input made of digits would otherwise "appear" in it)
	nums := append([]int{date.MaxInputLength, roman.MaxInputLength, sem.MaxInputLength, size.MaxInputLength, uu.MaxInputLength, len(input)}, limits...)
	sort.Slice(nums, func(i, j int) bool { return len(strconv.Itoa(nums[i])) > len(strconv.Itoa(nums[j])) })
	for _, n := range nums {
		if t := strconv.Itoa(n); len(t) >= 8 { // (shorter numbers cannot hold an 8-byte window)
			msg = strings.ReplaceAll(msg, t, "#")
		}
	}
	step := 1
	if len(input) > 4096 {
		step = len(input) / 2048
	}
	for i := 0; i+8 <= len(input); i += step {
		if strings.Contains(msg, input[i:i+8]) {
			return input[i : i+8], true
		}
	}
	if strings.Contains(msg, input[len(input)-8:]) {
		return input[len(input)-8:], true
	}
	return "", false
}

// c18Kept retains input-too-long errors so that their message can be read again after the limit
// has been changed (an error value is read when it is logged, which may be after a deferred restore
// of the configuration): the message must not reproduce the input then either.
type c18KeptErr struct {
	err     error
	a       string
	ei      int
	setting int
}

var (
	c18KeptMu sync.Mutex
	c18Kept   []c18KeptErr
	c18KeptN  = map[int]int{}
)

func c18RereadKept(w *rt.W) {
	c18KeptMu.Lock()
	kept := c18Kept
	c18Kept = nil
	c18KeptN = map[int]int{}
	c18KeptMu.Unlock()
	for _, readUnder := range []int{0, 2} {
		restore := c18ApplyLimit(readUnder)
		for _, k := range kept {
			e := &c18Entries[k.ei]
			var msg string
			panicked, pm := rt.Call(func() { msg = k.err.Error() })
			w.Eval(1)
			args := rt.Args("entry", e.name, "limit_setting", k.setting, "limit", c18LimitFor(e.pkg, k.setting), "a", k.a, "b", "", "len_a", len(k.a), "message_read_under_limit_setting", readUnder)
			if panicked {
				w.Fail("panic-in-error-message:"+e.pkg, "latemsg", args, "panic: "+strings.SplitN(pm, "\n", 2)[0], "a message", "Error() of a retained input-too-long error panicked")
			} else if win, found := containsWindow(msg, k.a, c18LimitFor(e.pkg, k.setting)); found {
				w.Fail("too-long-error-reproduces-input-when-read-later:"+e.pkg, "latemsg", args, clipStr(msg, 400), "a message without the input", "the input-too-long message, read after MaxInputLength was changed, contains the input window "+strconv.Quote(win))
			}
			w.ClassN("too-long-error-reread-after-limit-change", 1)
		}
		restore()
	}
}

// c18Call executes one entry point under the monitor: no panic, result shape, limit contract.
func c18Call(w *rt.W, fl *c18Flight, ei, setting int, a, b string) {
	e := &c18Entries[ei]
	if !e.pair {
		b = ""
	}
	fl.record(w.Shard, ei, setting, a, b)
	var zero bool
	var err error
	panicked, msg := rt.Call(func() { zero, err = e.call(a, b) })
	fl.clear(w.Shard)
	w.Eval(1)
	args := func() map[string]any {
		return rt.Args("entry", e.name, "limit_setting", setting, "limit", c18LimitFor(e.pkg, setting), "a", a, "b", b, "len_a", len(a), "len_b", len(b))
	}
	if panicked {
		lines := strings.SplitN(msg, "\n", 2)
		w.Fail("panic:"+e.name, "call", args(), "panic: "+lines[0], "a value or an error", e.name+" panicked\n"+msg)
		return
	}
	if err != nil && !zero {
		w.Fail("nonzero-result-with-error:"+e.name, "call", args(), "non-zero value together with error "+err.Error(), "zero value with an error", "result shape")
	}
	if !e.limited {
		return
	}
	limit := c18LimitFor(e.pkg, setting)
	if limit < 0 && (len(a) == 0 || (e.pair && len(b) == 0)) {
		// a negative limit is a misconfiguration the statement covers only by the letter ("non-zero"); whether the
		// empty input counts as "longer" than it is left open. Non-empty inputs are judged.
		w.DontCare("empty input under a negative limit")
		return
	}
	sentinel := c18TooLong[e.pkg]
	tooLongA := limit != 0 && len(a) > limit
	tooLongAny := tooLongA || (e.pair && limit != 0 && len(b) > limit)
	isTL := err != nil && errors.Is(err, sentinel)
	switch {
	case tooLongA:
		if !isTL {
			w.Fail("over-limit-input-not-refused-with-input-too-long:"+e.pkg, "call", args(), fmt.Sprint("zero=", zero, " err=", err), "ErrInputTooLong", "an input longer than the non-zero MaxInputLength must be rejected with the package's input-too-long error before anything else")
		} else if win, found := containsWindow(err.Error(), a); found {
			w.Fail("too-long-error-reproduces-input:"+e.pkg, "call", args(), err.Error(), "a message without the input", "the input-too-long message contains the input window "+strconv.Quote(win))
		}
		if isTL && w.Rng != nil && (len(a) < 64 || len(a)%7 == 0) {
			c18KeptMu.Lock()
			if c18KeptN[ei] < 40 { // per entry point
				c18KeptN[ei]++
				c18Kept = append(c18Kept, c18KeptErr{err, a, ei, setting})
			}
			c18KeptMu.Unlock()
		}
		w.ClassN("over-limit:"+e.pkg, 1)
	case !tooLongAny:
		if isTL {
			key := "input-within-limit-refused-for-length:"
			if limit == 0 {
				key = "limit-zero-does-not-disable:"
			}
			w.Fail(key+e.pkg, "call", args(), err.Error(), "any outcome except ErrInputTooLong", "no input within the limit may be rejected for its length (0 removes the limit)")
		}
		if limit != 0 && len(a) == limit {
			w.ClassN("exactly-at-limit:"+e.pkg, 1)
		}
		if limit == 0 && len(a) > c18Defaults[e.pkg] {
			w.ClassN("limit-disabled-long-input:"+e.pkg, 1)
		}
	}
}

// ---- input generators

var c18Runes = []string{"é", "ß", "€", "𝄞", " ", " ", "Ⅿ", "１", "٣", "\ufeff", "\u0301"}

func c18Valid(r *rt.Rand, pkg string) string {
	switch pkg {
	case "date":
		y := int64(r.Intn(10000))
		m := 1 + r.Intn(12)
		return ref.DateText(y, m, 1+r.Intn(ref.DaysIn(y, m)), r.Bool())
	case "roman":
		_, rf := romanFlags(r.Intn(128))
		return ref.RomanFormat(uint64(r.Intn(5000)), rf)
	case "sem":
		return genVersionText(r)
	case "size":
		switch r.Intn(3) {
		case 0:
			return genSizeText(r)
		case 1:
			return genJSONAny(r, 4)
		}
		return "{" + strings.Join(genObjectMembers(r, c12Cfg{maxKeys: 16}), ",") + "}"
	}
	t := ref.UUIDText(r.U64(), r.U64())
	if r.Bool() {
		t = "urn:uuid:" + t
	}
	return t
}

func c18Hostile(r *rt.Rand, pkg string) string {
	v := c18Valid(r, pkg)
	switch r.Intn(13) {
	case 0:
		return string(r.Bytes(r.Intn(64)))
	case 1: // invalid UTF-8 inside a valid text
		p := r.Intn(len(v) + 1)
		return v[:p] + []string{"\xff", "\xc3", "\xe2\x82", "\xf0\x9f\x98", "\x80", "\xc0\xaf", "\xed\xa0\x80"}[r.Intn(7)] + v[p:]
	case 2: // multi-byte rune at a random offset
		p := r.Intn(len(v) + 1)
		return v[:p] + c18Runes[r.Intn(len(c18Runes))] + v[p:]
	case 3:
		p := r.Intn(len(v) + 1)
		return v[:p] + "\x00" + v[p:]
	case 4: // multi-byte rune replacing a byte
		if len(v) == 0 {
			return "é"
		}
		p := r.Intn(len(v))
		return v[:p] + c18Runes[r.Intn(len(c18Runes))] + v[p+1:]
	case 5:
		return string(mutateBytes(r, []byte(v)))
	case 6:
		return v
	case 7:
		return strings.Repeat(c18Runes[r.Intn(len(c18Runes))], 1+r.Intn(20))
	case 8:
		return v + v
	case 9:
		return strings.ToUpper(v)
	case 11:
		if pkg == "size" { // a JSON string whose decoded content is longer than its text (each invalid byte becomes U+FFFD)
			n := 1 + r.Intn(126)
			return `"` + strings.Repeat([]string{"\xff", "\xc3", "\x80", "\xf0\x9f"}[r.Intn(4)], n)[:n] + `"`
		}
		return strings.Repeat("\xff", 1+r.Intn(60))
	case 10: // only multi-byte runes and separators
		n := 1 + r.Intn(6)
		parts := make([]string, n)
		for i := range parts {
			parts[i] = strings.Repeat(c18Runes[r.Intn(len(c18Runes))], r.Intn(4))
		}
		return strings.Join(parts, ".")
	}
	return string(mutateBytes(r, mutateBytes(r, []byte(v))))
}

// c18Partner derives the second argument of pair entry points: same byte length
// but a different rune count, a prefix, a reversal, a mutation.
func c18Partner(r *rt.Rand, a string) string {
	switch r.Intn(8) {
	case 0:
		return a
	case 1: // same byte length, different rune count
		b := []byte(a)
		for i := 0; i+1 < len(b); i++ {
			if b[i] < 0x80 && b[i+1] < 0x80 && r.Chance(1, 3) {
				b[i], b[i+1] = 0xc3, 0xa9
				i++
			}
		}
		return string(b)
	case 2:
		b := []byte(a)
		for i := 0; i+1 < len(b); i++ {
			if b[i] >= 0xc2 && b[i] < 0xe0 && r.Bool() {
				b[i], b[i+1] = 'a', 'b'
			}
		}
		return string(b)
	case 3:
		return a[:r.Intn(len(a)+1)]
	case 4:
		return a + c18Runes[r.Intn(len(c18Runes))]
	case 5:
		b := []byte(a)
		for i, j := 0, len(b)-1; i < j; i, j = i+1, j-1 {
			b[i], b[j] = b[j], b[i]
		}
		return string(b)
	case 6:
		return string(mutateBytes(r, []byte(a)))
	}
	return c18Hostile(r, "sem")
}

// c18Shaped returns an input of exactly n bytes that has the shape of a valid text of pkg.
func c18Shaped(pkg string, n int) string {
	if n <= 0 {
		return ""
	}
	switch pkg {
	case "date":
		if n >= 8 {
			return strings.Repeat("1", n-6) + "-01-01"
		}
		return strings.Repeat("1", n)
	case "roman":
		return strings.Repeat("M", n)
	case "sem":
		if n >= 7 {
			return "1.0.0-" + strings.Repeat("a", n-6)
		}
		return "1.0.0-a"[:n]
	case "size":
		return strings.Repeat(" ", n-1) + "1"
	}
	const hex = "0123456789abcdef"
	b := make([]byte, n)
	for i := range b {
		b[i] = hex[i%16]
	}
	for _, p := range []int{8, 13, 18, 23} {
		if p < n {
			b[p] = '-'
		}
	}
	return string(b)
}

// c18Marked returns n bytes of non-repeating marked garbage (every 8-byte window is recognisable).
func c18Marked(r *rt.Rand, n int) string {
	const alpha = "QWERTYUPASDFGHJKLZXCVBNMqwertyupasdfghjkzxcvbnm23456789#@%&"
	return r.StringFrom(alpha, n)
}

func runC18(c *rt.Ctx) {
	dir := os.Getenv("VERIF_C18_CHILD")
	if dir == "" {
		c18Parent(c)
		return
	}
	c18Child(c, dir)
}

func c18Parent(c *rt.Ctx) {
	dir, err := os.MkdirTemp("", "verif-c18-")
	if err != nil {
		c.Inconclusive("cannot create scratch directory: " + err.Error())
		return
	}
	defer os.RemoveAll(dir)
	nslots := runtime.GOMAXPROCS(0) + 1
	fl, err := c18OpenFlight(filepath.Join(dir, "inflight"), nslots, true)
	if err != nil {
		c.Inconclusive("cannot create in-flight file: " + err.Error())
		return
	}
	outF, _ := os.Create(filepath.Join(dir, "stdout"))
	errF, _ := os.Create(filepath.Join(dir, "stderr"))
	cmd := exec.Command(os.Args[0], "C18")
	cmd.Env = append(os.Environ(), "VERIF_C18_CHILD="+dir, "GOTRACEBACK=single")
	cmd.Stdout, cmd.Stderr = outF, errF
	if err := cmd.Start(); err != nil {
		c.Inconclusive("cannot start child: " + err.Error())
		return
	}
	done := make(chan error, 1)
	go func() { done <- cmd.Wait() }()
	budget := 20 * time.Minute
	if !c.Quick() {
		budget = 150 * time.Minute
	}
	timedOut := false
	select {
	case <-done:
	case <-time.After(budget):
		timedOut = true
		_ = cmd.Process.Kill()
		<-done
	}
	outF.Close()
	errF.Close()
	stdout, _ := os.ReadFile(filepath.Join(dir, "stdout"))
	stderr, _ := os.ReadFile(filepath.Join(dir, "stderr"))
	if marker, err := os.ReadFile(filepath.Join(dir, "done")); err == nil {
		os.Stdout.Write(stdout)
		code, _ := strconv.Atoi(strings.TrimSpace(string(marker)))
		os.Stdout.Sync()
		os.RemoveAll(dir)
		os.Exit(code)
	}
	flights := fl.inFlight()
	tail := string(stderr)
	if len(tail) > 3000 {
		tail = tail[:1500] + "\n...\n" + tail[len(tail)-1500:]
	}
	if timedOut {
		for _, f := range flights {
			fmt.Printf("in flight when the watchdog fired: entry=%s limit_setting=%d len_a=%d a=%q\n", c18Entries[f.entry].name, f.setting, f.lenA, clipStr(f.a, 200))
		}
		c.Inconclusive(fmt.Sprintf("child did not finish within %s (a hang cannot be told from a stalled machine by wall clock); %d calls in flight", budget, len(flights)))
		return
	}
	c.SetRule("child process died before finishing; the calls in flight at that moment are the witnesses")
	c.Serial("died", func(w *rt.W) {
		w.Eval(int64(len(flights)) + 1)
		w.NT(2)
		if len(flights) == 0 {
			w.Fail("child-died", "call", rt.Args("stderr", tail), "child process died with no call in flight", "normal exit", "the monitored process died\n"+tail)
		}
		for _, f := range flights {
			e := c18Entries[f.entry]
			w.Fail("fatal:"+e.name, "call", rt.Args("entry", e.name, "limit_setting", f.setting, "a", f.a, "b", f.b, "len_a", f.lenA, "len_b", f.lenB, "stderr", tail),
				"the process died while this call was in flight (fatal runtime error, stack exhaustion or out of memory)", "a value or an error", "entry point is not total\n"+tail)
		}
		w.Sample("died", map[string]any{"stderr": tail})
	})
}

func clipStr(s string, n int) string {
	if len(s) > n {
		return s[:n] + "…"
	}
	return s
}

func c18Child(c *rt.Ctx, dir string) {
	c.BeforeExit = func(code int) { _ = os.WriteFile(filepath.Join(dir, "done"), []byte(strconv.Itoa(code)), 0o644) }
	fl, err := c18OpenFlight(filepath.Join(dir, "inflight"), 0, false)
	if err != nil {
		c.Inconclusive("cannot open in-flight file: " + err.Error())
		return
	}
	c.SetRule(fmt.Sprintf("%d entry points (DefaultParser[string|[]byte] under every rule value incl. undefined bits, Valid, Parse*, Compare*, Latest*, DefaultComparePreRelease in four instantiations, Ver.Compare/Latest/Valid on arbitrary field strings, UnmarshalText/JSON/Binary, Scan with nine dynamic types) x seeded hostile inputs (random bytes, invalid UTF-8 and multi-byte runes at every offset of valid texts, NUL, doubled/upper-cased/mutated valid texts, pairs of equal byte length and different rune count), ", len(c18Entries)) +
		"x MaxInputLength in {0, 1, default, default+1} with shaped and marked-garbage inputs of length limit-1, limit, limit+1, 10x (and 10x-1000x the default with the limit disabled), deep JSON nesting, and an allocation monitor on a single-threaded subset; run in a child process with an in-flight recorder. " +
		"distinct_nontrivial counts distinct (entry point, input) cases (by hash) whose input contains a non-ASCII byte or exceeds the limit")
	c.Assume("a hang is reported as inconclusive by the watchdog, not as a violation; fatal runtime errors are attributed to the calls recorded in flight")
	{
		sc := rt.ReplayCtx("C18")
		bad := len(c18Entries)
		c18Entries = append(c18Entries, c18Entry{"sem", "selftest-panicking-entry", false, false, func(a, _ string) (bool, error) { r := []rune(a); _ = r[len(a)-1]; return true, nil }})
		c18Entries = append(c18Entries, c18Entry{"sem", "selftest-echoing-entry", true, false, func(a, _ string) (bool, error) {
			if len(a) > sem.MaxInputLength {
				return true, fmt.Errorf("%w: %q", sem.ErrInputTooLong, a)
			}
			return true, nil
		}})
		sc.Serial("selftest", func(w *rt.W) {
			c18Call(w, nil, bad, 2, "ééa", "")
			c18Call(w, nil, bad+1, 2, c18Marked(w.Rng, 2000), "")
		})
		c18Entries = c18Entries[:bad]
		c.SelfTest("monitor-flags-panic-and-echo", sc.Violations() == 2)
	}

	nHostile := c.Pick(60000, 2500000) // per package and limit setting
	pkgs := []string{"date", "roman", "sem", "size", "uu"}
	byPkg := map[string][]int{}
	for i, e := range c18Entries {
		byPkg[e.pkg] = append(byPkg[e.pkg], i)
	}

	// (4) allocation monitor, single-threaded, before the parallel phases
	func() {
		restore := c18ApplyLimit(0)
		defer restore()
		c.Serial("allocation", func(w *rt.W) {
			sample := []metrics.Sample{{Name: "/gc/heap/allocs:bytes"}}
			inputs := map[string][]string{
				"date":  {"999999999-12-31", strings.Repeat("9", 100000), "999999999999999999999-01-01", strings.Repeat("2021-01-01", 12000), strings.Repeat("-", 100000), strings.Repeat("0-", 60000)},
				"roman": {strings.Repeat("M", 200000), strings.Repeat("m", 1000) + "cmxcix", strings.Repeat("MD", 60000), strings.Repeat("IV", 60000), strings.Repeat("M ", 60000)},
				"sem":   {"99999999999999999999.99999999999999999999.99999999999999999999", "1.0.0-" + strings.Repeat("9", 100000), strings.Repeat("1.", 50000), "1.0.0-" + strings.Repeat("a.", 60000) + "a", "1.0.0+" + strings.Repeat("b.", 60000) + "b", "1.0.0-" + strings.Repeat("0.", 60000) + "1", "v1.0.0-" + strings.Repeat("a-", 60000) + "+" + strings.Repeat("1.", 30000) + "1"},
				"size": {strings.Repeat("000 ", 32768) + "001 kB", strings.Repeat("0_", 65536) + "1", strings.Repeat("1 ", 50000) + "B", strings.Repeat("12\u00a0", 30000) + "MiB", `"` + strings.Repeat("000 ", 32768) + `1 kB"`,
					`{"value":"` + strings.Repeat("00 ", 40000) + `1","unit":"kB"}`, `"` + strings.Repeat(`\u0030`, 20000) + `"`, `{` + strings.Repeat(`"k":1,`, 20000) + `"value":1,"unit":"B"}`, "99999999999999999999999999999999999YiB", `{"value":1e999999999,"unit":"B"}`, `1e999999999`, `{"value":18446744073709551615,"unit":"EiB"}`, strings.Repeat("[", 100000), `{"x":` + strings.Repeat("[", 9000) + strings.Repeat("]", 9000) + `,"value":1,"unit":"B"}`,
					`{"x":` + strings.Repeat(`{"a":`, 5000) + "1" + strings.Repeat("}", 5000) + `,"value":1,"unit":"B"}`, strings.Repeat("9", 100000) + "kB", `"` + strings.Repeat("9", 100000) + `"`},
				"uu": {strings.Repeat("f", 100000), "urn:uuid:" + strings.Repeat("0", 36), strings.Repeat("urn:uuid:", 12000) + "f81d4fae-7dec-11d0-a765-00a0c91e6bf6", strings.Repeat("ffff-", 24000), strings.Repeat("-", 100000)},
			}
			// pair entry points: very long inputs whose first difference comes after millions of equal
			// identifiers / bytes (work and stack must stay proportional to nothing worse than the length)
			stack := []metrics.Sample{{Name: "/memory/classes/heap/stacks:bytes"}}
			longA := strings.Repeat("1.", 3000000)
			pairs := [][2]string{{longA + "1", longA + "2"}, {longA + "a", longA + "a"}, {longA[:2000001], longA[:2000000] + "x"}, {strings.Repeat("a", 4000000) + "1", strings.Repeat("a", 4000000) + "02"},
				{strings.Repeat("é", 1000000) + "a", strings.Repeat("é", 1000000) + "é"}, {strings.Repeat("0", 3000000) + "1", strings.Repeat("0", 3000000) + "2"}}
			for _, ei := range byPkg["sem"] {
				e := c18Entries[ei]
				if !e.pair || e.limited {
					continue
				}
				for _, pr := range pairs {
					runtime.GC()
					metrics.Read(sample)
					metrics.Read(stack)
					before, sBefore := sample[0].Value.Uint64(), stack[0].Value.Uint64()
					c18Call(w, fl, ei, 0, pr[0], pr[1])
					metrics.Read(sample)
					metrics.Read(stack)
					alloc := sample[0].Value.Uint64() - before
					var sGrow uint64
					if stack[0].Value.Uint64() > sBefore {
						sGrow = stack[0].Value.Uint64() - sBefore
					}
					n := uint64(len(pr[0]) + len(pr[1]))
					if bound := uint64(1<<20) + 1024*n; alloc > bound {
						w.Fail("runaway-allocation:"+e.name, "call", rt.Args("entry", e.name, "limit_setting", 0, "a", clipStr(pr[0], 100), "b", clipStr(pr[1], 100), "len_a", len(pr[0]), "len_b", len(pr[1])), fmt.Sprintf("%d bytes allocated", alloc), fmt.Sprintf("<= %d", bound), "allocation out of proportion to the input")
					}
					if bound := uint64(8<<20) + 4*n; sGrow > bound {
						w.Fail("runaway-stack:"+e.name, "call", rt.Args("entry", e.name, "limit_setting", 0, "a", clipStr(pr[0], 100), "b", clipStr(pr[1], 100), "len_a", len(pr[0]), "len_b", len(pr[1])), fmt.Sprintf("goroutine stacks grew by %d bytes", sGrow), fmt.Sprintf("<= %d (8 MiB + 4 bytes per input byte)", bound), "stack depth proportional to the input: a longer input overflows the stack, which no recover() can catch")
					}
					w.ClassN("long-pair-monitored-call", 1)
				}
			}
			for _, pkg := range pkgs {
				for _, ei := range byPkg[pkg] {
					if c18Entries[ei].pair {
						continue
					}
					for _, in := range inputs[pkg] {
						runtime.GC()
						metrics.Read(sample)
						before := sample[0].Value.Uint64()
						c18Call(w, fl, ei, 0, in, "")
						metrics.Read(sample)
						alloc := sample[0].Value.Uint64() - before
						bound := uint64(1<<20) + 1024*uint64(len(in))
						if alloc > bound {
							w.Fail("runaway-allocation:"+c18Entries[ei].name, "call", rt.Args("entry", c18Entries[ei].name, "limit_setting", 0, "a", clipStr(in, 300), "b", "", "len_a", len(in)), fmt.Sprintf("%d bytes allocated", alloc), fmt.Sprintf("<= %d (1 MiB + 1 KiB per input byte)", bound), "allocation driven by a number inside the input rather than by its length")
						}
						w.ClassN("allocation-monitored-call", 1)
					}
				}
			}
		})
	}()
	// retention: a long-lived process parses many different inputs. What stays reachable after they are gone
	// (interning tables, caches without bounds) grows with the history; measured as live heap after garbage
	// collection around 50,000 distinct valid inputs per package, single-threaded, nothing kept by the harness.
	func() {
		restore := c18ApplyLimit(2)
		defer restore()
		c.Serial("retention", func(w *rt.W) {
			live := func() uint64 {
				runtime.GC()
				runtime.GC()
				var ms runtime.MemStats
				runtime.ReadMemStats(&ms)
				return ms.HeapAlloc
			}
			for _, pkg := range pkgs {
				r := rt.NewRand(c.Seed, "C18/retention/"+pkg, 0)
				var first int = -1
				for _, ei := range byPkg[pkg] {
					if c18Entries[ei].limited && !c18Entries[ei].pair && first < 0 {
						first = ei
					}
				}
				if first < 0 {
					continue
				}
				e := &c18Entries[first]
				before := live()
				var fed uint64
				const n = 50000
				for i := 0; i < n; i++ {
					in := c18Valid(r, pkg)
					if pkg == "sem" { // distinct long identifiers, as build metadata with commit hashes has them
						in = fmt.Sprintf("%d.%d.%d-%s+%s", i%7, i%11, i, r.StringFrom("abcdefghijklmnopqrstuvwxyz0123456789", 100+r.Intn(300)), r.StringFrom("0123456789abcdef", 40))
					}
					fed += uint64(len(in))
					_, _ = e.call(in, "")
				}
				after := live()
				w.Eval(n)
				if bound := uint64(2<<20) + fed/8; after > before && after-before > bound {
					w.Fail("memory-retained-across-calls:"+pkg, "retention", rt.Args("entry", e.name, "package", pkg, "calls", n, "input_bytes", fed), fmt.Sprintf("live heap grew by %d bytes over %d calls with %d bytes of distinct input", after-before, n, fed), fmt.Sprintf("<= %d (2 MiB + an eighth of the input bytes)", bound), "memory stays reachable in proportion to the inputs seen: a long-lived process runs away")
				}
				w.ClassN("retention-monitored-package", 1)
			}
			// the same, with one input under 300,000 different rule values (undefined bits included): state kept per
			// rule value grows with the flags a program happens to pass
			{
				before := live()
				const n = 300000
				for i := 0; i < n; i++ {
					_, _ = date.DefaultParser("2021-03-04", date.Rule(i))
					_, _ = roman.DefaultParser("MCMXCIV", roman.Rule(i))
					_ = roman.Valid("xiv", roman.Rule(i))
					_, _ = sem.DefaultParser("v1.2.3-rc.1+b7", sem.Rule(i))
					_, _ = size.DefaultParser(`{"value":1,"unit":"KiB"}`, size.Rule(i))
					_, _ = uu.DefaultParser("f81d4fae-7dec-11d0-a765-00a0c91e6bf6", uu.Rule(i))
				}
				after := live()
				w.Eval(6 * n)
				if after > before && after-before > 4<<20 {
					w.Fail("memory-retained-per-rule-value", "retention", rt.Args("entry", "DefaultParser of the five packages and roman.Valid", "package", "all", "calls", 6*n, "input_bytes", 0), fmt.Sprintf("live heap grew by %d bytes over %d rule values", after-before, n), "<= 4 MiB", "memory stays reachable per rule value passed: a program that passes computed flags runs away")
				}
				w.ClassN("retention-over-rule-values", 1)
			}
		})
	}()
	c.Require("retention-monitored-package", 5)
	c.Require("retention-over-rule-values", 1)
	c.Require("allocation-monitored-call", 100)
	c.Require("long-pair-monitored-call", 30)

	for setting := 0; setting < c18Settings; setting++ {
		setting := setting
		restore := c18ApplyLimit(setting)
		nHostile := nHostile
		if setting >= 4 {
			nHostile /= 2
		}
		if setting >= 10 {
			nHostile /= 8
		} else if setting >= 8 { // limits raised to the maximum: a short stream, allocation watched on the first call of every entry point
			nHostile /= 8
			tooMuch := false
			c.Serial(fmt.Sprintf("limit-raised-to-the-maximum-%d", setting), func(w *rt.W) {
				sample := []metrics.Sample{{Name: "/gc/heap/allocs:bytes"}}
				for ei := range c18Entries {
					e := &c18Entries[ei]
					if !e.limited {
						continue
					}
					in := c18Valid(w.Rng, e.pkg)
					metrics.Read(sample)
					before := sample[0].Value.Uint64()
					c18Call(w, fl, ei, setting, in, in)
					metrics.Read(sample)
					if alloc := sample[0].Value.Uint64() - before; alloc > 1<<26 {
						tooMuch = true
						w.Fail("runaway-allocation:"+e.name, "call", rt.Args("entry", e.name, "limit_setting", setting, "limit", c18LimitFor(e.pkg, setting), "a", in, "b", in, "len_a", len(in), "len_b", len(in)), fmt.Sprintf("%d bytes allocated", alloc), "<= 64 MiB", "allocation driven by the configured limit rather than by the input")
					}
					w.ClassN("entry-point-under-maximum-limit", 1)
				}
			})
			if tooMuch {
				restore()
				continue
			}
		}
		c.Parallel(fmt.Sprintf("hostile-%d", setting), 0, func(w *rt.W) {
			r := w.Rng
			for _, pkg := range pkgs {
				entries := byPkg[pkg]
				limit := c18LimitFor(pkg, setting)
				if pkg == "date" && w.Shard == 1 { // the days around the wall clock are inputs like any other
					now := time.Now()
					for _, t := range []time.Time{now.UTC(), now} {
						for dd := -1; dd <= 1; dd++ {
							x := t.AddDate(0, 0, dd)
							for _, a := range []string{x.Format("2006-01-02"), x.Format("20060102")} {
								for _, ei := range entries {
									c18Call(w, fl, ei, setting, a, a)
								}
							}
						}
					}
					w.ClassN("days-around-today", 1)
				}
				// limit contract: lengths around the limit, shaped and marked garbage
				lens := []int{limit - 1, limit, limit + 1, 10 * limit, limit + 2, 2 * limit}
				if limit < 0 {
					lens = []int{0, 1, c18Defaults[pkg], 10 * c18Defaults[pkg]}
				}
				if limit > 1<<30 {
					lens = []int{c18Defaults[pkg], 10 * c18Defaults[pkg], 1000 * c18Defaults[pkg]}
				}
				if limit == 0 {
					d := c18Defaults[pkg]
					lens = []int{d, d + 1, 10 * d, 100 * d, 1000 * d}
				}
				if limit == 0 && w.Shard == 4+len(pkg)%5 { // far beyond any built-in cap, one entry point per package (thorough: all)
					for _, n := range []int{1<<16 + 5, 1<<20 + 5, 1<<24 + 5} {
						a := c18Shaped(pkg, n)
						done := 0
						for _, ei := range entries {
							if !c18Entries[ei].limited || c18Entries[ei].pair || (c.Quick() && done >= 1) {
								continue
							}
							c18Call(w, fl, ei, setting, a, "")
							done++
						}
						w.ClassN("megabytes-with-the-limit-disabled", 1)
					}
				}
				if w.Shard < 4 {
					for _, n := range lens {
						if n < 0 {
							continue
						}
						for variant := 0; variant < 8; variant++ {
							var a string
							frame := func(head, tail string) string { // head + invalid UTF-8 (each byte decodes to three) + tail, n bytes in all
								if k := n - len(head) - len(tail); k >= 0 {
									return head + strings.Repeat("\xff", k) + tail
								}
								return ""
							}
							switch variant {
							case 4:
								a = frame(`{"unit":"`, `","value":1}`)
							case 5:
								a = frame(`{"value":"`, `","unit":"B"}`)
							case 6:
								a = frame(`"`, `"`)
							case 7:
								a = frame(`{"`, `":1,"value":1,"unit":"B"}`)
							case 0:
								a = c18Shaped(pkg, n)
							case 1:
								a = c18Marked(r, n)
							case 2:
								a = c18Shaped(pkg, n)
								if n > 2 {
									a = a[:n/2] + "é" + a[n/2+2:]
								}
							default:
								if n >= 2 {
									a = strings.Repeat("\u00a0", n/2) + strings.Repeat("1", n%2)
								}
							}
							for _, ei := range entries {
								c18Call(w, fl, ei, setting, a, a)
								w.NTHash(rt.Hash64(c18Entries[ei].name, a))
							}
							w.ClassN("limit-boundary-input", 1)
						}
					}
				}
				for i := 0; i < nHostile/w.NShards; i++ {
					a := c18Hostile(r, pkg)
					b := ""
					ei := entries[r.Intn(len(entries))]
					if c18Entries[ei].pair {
						b = c18Partner(r, a)
					}
					c18Call(w, fl, ei, setting, a, b)
					nonASCII := false
					for k := 0; k < len(a); k++ {
						if a[k] >= 0x80 {
							nonASCII = true
							break
						}
					}
					if nonASCII || (limit != 0 && len(a) > limit) {
						w.NTHash(rt.Hash64(c18Entries[ei].name, a, b))
						w.ClassN("hostile-non-ascii-or-over-limit:"+pkg, 1)
					}
					if c18Entries[ei].pair && len(a) == len(b) && a != b {
						w.ClassN("pair-equal-byte-length", 1)
					}
					if i%20011 == 0 && w.Class("sample:"+pkg) {
						w.Sample("hostile:"+pkg, map[string]any{"entry": c18Entries[ei].name, "a": a, "b": b, "limit": limit})
					}
				}
			}
		})
		restore()
		c.Serial(fmt.Sprintf("reread-too-long-errors-%d", setting), c18RereadKept)
	}
	// hostile inputs at the edges of readable memory (a stray read is a fault, reported with the input)
	func() {
		restore := c18ApplyLimit(0)
		defer restore()
		r := rt.NewRand(c.Seed, "C18/guarded", 0)
		for _, pkg := range pkgs {
			var texts []string
			for len(texts) < 300 {
				var t string
				switch len(texts) % 3 {
				case 0:
					t = c18Valid(r, pkg)
				case 1:
					t = c18Hostile(r, pkg)
				default:
					t = c18Shaped(pkg, 1+len(texts)%70)
				}
				if len(t) > 0 && len(t) <= 2000 {
					texts = append(texts, t)
				}
			}
			guardedInputs(c, "C18", pkg, texts)
		}
	}()
	c.Require("too-long-error-reread-after-limit-change", 1000)
	c.Require("megabytes-with-the-limit-disabled", 15)
	c.Require("entry-point-under-maximum-limit", 100)
	c.Require("days-around-today", 8)
	for _, pkg := range pkgs {
		c.Require("over-limit:"+pkg, 100)
		c.Require("exactly-at-limit:"+pkg, 10)
		c.Require("limit-disabled-long-input:"+pkg, 10)
		c.Require("hostile-non-ascii-or-over-limit:"+pkg, 10000)
	}
	c.Require("pair-equal-byte-length", 1000)
	c.Require("limit-boundary-input", 100)
}
