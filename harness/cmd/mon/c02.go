package main

import (
	"encoding/json"
	"errors"
	"fmt"

	"go.lstv.dev/util/roman"

	"verif/ref"
	"verif/rt"
)

// C02 — Roman numerals round-trip under every format flag combination.

func init() {
	props["C02"] = runC02
	replayers["C02/format-parse"] = func(v rt.Violation) string {
		c := rt.ReplayCtx("C02")
		c.Serial("replay", func(w *rt.W) { c02Case(w, uint64(rt.ArgInt(v, "n")), int(rt.ArgInt(v, "flags"))) })
		return c.Report()
	}
	replayers["C02/verbs"] = func(v rt.Violation) string {
		c := rt.ReplayCtx("C02")
		old := roman.DefaultFormat
		roman.DefaultFormat = roman.Format(rt.ArgInt(v, "default_format"))
		defer func() { roman.DefaultFormat = old }()
		c.Serial("replay", func(w *rt.W) { c02Verbs(w, uint64(rt.ArgInt(v, "n"))) })
		return c.Report()
	}
}

// romanFlagBits lists the library's seven independent flag constants; index i of a
// flag-set number selects romanFlagBits[i].
var romanFlagBits = []roman.Format{roman.FormatLong4, roman.FormatLong40, roman.FormatLong400, roman.FormatLong9, roman.FormatLong90, roman.FormatLong900, roman.FormatLowerCase}

func romanFlags(set int) (roman.Format, ref.RomanFlags) {
	var f roman.Format
	for i, b := range romanFlagBits {
		if set>>uint(i)&1 == 1 {
			f |= b
		}
	}
	return f, refRomanFlags(f)
}

func refRomanFlags(f roman.Format) ref.RomanFlags {
	return ref.RomanFlags{
		Long4: f&roman.FormatLong4 != 0, Long40: f&roman.FormatLong40 != 0, Long400: f&roman.FormatLong400 != 0,
		Long9: f&roman.FormatLong9 != 0, Long90: f&roman.FormatLong90 != 0, Long900: f&roman.FormatLong900 != 0,
		Lower: f&roman.FormatLowerCase != 0,
	}
}

func c02Fail(w *rt.W, key string, n uint64, set int, path, got, want string) {
	f, _ := romanFlags(set)
	w.Fail(key, "format-parse", rt.Args("n", n, "flags", set, "format_value", int(f), "path", path), got, want, path+" disagrees with the canonical-numeral reference")
}

func c02Case(w *rt.W, n uint64, set int) {
	f, rf := romanFlags(set)
	want := ref.RomanFormat(n, rf)
	out, err := roman.DefaultFormatter(nil, roman.Number(n), f)
	w.Eval(1)
	if err != nil || string(out) != want {
		c02Fail(w, "format", n, set, "DefaultFormatter", string(out), want)
		return
	}
	if set&63 != 0 && hasFourOrNine(n) {
		// caller buffers whose spare capacity lies between the short-form and the long-form length
		short := len(ref.RomanFormat(n, ref.RomanFlags{}))
		for _, k := range []int{short, len(want) - 1, len(want)} {
			if k < 0 {
				continue
			}
			const pre = "VOL.MDCLXVI " // existing content made of the letters the formatter itself emits
			o, err := roman.DefaultFormatter(append(make([]byte, 0, k+len(pre)), pre...), roman.Number(n), f)
			w.Eval(1)
			if err != nil || string(o) != pre+want {
				c02Fail(w, "format-spare-capacity", n, set, fmt.Sprintf("DefaultFormatter(%q with spare %d)", pre, k), string(o), pre+want)
			}
		}
	}
	if (n+uint64(set))%16 == 0 && len(want) > 0 {
		// the numeral sits inside a larger buffer (two numerals back to back): parsing one must leave the other alone
		rec := append(append(make([]byte, 0, 2*len(want)+8), want...), want...)
		g, err := roman.DefaultParser(rec[:len(want)], 0)
		w.Eval(1)
		if (roman.MaxInputLength == 0 || len(want) <= roman.MaxInputLength) && (err != nil || uint64(g) != n) {
			c02Fail(w, "parse-subslice", n, set, "DefaultParser[[]byte] on the first of two numerals in one buffer", fmt.Sprint(uint64(g), " err=", err), fmt.Sprint(n))
		}
		if string(rec[len(want):]) != want {
			c02Fail(w, "parser-wrote-behind-input", n, set, "DefaultParser[[]byte] on the first of two numerals in one buffer", string(rec[len(want):]), want)
		}
	}
	lower := rf.Lower
	tooLong := roman.MaxInputLength != 0 && len(want) > roman.MaxInputLength
	judge := func(path string, got roman.Number, err error, isValid bool) {
		w.Eval(1)
		if tooLong {
			if err == nil || !errors.Is(err, roman.ErrInputTooLong) {
				c02Fail(w, "limit", n, set, path, fmt.Sprint(got, " err=", err), "ErrInputTooLong")
			}
			return
		}
		if err != nil {
			c02Fail(w, "rejected", n, set, path, "err="+err.Error(), "accepted")
			return
		}
		if !isValid && uint64(got) != n {
			key := "parse-value"
			if lower {
				key = "parse-value-lower"
			}
			c02Fail(w, key, n, set, path+" of "+want, fmt.Sprint(uint64(got)), fmt.Sprint(n))
		}
	}
	g, err := roman.DefaultParser(want, 0)
	judge("DefaultParser[string]", g, err, false)
	g, err = roman.DefaultParser(out, 0)
	judge("DefaultParser[[]byte]", g, err, false)
	judge("Valid[string]", 0, roman.Valid(want, 0), true)
	judge("Valid[[]byte]", 0, roman.Valid(out, 0), true)
	if n != 0 { // a non-empty numeral is no concern of the rule that forbids the empty one
		g, err = roman.DefaultParser(want, roman.RuleDisableEmptyAsZero)
		judge("DefaultParser[string](RuleDisableEmptyAsZero)", g, err, false)
		g, err = roman.DefaultParser(out, roman.RuleDisableEmptyAsZero)
		judge("DefaultParser[[]byte](RuleDisableEmptyAsZero)", g, err, false)
		judge("Valid[string](RuleDisableEmptyAsZero)", 0, roman.Valid(want, roman.RuleDisableEmptyAsZero), true)
	}
	// named types that print themselves differently from what they contain
	g, err = roman.DefaultParser(loudS(want), 0)
	judge("DefaultParser[string type with String()]", g, err, false)
	judge("Valid[[]byte type with trimming String()]", 0, roman.Valid(trimB(want), 0), true)
	if set%2 == 0 {
		judge("Valid[string type with Error()]", 0, roman.Valid(errS(want), 0), true)
	} else {
		g, err = roman.DefaultParser(fmtS(want), 0)
		judge("DefaultParser[string type with Format()]", g, err, false)
	}
}

func c02Verbs(w *rt.W, n uint64) {
	df := roman.DefaultFormat
	num := roman.Number(n)
	wantD := ref.RomanFormat(n, refRomanFlags(df))
	fail := func(key, path, got, want string) {
		w.Fail(key, "verbs", rt.Args("n", n, "default_format", int(df), "path", path), got, want, path+" disagrees with the canonical-numeral reference")
	}
	mt, err := num.MarshalText()
	if err != nil || string(mt) != wantD {
		fail("marshaltext", "MarshalText", string(mt), wantD)
	}
	if s := num.String(); s != wantD {
		fail("string", "String", s, wantD)
	}
	long := roman.FormatLong
	for _, vb := range []struct {
		verb string
		f    roman.Format
	}{{"%R", 0}, {"%r", roman.FormatLowerCase}, {"%L", long}, {"%l", long | roman.FormatLowerCase}, {"%s", df}, {"%v", df},
		{"%+v", df}, {"%#v", df}, {"%+R", 0}, {"%-9r", roman.FormatLowerCase}, {"%09L", long}, {"%.2l", long | roman.FormatLowerCase}, {"% s", df}} {
		want := ref.RomanFormat(n, refRomanFlags(vb.f))
		if s := fmt.Sprintf(vb.verb, num); s != want {
			fail("verb", "Sprintf "+vb.verb, s, want)
		}
	}
	if n%16 == 0 || n < 64 {
		for _, verb := range letterVerbs { // only R r L l select a format of their own
			f := df
			switch verb {
			case "%R":
				f = 0
			case "%r":
				f = roman.FormatLowerCase
			case "%L":
				f = long
			case "%l":
				f = long | roman.FormatLowerCase
			}
			if s, want := fmt.Sprintf(verb, num), ref.RomanFormat(n, refRomanFlags(f)); s != want {
				fail("verb", "Sprintf "+verb, s, want)
			}
		}
		for _, vb := range []struct {
			verb rune
			f    roman.Format
		}{{'s', df}, {'R', 0}, {'r', roman.FormatLowerCase}, {'L', long}, {'l', long | roman.FormatLowerCase}} {
			if s, want := formatVia(num, vb.verb), ref.RomanFormat(n, refRomanFlags(vb.f)); s != want {
				fail("verb", "Format(%"+string(vb.verb)+") through a plain fmt.State", s, want)
			}
		}
		for _, verb := range wideVerbs {
			if s, want := fmt.Sprintf(verb, num), wantD; s != want {
				fail("verb", "Sprintf "+verb, s, want)
			}
		}
		w.Eval(49 + 208)
		// through encoding/json (a consumer of MarshalText/UnmarshalText): the numeral as a JSON string, read back
		// into a variable that holds another number, alone and inside a document
		jb, jerr := json.Marshal(num)
		if jerr != nil || string(jb) != `"`+wantD+`"` {
			fail("json", "json.Marshal", string(jb), `"`+wantD+`"`)
		}
		if roman.MaxInputLength == 0 || len(wantD) <= roman.MaxInputLength {
			back := roman.Number(n + 14)
			doc := struct {
				A roman.Number
				L []roman.Number
			}{roman.Number(n + 7), []roman.Number{5, 6}}
			e1 := json.Unmarshal(jb, &back)
			e2 := json.Unmarshal([]byte(`{"A":`+string(jb)+`,"L":[`+string(jb)+`,`+string(jb)+`]}`), &doc)
			if e1 != nil || e2 != nil || uint64(back) != n || uint64(doc.A) != n || len(doc.L) != 2 || uint64(doc.L[0]) != n || uint64(doc.L[1]) != n {
				fail("json", "json.Unmarshal of "+string(jb)+" into used variables", fmt.Sprint(uint64(back), " ", uint64(doc.A), " ", doc.L, " ", e1, " ", e2), fmt.Sprint(n))
			}
		}
		w.Eval(3)
	}
	w.Eval(15)
	if roman.MaxInputLength == 0 || len(wantD) <= roman.MaxInputLength {
		u := roman.Number(n + 12345) // the receiver already holds another value
		err := u.UnmarshalText([]byte(wantD))
		w.Eval(1)
		if err != nil {
			fail("unmarshaltext-rejected", "UnmarshalText "+wantD, "err="+err.Error(), "accepted")
		} else if uint64(u) != n {
			key := "unmarshaltext-value"
			if df&roman.FormatLowerCase != 0 {
				key = "unmarshaltext-value-lower"
			}
			fail(key, "UnmarshalText "+wantD, fmt.Sprint(uint64(u)), fmt.Sprint(n))
		}
	}
}

func tail(s string, n int) string {
	if len(s) > n {
		return s[len(s)-n:]
	}
	return s
}

var c02NamedConstants = []struct {
	name string
	f    roman.Format
	rf   ref.RomanFlags
}{
	{"FormatLong4x", roman.FormatLong4x, ref.RomanFlags{Long4: true, Long40: true, Long400: true}},
	{"FormatLong9x", roman.FormatLong9x, ref.RomanFlags{Long9: true, Long90: true, Long900: true}},
	{"FormatLong", roman.FormatLong, ref.RomanFlags{Long4: true, Long40: true, Long400: true, Long9: true, Long90: true, Long900: true}},
	{"FormatLong9x|FormatLowerCase", roman.FormatLong9x | roman.FormatLowerCase, ref.RomanFlags{Long9: true, Long90: true, Long900: true, Lower: true}},
	{"FormatLong4x|FormatLong9", roman.FormatLong4x | roman.FormatLong9, ref.RomanFlags{Long4: true, Long40: true, Long400: true, Long9: true}},
	{"FormatLong4", roman.FormatLong4, ref.RomanFlags{Long4: true}}, {"FormatLong40", roman.FormatLong40, ref.RomanFlags{Long40: true}}, {"FormatLong400", roman.FormatLong400, ref.RomanFlags{Long400: true}},
	{"FormatLong9", roman.FormatLong9, ref.RomanFlags{Long9: true}}, {"FormatLong90", roman.FormatLong90, ref.RomanFlags{Long90: true}}, {"FormatLong900", roman.FormatLong900, ref.RomanFlags{Long900: true}},
	{"FormatLowerCase", roman.FormatLowerCase, ref.RomanFlags{Lower: true}},
}

// c02Named formats n under every named format constant of the package.
func c02Named(w *rt.W, n uint64) {
	for _, nf := range c02NamedConstants {
		out, err := roman.DefaultFormatter(nil, roman.Number(n), nf.f)
		w.Eval(1)
		if want := ref.RomanFormat(n, nf.rf); err != nil || string(out) != want {
			w.Fail("format-named-constant", "named", rt.Args("n", n, "constant", nf.name, "format_value", int(nf.f)), string(out), want, "roman."+nf.name+" does not select the forms its documentation names")
		}
	}
}

func hasFourOrNine(n uint64) bool {
	for r := n % 1000; r > 0; r /= 10 {
		if d := r % 10; d == 4 || d == 9 {
			return true
		}
	}
	return false
}

func init() {
	replayers["C02/named"] = func(v rt.Violation) string {
		c := rt.ReplayCtx("C02")
		c.Serial("replay", func(w *rt.W) { c02Named(w, rt.ArgUint(v, "n")) })
		return c.Report()
	}
	ns := []uint64{0, 1, 4, 9, 444, 1994, 3999, 4000, 127999}
	coldCases["C02"] = coldGeneric([]func(){
		func() { _, _ = roman.DefaultParser("", 0) },
		func() { _, _ = roman.DefaultFormatter(nil, 0, roman.FormatLowerCase) },
		func() { _ = roman.Valid("mmxxiv", 0) },
		func() { var n roman.Number; _ = n.UnmarshalText([]byte("iiii")) },
		func() { _ = fmt.Sprintf("%l", roman.Number(49)) },
		func() {},
	}, func(w *rt.W, k int) {
		for _, set := range []int{0, 127, 64, 63} {
			c02Case(w, ns[k], set)
		}
		c02Verbs(w, ns[k])
	}, len(ns))
}

func runC02(c *rt.Ctx) {
	soloRun(c, "roman")
	retainedAcrossCollections(c, "Number.MarshalText / DefaultFormatter(nil)", 256, func(i int) ([]byte, string) {
		n := uint64(1 + i*37%4999)
		if i%2 == 0 {
			b, _ := roman.Number(n).MarshalText()
			return b, ref.RomanFormat(n, refRomanFlags(roman.DefaultFormat))
		}
		b, _ := roman.DefaultFormatter(nil, roman.Number(n), roman.FormatLowerCase)
		return b, ref.RomanFormat(n, refRomanFlags(roman.FormatLowerCase))
	})
	appenderSweep(c, func() []any {
		var out []any
		for _, v := range []roman.Number{roman.Number(0), roman.Number(1), roman.Number(4), roman.Number(1994), roman.Number(3999), roman.Number(4000), roman.Number(123456)} {
			v := v
			out = append(out, v, &v)
		}
		return out
	}())
	configuredEpisode() // the process has a past: failing configured Formatters and Parsers, since restored
	c.Extra("history_before_the_streams", "an episode of failing configured Formatter/Parser variables in all five packages")
	c.SetRule("every n in [0,130000] x every one of the 128 subsets of the seven format flags is enumerated once (exhaustive): formatter output vs canonical reference, then parsed back as string and []byte and validated; " +
		"MarshalText/UnmarshalText, String and the six fmt verbs run under each of the 128 DefaultFormat values on all n < 4000 plus a stride and boundary set above. " +
		"distinct_nontrivial counts distinct (n, flag set) pairs with a 4 or 9 digit or a non-empty flag set")
	c.Assume("Go runtime and fmt trusted; canonical numerals and the accepted language come from harness/ref/roman.go (digit construction from one/five/ten symbols), independent of the code under test")

	c.SelfTest("MCMXCIV=1994", ref.RomanFormat(1994, ref.RomanFlags{}) == "MCMXCIV")
	c.SelfTest("long-forms", ref.RomanFormat(1994, ref.RomanFlags{Long4: true, Long90: true, Long900: true}) == "MDCCCCLXXXXIIII" && ref.RomanFormat(49, ref.RomanFlags{Long40: true, Long9: true, Lower: true}) == "xxxxviiii")
	c.SelfTest("zero-empty", ref.RomanFormat(0, ref.RomanFlags{Lower: true}) == "")
	{
		v, ok, amb := ref.RomanEval("mcmxciv")
		c.SelfTest("eval-mcmxciv", ok && !amb && v == 1994)
		_, ok2, _ := ref.RomanEval("IIIII")
		_, ok3, _ := ref.RomanEval("VX")
		c.SelfTest("eval-rejects", !ok2 && !ok3)
		sc := rt.ReplayCtx("C02")
		sc.Serial("selftest", func(w *rt.W) { c02Fail(w, "k", 4, 0, "p", "IIII", "IV") })
		c.SelfTest("monitor-records-a-mismatch", sc.Violations() == 1)
	}

	const maxN = 130000
	c.Parallel("format-parse", 0, func(w *rt.W) {
		for n := uint64(w.Shard); n <= maxN; n += uint64(w.NShards) {
			nine := hasFourOrNine(n)
			for set := 0; set < 128; set++ {
				c02Case(w, n, set)
				if nine || set != 0 {
					w.NT(1)
				}
			}
			if nine {
				w.Class("digit-4-or-9")
			}
			if n/1000+15 > 128 {
				w.Class("numeral-may-exceed-limit")
			}
			if n%9973 == 0 && w.Class("sample") {
				_, rf := romanFlags(int(n % 128))
				w.Sample("format-parse", map[string]any{"n": n, "flags": n % 128, "numeral": ref.RomanFormat(n, rf)})
			}
		}
	})
	c.Exhaustive("all (n, flags) for n in [0,130000] x 128 flag subsets: DefaultFormatter, DefaultParser[string|[]byte], Valid[string|[]byte]")

	// with the limit raised or disabled longer numerals must round-trip as well
	oldLimit := roman.MaxInputLength
	for _, limit := range []int{0, 129, 1000, 127} {
		roman.MaxInputLength = limit
		c.Parallel(fmt.Sprintf("limit-%d", limit), 0, func(w *rt.W) {
			ns := []uint64{113999, 127000, 127999, 128000, 128001, 129000, 130000, 130001, 200000, 999999, 1000000, 1000888, 123456}
			for i := 0; i < 400; i++ {
				ns = append(ns, uint64(w.Rng.Intn(1200000)))
			}
			for i, n := range ns {
				if i%w.NShards != w.Shard {
					continue
				}
				for _, set := range []int{0, 127, 64, 63, w.Rng.Intn(128)} {
					c02Case(w, n, set)
				}
				w.ClassN("other-input-limit", 1)
			}
		})
	}
	// limit disabled: every thousands count up to 2100 (block-wise writers go wrong at multiples of their
	// block size) with remainders of every shape, and numbers beyond 2^32 (numerals of several megabytes;
	// 32-bit shortcuts in the split into thousands and remainder go wrong only there)
	roman.MaxInputLength = 0
	c.Parallel("every-thousands-count", 0, func(w *rt.W) {
		for t := uint64(w.Shard); t <= 2100; t += uint64(w.NShards) {
			for _, rem := range []uint64{0, 1, 444, 999, uint64(w.Rng.Intn(1000))} {
				for _, set := range []int{0, 127, 64, 63} {
					c02Case(w, t*1000+rem, set)
				}
			}
			w.ClassN("thousands-count-under-disabled-limit", 1)
			w.NT(1)
		}
	})
	c.Require("thousands-count-under-disabled-limit", 2101)
	c.Parallel("beyond-2^32", 0, func(w *rt.W) {
		hs := []uint64{4294966999, 4294967000, 4294967295, 4294967296, 4294967999, 4294968999, 4908534998, 4908534999, 4908535999, 5000000000, 5000000999, 6000000444, 8589934999, 8589935000}
		for i := w.Shard; i < len(hs); i += w.NShards {
			for _, set := range []int{0, 127} {
				if !c.Quick() || i%5 == 0 && set == 0 {
					c02Case(w, hs[i], set) // including the parse back of the multi-megabyte numeral
					continue
				}
				f, rf := romanFlags(set)
				out, err := roman.DefaultFormatter(nil, roman.Number(hs[i]), f)
				w.Eval(1)
				if want := ref.RomanFormat(hs[i], rf); err != nil || string(out) != want {
					c02Fail(w, "format", hs[i], set, "DefaultFormatter", fmt.Sprintf("%d bytes ending %q err=%v", len(out), tail(string(out), 24), err), fmt.Sprintf("%d bytes ending %q", len(want), tail(want, 24)))
				}
			}
			w.ClassN("number-beyond-2^32", 1)
			w.NT(1)
		}
	})
	c.Require("number-beyond-2^32", 14)
	roman.MaxInputLength = oldLimit
	c.Require("other-input-limit", 100)

	// the named composite constants, as a caller writes them (not assembled from single bits by the harness)
	c.Parallel("named-format-constants", 0, func(w *rt.W) {
		for n := uint64(w.Shard); n <= 4999; n += uint64(w.NShards) {
			c02Named(w, n)
			w.ClassN("named-format-constant-numbers", 1)
		}
	})
	c.Require("named-format-constant-numbers", 5000)

	// verbs and marshal paths under every DefaultFormat value (global: barrier per value)
	var ns []uint64
	for n := uint64(0); n < 4000; n++ {
		ns = append(ns, n)
	}
	step := uint64(c.Pick(37, 1))
	for n := uint64(4000); n <= maxN; n += step {
		ns = append(ns, n)
	}
	ns = append(ns, 113888, 113889, 114000, 127999, 128000, 129999, maxN)
	old := roman.DefaultFormat
	for set := 0; set < 128; set++ {
		f, _ := romanFlags(set)
		roman.DefaultFormat = f
		c.Parallel("verbs", 0, func(w *rt.W) {
			for i := w.Shard; i < len(ns); i += w.NShards {
				c02Verbs(w, ns[i])
				if set != 0 {
					w.NT(1)
				}
			}
			w.ClassN("verbs-under-default-format", 1)
		})
	}
	// one number rendered again and again while DefaultFormat is switched back and forth, on one goroutine (a text kept
	// for a number that is asked for repeatedly must follow the configuration)
	c.Serial("default-format-switched-between-repeated-calls", func(w *rt.W) {
		for _, n := range []uint64{1994, 444, 3999, 9, 4000} {
			for _, pair := range [][2]int{{0, 127}, {127, 0}, {64, 63}, {0, 64}, {7, 56}} {
				fa, ra := romanFlags(pair[0])
				fb, rb := romanFlags(pair[1])
				step := func(f roman.Format, rf ref.RomanFlags, times int, when string) {
					roman.DefaultFormat = f
					for k := 0; k < times; k++ {
						num := roman.Number(n)
						want := ref.RomanFormat(n, rf)
						mt, _ := num.MarshalText()
						w.Eval(3)
						if s := num.String(); s != want || string(mt) != want || fmt.Sprintf("%s", num) != want {
							w.Fail("text-does-not-follow-default-format", "dfswitch", rt.Args("n", n, "formats", fmt.Sprint(pair), "when", fmt.Sprintf("%s, call %d", when, k)), fmt.Sprint(s, " / ", string(mt)), want, "String/MarshalText/%s must give the numeral of the current DefaultFormat")
							return
						}
					}
				}
				step(fa, ra, 12, "under the first format")
				step(fb, rb, 1, "after switching to the second")
				step(fa, ra, 2, "after switching back")
				step(fb, rb, 12, "under the second format")
				step(fa, ra, 1, "after switching back again")
				w.ClassN("default-format-switched-between-repeated-calls", 1)
			}
		}
	})
	c.Require("default-format-switched-between-repeated-calls", 25)
	roman.DefaultFormat = old

	// configuration: the package-level Formatter replaced by one that fails (for every number, or only
	// above 3999). String and the verbs are documented to fall back to DefaultFormatter, so they must
	// still give the canonical numeral for their own flags; MarshalText must report the error.
	oldF := roman.Formatter
	for mode := 0; mode < 4; mode++ {
		mode := mode
		roman.Formatter = func(buf []byte, n roman.Number, f roman.Format) ([]byte, error) {
			if mode%2 == 0 || n > 3999 {
				if mode >= 2 { // the usual shape of a wrapper: the bytes it has together with its error
					b, _ := roman.DefaultFormatter(buf, n, f)
					return append(b, "?!"...), errors.New("formatter refuses")
				}
				return nil, errors.New("formatter refuses")
			}
			return roman.DefaultFormatter(buf, n, f)
		}
		for _, df := range []roman.Format{0, roman.FormatLong, roman.FormatLowerCase, roman.FormatLong4 | roman.FormatLowerCase} {
			roman.DefaultFormat = df
			c.Parallel("failing-formatter", 0, func(w *rt.W) {
				for i, n := range []uint64{0, 4, 9, 14, 49, 444, 999, 1994, 3999, 4000, 4004, 4999, 12494} {
					if i%w.NShards != w.Shard {
						continue
					}
					num := roman.Number(n)
					fail := func(path, got, want string) {
						w.Fail("failing-formatter-fallback", "verbs", rt.Args("n", n, "default_format", int(df), "path", path, "formatter", "fails"), got, want, path+" must fall back to DefaultFormatter with its own flags when the configured Formatter fails")
					}
					long := roman.FormatLong
					for _, vb := range []struct {
						verb string
						f    roman.Format
					}{{"%R", 0}, {"%r", roman.FormatLowerCase}, {"%L", long}, {"%l", long | roman.FormatLowerCase}, {"%s", df}, {"%v", df}} {
						want := ref.RomanFormat(n, refRomanFlags(vb.f))
						if s := fmt.Sprintf(vb.verb, num); s != want {
							fail("Sprintf "+vb.verb, s, want)
						}
					}
					if s, want := num.String(), ref.RomanFormat(n, refRomanFlags(df)); s != want {
						fail("String", s, want)
					}
					if b, err := num.MarshalText(); (mode%2 == 0 || n > 3999) && n != 0 && err == nil {
						fail("MarshalText", string(b), "an error")
					}
					w.Eval(8)
					w.ClassN("failing-formatter", 1)
				}
			})
		}
	}
	roman.Formatter, roman.DefaultFormat = oldF, old
	c.Require("failing-formatter", 50)
	refillRun(c, c.Pick(40000, 400000), "roman")
	coldStart(c, "C02", 12)
	c.Require("digit-4-or-9", 1000)
	c.Require("numeral-may-exceed-limit", 1)
	c.Require("verbs-under-default-format", 128)
}
