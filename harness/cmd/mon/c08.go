package main

import (
	"database/sql"
	"encoding/json"
	"fmt"
	"math"
	"math/big"
	"reflect"
	"strconv"
	"strings"

	"go.lstv.dev/util/constraint"
	"go.lstv.dev/util/size"

	"verif/ref"
	"verif/rt"
)

// C08 — Size arithmetic is exact or refused, never wrapped.

func init() {
	props["C08"] = runC08
	replayers["C08/text"] = func(v rt.Violation) string {
		c := rt.ReplayCtx("C08")
		c.Serial("replay", func(w *rt.W) { c08Text(w, rt.ArgString(v, "text")) })
		return c.Report()
	}
	replayers["C08/new-uint64"] = func(v rt.Violation) string {
		c := rt.ReplayCtx("C08")
		c.Serial("replay", func(w *rt.W) { c08New(w, rt.ArgUint(v, "value"), rt.ArgString(v, "unit")) })
		return c.Report()
	}
}

type (
	dInt   int
	dInt8  int8
	dInt16 int16
	dInt32 int32
	dInt64 int64
	dUint  uint
	dU8    uint8
	dU16   uint16
	dU32   uint32
	dU64   uint64
	dF32   float32
	dF64   float64
)

// exactValue returns the exact rational value of a number of any kind (ok=false for NaN/Inf).
func exactValue(x any) (*big.Rat, bool) {
	v := reflect.ValueOf(x)
	switch v.Kind() {
	case reflect.Int, reflect.Int8, reflect.Int16, reflect.Int32, reflect.Int64:
		return new(big.Rat).SetInt64(v.Int()), true
	case reflect.Uint, reflect.Uint8, reflect.Uint16, reflect.Uint32, reflect.Uint64:
		return new(big.Rat).SetInt(new(big.Int).SetUint64(v.Uint())), true
	case reflect.Float32, reflect.Float64:
		f := v.Float()
		if math.IsNaN(f) || math.IsInf(f, 0) {
			return nil, false
		}
		return new(big.Rat).SetFloat64(f), true
	}
	return nil, false
}

// c08Expect: number x unit -> (size, accept) by exact arithmetic.
func c08Expect(x any, unit string) (uint64, bool) {
	r, ok := exactValue(x)
	if !ok || r.Sign() < 0 || !r.IsInt() {
		return 0, false
	}
	return ref.SizeProduct(r.Num(), unit)
}

func c08New[N constraint.Numbers](w *rt.W, x N, unit string) {
	want, accept := c08Expect(x, unit)
	got, err := size.New(x, unit)
	w.Eval(1)
	kind := reflect.TypeOf(x).String()
	op := "new"
	if kind == "uint64" {
		op = "new-uint64"
	}
	fail := func(key, g, wnt string) {
		w.Fail(key, op, rt.Args("type", kind, "value", fmt.Sprint(x), "unit", unit), g, wnt, "size.New["+kind+"] disagrees with exact big-number arithmetic")
	}
	switch {
	case accept && err != nil:
		fail("exact-product-refused", "err="+err.Error(), fmt.Sprint(want))
	case accept && uint64(got) != want:
		fail("wrong-product", fmt.Sprint(uint64(got)), fmt.Sprint(want))
	case !accept && err == nil:
		fail("inexact-or-invalid-accepted", fmt.Sprint("accepted as ", uint64(got)), "an error")
	case !accept && got != 0:
		fail("nonzero-with-error", fmt.Sprint(uint64(got)), "0")
	}
	if accept {
		w.ClassN("new-accepted", 1)
	} else {
		w.ClassN("new-refused", 1)
	}
}

var sepStrip = strings.NewReplacer(" ", "", "_", "", " ", "")

// c08Text judges the text-mode parser (rule 0) on one text.
func c08Text(w *rt.W, text string) {
	if size.MaxInputLength != 0 && len(text) > size.MaxInputLength {
		return
	}
	inG, digits, unit := ref.TextSize(text)
	got, err := size.DefaultParser(text, 0)
	gotB, errB := size.DefaultParser([]byte(text), 0)
	w.Eval(2)
	fail := func(key, g, wnt string) {
		w.Fail(key, "text", rt.Args("text", text), g, wnt, "text-mode parser disagrees with the documented grammar / exact arithmetic")
	}
	{
		rec := append(append(make([]byte, 0, len(text)+8), text...), "0kB|"...)
		gS, eS := size.DefaultParser(rec[:len(text)], 0)
		w.Eval(1)
		if (eS == nil) != (err == nil) || gS != got || string(rec[len(text):]) != "0kB|" {
			fail("subslice-disagrees-or-buffer-written", fmt.Sprint(uint64(gS), " ", eS, " rec=", string(rec)), fmt.Sprint(uint64(got), " ", err))
		}
	}
	{ // the same text in front of spare capacity that holds digits (a shorter record written over a longer one)
		rec := append(append(make([]byte, 0, len(text)+24), text...), "7216543298765432"...)
		gS, eS := size.DefaultParser(rec[:len(text)], 0)
		w.Eval(1)
		if (eS == nil) != (err == nil) || gS != got {
			fail("subslice-before-digits-disagrees", fmt.Sprint(uint64(gS), " ", eS), fmt.Sprint(uint64(got), " ", err))
		}
	}
	if (err == nil) != (errB == nil) || got != gotB {
		fail("string-bytes-disagree", fmt.Sprint(uint64(got), " ", err), fmt.Sprint(uint64(gotB), " ", errB))
	}
	// the input type does not matter: the same content as a named type of the program or of the standard library
	for _, rule := range []size.Rule{0, size.DefaultRule, size.RuleEnableJSONStringForm | size.RuleEnableJSONObjectForm} {
		g0, e0 := size.DefaultParser(text, rule)
		for i, o := range []func() (size.Size, error){
			func() (size.Size, error) { return size.DefaultParser(json.Number(text), rule) },
			func() (size.Size, error) { return size.DefaultParser(json.RawMessage(text), rule) },
			func() (size.Size, error) { return size.DefaultParser(sql.RawBytes(text), rule) },
			func() (size.Size, error) { return size.DefaultParser(nStr(text), rule) },
			func() (size.Size, error) { return size.DefaultParser(nBytes(text), rule) },
		} {
			g, e := o()
			if (e == nil) != (e0 == nil) || g != g0 {
				fail("input-type-changes-result", fmt.Sprint([]string{"json.Number", "json.RawMessage", "sql.RawBytes", "named string", "named []byte"}[i], " rule=", rule, ": ", uint64(g), " ", e), fmt.Sprint("string: ", uint64(g0), " ", e0))
			}
		}
		w.Eval(6)
	}
	if err != nil && got != 0 {
		fail("nonzero-with-error", fmt.Sprint(uint64(got)), "0")
	}
	if inG {
		n, _ := new(big.Int).SetString(digits, 10)
		want, accept := ref.SizeProduct(n, unit)
		switch {
		case accept && err != nil:
			key := "grammar-text-refused"
			if strings.HasSuffix(text, "  ") && unit != "" {
				key = "grammar-text-refused-trailing-spaces-after-unit"
			}
			fail(key, "err="+err.Error(), fmt.Sprint(want))
		case accept && uint64(got) != want:
			fail("wrong-value", fmt.Sprint(uint64(got)), fmt.Sprint(want))
		case !accept && err == nil:
			fail("overflow-or-unknown-unit-accepted", fmt.Sprint("accepted as ", uint64(got)), "an error")
		}
		if accept {
			w.ClassN("text-in-grammar-accepted", 1)
		} else {
			w.ClassN("text-in-grammar-refused", 1)
		}
		return
	}
	// outside the documented grammar: acceptance is not fixed, but an accepted value must be the exact product
	if digits == "" {
		t := strings.TrimLeft(text, " ")
		hasDigit := strings.ContainsAny(text, "0123456789")
		if !hasDigit || (t != "" && strings.ContainsRune("-+.", rune(t[0]))) {
			if err == nil {
				fail("no-number-accepted", fmt.Sprint("accepted as ", uint64(got)), "an error")
			}
			w.ClassN("text-no-number", 1)
			return
		}
		w.DontCare("text outside the documented grammar (separator before the first digit)")
		return
	}
	if err != nil {
		w.ClassN("text-outside-grammar-refused", 1)
		return
	}
	n, _ := new(big.Int).SetString(digits, 10)
	want, ok := ref.SizeProduct(n, sepStrip.Replace(unit))
	if !ok {
		fail("outside-grammar-accepted-with-unknown-unit-or-overflow", fmt.Sprint("accepted as ", uint64(got)), "an error")
	} else if uint64(got) != want {
		fail("outside-grammar-accepted-with-changed-value", fmt.Sprint(uint64(got)), fmt.Sprint(want))
	}
	w.DontCare("acceptance of a separator placement the statement does not list (value checked)")
}

func c08Bytes[N constraint.Numbers](w *rt.W, s uint64, maxN uint64, mant int) {
	got, ok := size.Bytes[N](size.Size(s))
	w.Eval(1)
	var zero N
	kind := reflect.TypeOf(zero).String()
	wantOK := s <= maxN
	if mant > 0 {
		wantOK = ref.FloatExact(s, mant)
	}
	fail := func(key, g, wnt string) {
		w.Fail(key, "bytes", rt.Args("type", kind, "size", fmt.Sprint(s)), g, wnt, "size.Bytes["+kind+"] disagrees with exact representability")
	}
	if ok != wantOK {
		fail("representability", fmt.Sprint("ok=", ok, " value=", got), fmt.Sprint("ok=", wantOK))
		return
	}
	if ok {
		r, fin := exactValue(got)
		if !fin || !r.IsInt() || r.Num().Cmp(new(big.Int).SetUint64(s)) != 0 {
			fail("value", fmt.Sprint(got), fmt.Sprint(s))
		}
		w.ClassN("bytes-representable", 1)
	} else {
		if got != 0 {
			fail("nonzero-when-not-ok", fmt.Sprint(got), "0")
		}
		w.ClassN("bytes-not-representable", 1)
	}
}

func c08BytesAll(w *rt.W, s uint64) {
	c08Bytes[int](w, s, math.MaxInt, 0)
	c08Bytes[int8](w, s, math.MaxInt8, 0)
	c08Bytes[int16](w, s, math.MaxInt16, 0)
	c08Bytes[int32](w, s, math.MaxInt32, 0)
	c08Bytes[int64](w, s, math.MaxInt64, 0)
	c08Bytes[uint](w, s, math.MaxUint, 0)
	c08Bytes[uint8](w, s, math.MaxUint8, 0)
	c08Bytes[uint16](w, s, math.MaxUint16, 0)
	c08Bytes[uint32](w, s, math.MaxUint32, 0)
	c08Bytes[uint64](w, s, math.MaxUint64, 0)
	c08Bytes[float32](w, s, 0, 24)
	c08Bytes[float64](w, s, 0, 53)
	c08Bytes[dInt16](w, s, math.MaxInt16, 0)
	c08Bytes[dU8](w, s, math.MaxUint8, 0)
	c08Bytes[dU32](w, s, math.MaxUint32, 0)
	c08Bytes[dInt64](w, s, math.MaxInt64, 0)
	c08Bytes[dF32](w, s, 0, 24)
	c08Bytes[dF64](w, s, 0, 53)
}

func c08NewAllKinds(w *rt.W, f float64, unit string) {
	// the same mathematical value offered through every numeric kind that can carry it exactly
	if f == math.Trunc(f) && !math.IsInf(f, 0) {
		if f >= math.MinInt8 && f <= math.MaxInt8 {
			c08New(w, int8(f), unit)
			c08New(w, dInt8(f), unit)
		}
		if f >= math.MinInt16 && f <= math.MaxInt16 {
			c08New(w, int16(f), unit)
			c08New(w, dInt16(f), unit)
		}
		if f >= math.MinInt32 && f <= math.MaxInt32 {
			c08New(w, int32(f), unit)
			c08New(w, dInt32(f), unit)
		}
		if f >= -9223372036854775808 && f < 9223372036854775808 {
			c08New(w, int64(f), unit)
			c08New(w, int(f), unit)
			c08New(w, dInt(f), unit)
			c08New(w, dInt64(f), unit)
		}
		if f >= 0 {
			if f <= math.MaxUint8 {
				c08New(w, uint8(f), unit)
				c08New(w, dU8(f), unit)
			}
			if f <= math.MaxUint16 {
				c08New(w, uint16(f), unit)
				c08New(w, dU16(f), unit)
			}
			if f <= math.MaxUint32 {
				c08New(w, uint32(f), unit)
				c08New(w, dU32(f), unit)
			}
			if f < 18446744073709551616 {
				c08New(w, uint64(f), unit)
				c08New(w, uint(f), unit)
				c08New(w, dUint(f), unit)
				c08New(w, dU64(f), unit)
			}
		}
	}
	c08New(w, f, unit)
	c08New(w, dF64(f), unit)
	if float64(float32(f)) == f || math.IsNaN(f) {
		c08New(w, float32(f), unit)
		c08New(w, dF32(f), unit)
	}
}

func genSizeText(r *rt.Rand) string {
	var sb strings.Builder
	sb.WriteString(strings.Repeat(" ", r.Intn(4)))
	nd := 1 + r.Intn(6)
	if r.Chance(1, 6) {
		nd = 15 + r.Intn(7)
	}
	sep := func() {
		if r.Chance(1, 2) {
			return
		}
		for k := r.Intn(4); k > 0; k-- {
			sb.WriteString([]string{" ", "_", " "}[r.Intn(3)])
		}
	}
	for i := 0; i < nd; i++ {
		if i > 0 {
			sep()
		}
		sb.WriteByte(byte('0' + r.Intn(10)))
	}
	switch r.Intn(8) {
	case 0: // no unit
	case 1: // mangled unit
		sep()
		sb.WriteString([]string{"kb", "KB", "Kib", "kiB", "b", "mB", "gb", "XB", "BB", "k", "iB", "KiBB", "µB", "Ki B", "k_B"}[r.Intn(15)])
	default:
		sep()
		sb.WriteString(ref.AllUnits[1+r.Intn(len(ref.AllUnits)-1)])
	}
	sb.WriteString(strings.Repeat(" ", r.Intn(4)))
	return sb.String()
}

func init() {
	texts := []string{"0B", "0", "0 YiB", "1ZB", "15EiB", "16EiB", "18446744073709551615", "1 000 kB", "1kb"}
	coldCases["C08"] = coldGeneric([]func(){
		func() { _, _ = size.New(0, "ZB") },
		func() { _, _ = size.New(uint8(0), "") },
		func() { _, _ = size.Bytes[float32](0) },
		func() { _, _ = size.DefaultParser("0ZiB", 0) },
		func() { _, _ = size.New(1.5, "kB") },
		func() { _ = constraint.Max[int8]() },
		func() {},
	}, func(w *rt.W, k int) {
		c08Text(w, texts[k])
		c08New(w, uint64(k), ref.AllUnits[k%len(ref.AllUnits)])
		c08BytesAll(w, uint64(1)<<uint(k*7))
	}, len(texts))
}

func runC08(c *rt.Ctx) {
	soloRun(c, "size")
	sizeScanContract(c)
	c.SetRule("for each of the 18 units and the empty unit: every value within +-1000 of floor((2^64-1)/multiplier) and of 0, all 2^k and 10^k, seeded values, through New[uint64] and the text parser; one mathematical value offered through all 12 numeric kinds and 12 derived types (negative, fractional, NaN, +-Inf, -0, 2^24+-1, 2^53+-1, 2^63, 2^64, kind maxima); " +
		"grammar-generated texts with every separator kind/count and 0-3 surrounding spaces, negative/fraction/exponent/mangled-unit texts; Bytes[N] for 18 types at 0, each kind's max and max+1, float mantissa boundaries, 2^64-2048..2^64-1 and seeded values; constraint.Max/Min/SizeBits/IsSigned/IsFloat against math constants. " +
		"distinct_nontrivial counts distinct (unit, value) cases within +-1000 of an overflow boundary (enumerated once each) plus distinct generated texts (by hash)")
	c.Assume("products, overflow and representability decided with math/big (harness/ref/size.go); unit multipliers derived as 1000^k / 1024^k, not copied from the library table")
	{
		v, ok := ref.SizeProduct(big.NewInt(16), "EiB")
		v2, ok2 := ref.SizeProduct(big.NewInt(15), "EiB")
		_, ok3 := ref.SizeProduct(big.NewInt(1), "ZB")
		v4, ok4 := ref.SizeProduct(big.NewInt(0), "YiB")
		_, ok5 := ref.SizeProduct(big.NewInt(1), "kb")
		c.SelfTest("product-vectors", !ok && v == 0 && ok2 && v2 == 15<<60 && !ok3 && ok4 && v4 == 0 && !ok5)
		g, d, u := ref.TextSize("  1 000_000 kB ")
		g2, _, _ := ref.TextSize("_1")
		g3, _, _ := ref.TextSize("10 k B")
		g4, d4, u4 := ref.TextSize("10kB  ")
		c.SelfTest("text-grammar", g && d == "1000000" && u == "kB" && !g2 && !g3 && g4 && d4 == "10" && u4 == "kB")
		c.SelfTest("float-exact", ref.FloatExact(1<<24, 24) && !ref.FloatExact(1<<24+1, 24) && ref.FloatExact(1<<53, 53) && !ref.FloatExact(1<<53+1, 53) && ref.FloatExact(^uint64(0)-2047, 53) && !ref.FloatExact(^uint64(0), 53))
		sc := rt.ReplayCtx("C08")
		sc.Serial("selftest", func(w *rt.W) { w.Fail("k", "text", nil, "accepted as 0", "an error", "synthetic wrapped product") })
		c.SelfTest("monitor-records-a-mismatch", sc.Violations() == 1)
	}

	nSeeded := c.Pick(6000, 300000)
	c.Parallel("unit-boundaries", 0, func(w *rt.W) {
		for ui := w.Shard; ui < len(ref.AllUnits); ui += w.NShards {
			unit := ref.AllUnits[ui]
			m, _ := ref.UnitMult(unit)
			limit := new(big.Int).Quo(new(big.Int).SetUint64(^uint64(0)), m) // floor((2^64-1)/mult); 0 for the zero-only units
			visit := func(v uint64, boundary bool) {
				c08New(w, v, unit)
				text := fmt.Sprint(v) + unit
				if v%3 == 0 {
					text = fmt.Sprint(v) + " " + unit
				}
				c08Text(w, text)
				if boundary {
					w.NT(1)
					w.ClassN("within-1000-of-overflow-boundary", 1)
				}
			}
			if limit.IsUint64() {
				l := limit.Uint64()
				for d := uint64(0); d <= 1000; d++ {
					if l >= d {
						visit(l-d, true)
					}
					if l+d >= l && d > 0 {
						visit(l+d, true)
					}
				}
			}
			for v := uint64(0); v <= 1000; v++ {
				visit(v, false)
			}
			for k := 0; k < 64; k++ {
				visit(1<<uint(k), false)
				visit(1<<uint(k)-1, false)
			}
			p := uint64(1)
			for k := 0; k < 20; k++ {
				visit(p, false)
				visit(p-1, false)
				if k < 19 {
					p *= 10
				}
			}
			visit(^uint64(0), false)
			for i := 0; i < nSeeded; i++ {
				v := w.Rng.U64() >> uint(w.Rng.Intn(64))
				visit(v, false)
			}
			// wrap candidates: values whose truncated 64-bit product is small
			if m.IsUint64() && m.Uint64() > 1 {
				mm := m.Uint64()
				for i := 0; i < 2000; i++ {
					q := new(big.Int).Lsh(big.NewInt(int64(1+w.Rng.Intn(1000))), 64)
					q.Add(q, big.NewInt(int64(w.Rng.Intn(1<<20))))
					q.Quo(q, new(big.Int).SetUint64(mm))
					if q.IsUint64() {
						visit(q.Uint64(), false)
						visit(q.Uint64()+1, false)
					}
				}
			}
		}
	})
	c.Exhaustive("for each of 19 units: every value within +-1000 of floor((2^64-1)/multiplier) and of 0, every 2^k, 2^k-1, 10^k, 10^k-1")
	c.Require("within-1000-of-overflow-boundary", 19000)

	c.Serial("kinds", func(w *rt.W) {
		vals := []float64{0, math.Copysign(0, -1), 1, -1, 0.5, -0.5, 1.5, 1e-300, -1e-300, math.SmallestNonzeroFloat64, math.NaN(), math.Inf(1), math.Inf(-1),
			127, 128, 255, 256, 32767, 32768, 65535, 65536, 1<<24 - 1, 1 << 24, 1<<24 + 1, 1<<24 + 2, 2147483647, 2147483648, 4294967295, 4294967296,
			1<<53 - 1, 1 << 53, 1<<53 + 2, 9223372036854775807, 9223372036854775808, 18446744073709549568, 18446744073709551615, 18446744073709551616, 1e19, 2e19, 1e20, 1e300, math.MaxFloat64, math.MaxFloat32,
			-128, -129, -32768, -2147483648, -9223372036854775808, 1000, 1024, 1000.0000001, 16, 15, 17, 18014398509481983, 18014398509481984, 18446744073709551.615, 18446744073709551, 18446744073709552}
		for _, f := range vals {
			for _, unit := range append(append([]string(nil), ref.AllUnits...), "kb", "KB", "b", " B", "B ", "bytes", "\x00") {
				c08NewAllKinds(w, f, unit)
			}
		}
		// exact integer maxima that float64 cannot carry
		for _, unit := range ref.AllUnits {
			c08New(w, int64(math.MaxInt64), unit)
			c08New(w, uint64(math.MaxUint64), unit)
			c08New(w, int64(math.MinInt64), unit)
			c08New(w, uint64(1<<53+1), unit)
			c08New(w, int64(1<<53+1), unit)
			c08New(w, float32(16777216), unit)
			c08New(w, dF32(-16777216), unit)
		}
		w.ClassN("kinds-sweep", 1)
	})
	c.Require("kinds-sweep", 1)
	c.Require("number-literal-texts", 30)
	// floats that are almost whole: the neighbours of small and large whole numbers, products that pick up an ulp
	c.Serial("almost-whole-floats", func(w *rt.W) {
		for _, k := range []float64{1, 2, 3, 5, 7, 10, 100, 1000, 1024, 4096, 1e6, 1 << 30, 1 << 52, 1e15} {
			for _, f := range []float64{math.Nextafter(k, math.Inf(1)), math.Nextafter(k, 0), k + 1e-10, k - 1e-10, k * (1 + 1e-12), k + 1e-9, k - 1e-9, 0.1 * 3 * 10 * k / 3, 0.07 * 100 * k / 7, k + 0.5, k} {
				for _, u := range []string{"", "B", "kB", "KiB"} {
					c08New(w, f, u)
					c08New(w, float32(f), u)
				}
				w.ClassN("almost-whole-float", 1)
			}
		}
	})
	c.Require("almost-whole-float", 100)
	// a number and a unit in every form a size can be written in: New, text, JSON string form, JSON object form in both
	// key orders and through encoding/json - one arithmetic (the four units beyond 64 bits take zero only, in every form)
	c.Serial("number-and-unit-in-every-form", func(w *rt.W) {
		type doc struct {
			S size.Size `json:"s"`
		}
		nums := []uint64{0, 1, 5, 1000, 1024, 17, 18014398509481984, 18446744073709551615}
		for _, u := range ref.AllUnits {
			for _, n := range nums {
				want, accept := ref.SizeProduct(new(big.Int).SetUint64(n), u)
				forms := map[string]func() (size.Size, error){
					"New":               func() (size.Size, error) { return size.New(n, u) },
					"text":              func() (size.Size, error) { return size.DefaultParser(fmt.Sprint(n, u), 0) },
					"text with a space": func() (size.Size, error) { return size.DefaultParser(fmt.Sprint(n, " ", u), 0) },
					"JSON string form": func() (size.Size, error) {
						return size.DefaultParser(fmt.Sprintf("%q", fmt.Sprint(n, u)), size.RuleEnableJSONStringForm)
					},
					"JSON object form": func() (size.Size, error) {
						return size.DefaultParser(fmt.Sprintf(`{"value":%d,"unit":%q}`, n, u), size.RuleEnableJSONObjectForm)
					},
					"JSON object form, unit first": func() (size.Size, error) {
						return size.DefaultParser([]byte(fmt.Sprintf(`{"unit":%q,"value":%d}`, u, n)), size.RuleEnableJSONObjectForm)
					},
					"Size.UnmarshalJSON(object)": func() (size.Size, error) {
						var z size.Size
						err := z.UnmarshalJSON([]byte(fmt.Sprintf(`{"value":%d,"unit":%q}`, n, u)))
						return z, err
					},
					"json.Unmarshal(object in a struct)": func() (size.Size, error) {
						var d doc
						err := json.Unmarshal([]byte(fmt.Sprintf(`{"s":{"unit":%q,"value":%d}}`, u, n)), &d)
						return d.S, err
					},
					"Size.UnmarshalText": func() (size.Size, error) {
						var z size.Size
						err := z.UnmarshalText([]byte(fmt.Sprint(n, u)))
						return z, err
					},
					"JSON object form among ignored members (null, decoy value/unit inside nested objects and arrays)": func() (size.Size, error) {
						return size.DefaultParser(fmt.Sprintf(`{"m":{"o":null,"value":5,"unit":"MB"},"t":[null,{"value":7}],"value":%d,"x":null,"unit":%q}`, n, u), size.RuleEnableJSONObjectForm)
					},
					"JSON object form behind an ignored array of nulls": func() (size.Size, error) {
						return size.DefaultParser([]byte(fmt.Sprintf(`{"tags":[null],"n":null,"value":%d,"unit":%q}`, n, u)), size.RuleEnableJSONObjectForm)
					},
				}
				for name, f := range forms {
					if u == "" && strings.Contains(name, "object") {
						continue // whether the object form takes an empty unit is C12's matter
					}
					var got size.Size
					var err error
					panicked, msg := rt.Call(func() { got, err = f() })
					w.Eval(1)
					args := rt.Args("form", name, "number", fmt.Sprint(n), "unit", u)
					switch {
					case panicked:
						w.Fail("panic-number-and-unit", "forms", args, "panic: "+firstLine(msg), "a value or an error", "see key")
					case accept && err != nil:
						w.Fail("exact-product-refused-in-one-form", "forms", args, "err="+err.Error(), fmt.Sprint(want), name+" refuses a number and unit whose product is a size")
					case accept && uint64(got) != want:
						w.Fail("wrong-value-in-one-form", "forms", args, fmt.Sprint(uint64(got)), fmt.Sprint(want), name+" yields another value than number x unit")
					case !accept && err == nil:
						w.Fail("overflow-accepted-in-one-form", "forms", args, fmt.Sprint("accepted as ", uint64(got)), "an error", name+" accepts a product that is not a size")
					}
					w.ClassN("number-and-unit-in-every-form", 1)
				}
			}
		}
	})
	c.Require("number-and-unit-in-every-form", 1000)

	nTexts := c.Pick(600000, 30000000)
	c.Parallel("texts", 0, func(w *rt.W) {
		for i := 0; i < nTexts/w.NShards; i++ {
			t := genSizeText(w.Rng)
			c08Text(w, t)
			w.NTHash(rt.Hash64(t))
			if w.Class("generated-text") {
				w.Sample("generated-text", t)
			}
		}
		if w.Shard == 0 {
			for _, t := range []string{"", " ", "-1", "-0", "+1", "1.5kB", "1.0", ".5", "1e3", "1E3", "0x10", "1,000", "１０", "10kB  ", "10 kB   ", "10   ", "  10", "10kB ", "10  kB", "10_kB", "10 kB", "1_0", "1__0", "1_", "_1", " 1", "1 ", "1 _ 0 _ kB", "kB", "B", "0ZB", "1ZB", "0YiB", "1YiB", "0 YB", "00000000000000000000000001kB", "18446744073709551615", "18446744073709551616", "18446744073709551615B", "18446744073709551616B", "99999999999999999999999", "18446744073709551 kB", "18446744073709552kB", "16EiB", "15EiB", "16383PiB", "16384PiB", "10kB\n", "10\tkB", "10kB\x00", "1\xa0kB", "1\xc2", "10 k B", "10 kB kB", "10kB10"} {
				for _, pad := range []string{"", " ", "  ", "   "} {
					c08Text(w, pad+t)
					c08Text(w, t+pad)
					c08Text(w, pad+t+pad)
				}
			}
			// number literals as decoders hand them over (json.Number): fractions and exponents around 2^53 and 2^64
			for _, t := range []string{"9007199254740993.0", "9007199254740993", "9007199254740992.0", "9007199254740993e0", "900719925474099.3e1", "18446744073709551615.0", "18446744073709551616.0", "1.8446744073709551615e19", "1.8446744073709551616e19", "1e19", "1e20", "2e0", "2.0", "2.5", "1e-1", "10e-1", "-1", "-1.0", "-0", "-0.0", "1E3", "1e+3", "0.0", "00", "01", "1.", ".1", "1e", "NaN", "Infinity", "1e999", "12345678901234567890", "123456789012345678.9e1"} {
				c08Text(w, t)
				w.ClassN("number-literal-texts", 1)
			}
			w.ClassN("fixed-negative-texts", 1)
		}
	})
	c.Require("text-in-grammar-accepted", 100000)
	c.Require("text-in-grammar-refused", 10000)
	c.Require("generated-text", 100000)
	c.Require("text-no-number", 1)

	{ // call histories: valid texts colliding under weak checksums, parsed back to back
		var texts []string
		for n := 0; n < 200000; n++ {
			for _, u := range []string{"", "B", "kB", "KiB", " MB", "GiB"} {
				texts = append(texts, fmt.Sprint(n)+u)
			}
		}
		collisionHistories(c, texts, 300, 200, func(w *rt.W, t string) { c08Text(w, t) })
	}

	{ // with the input limit raised or disabled texts may be long: hundreds of digits (leading zeros), separators everywhere
		old := size.MaxInputLength
		for _, limit := range []int{0, 2000} {
			size.MaxInputLength = limit
			c.Parallel(fmt.Sprintf("long-texts-%d", limit), 0, func(w *rt.W) {
				for k := 0; k < 20000/w.NShards; k++ {
					zeros := 100 + w.Rng.Intn(400)
					var sb strings.Builder
					for i := 0; i < zeros; i++ {
						sb.WriteByte('0')
						if w.Rng.Chance(1, 9) {
							sb.WriteString([]string{" ", "_", "\u00a0"}[w.Rng.Intn(3)])
						}
					}
					sb.WriteString(fmt.Sprint(w.Rng.U64() >> uint(w.Rng.Intn(64))))
					if w.Rng.Bool() {
						sb.WriteString([]string{" ", "", "_"}[w.Rng.Intn(3)] + ref.AllUnits[w.Rng.Intn(len(ref.AllUnits))])
					}
					c08Text(w, sb.String())
					w.ClassN("long-text-with-limit-raised", 1)
				}
			})
		}
		size.MaxInputLength = old
		c.Require("long-text-with-limit-raised", 30000)
	}

	// the text as other layers spell it (quoted, bracketed, escaped, padded, doubled, other scripts)
	c.Parallel("decorated", 0, func(w *rt.W) {
		bases := []string{"10kB", "1 024 KiB", "0", "7 B", "18446744073709551615", "16 EiB", "1MB", "0YiB", "12_345 B"}
		for bi := w.Shard; bi < len(bases); bi += w.NShards {
			for _, d := range decorate(bases[bi]) {
				c08Text(w, d)
				w.ClassN("decorated-valid-text", 1)
			}
		}
	})
	c.Require("decorated-valid-text", 900)
	refillRun(c, c.Pick(40000, 400000), "size-text")
	guardedInputs(c, "C08", "size", []string{"10kB", "1 024 KiB", "0", "7 B", "18446744073709551615", "16 EiB", "1MB", "0YiB", "12_345 B", "1", "12", "123", "1234 ", "12345B", "123456kB", "1234567 MB"})
	coldStart(c, "C08", 14)

	nBytes := c.Pick(200000, 20000000)
	c.Parallel("bytes", 0, func(w *rt.W) {
		if w.Shard == 0 {
			edges := []uint64{0, 1, 126, 127, 128, 129, 254, 255, 256, 257, 32766, 32767, 32768, 65534, 65535, 65536, 1<<24 - 1, 1 << 24, 1<<24 + 1, 1<<24 + 2, 1<<25 + 2, 1<<25 + 4,
				1<<31 - 1, 1 << 31, 1<<31 + 1, 1<<32 - 1, 1 << 32, 1<<32 + 1, 1<<53 - 1, 1 << 53, 1<<53 + 1, 1<<53 + 2, 1<<54 + 2, 1<<54 + 4, 1<<63 - 1, 1 << 63, 1<<63 + 1, 1<<63 + 1024, 1<<63 + 2048}
			for _, s := range edges {
				c08BytesAll(w, s)
			}
			for s := ^uint64(0) - 4100; s != 0; s++ {
				c08BytesAll(w, s)
			}
			for k := 0; k < 64; k++ {
				for _, d := range []uint64{0, 1, 3} {
					c08BytesAll(w, 1<<uint(k)+d)
					c08BytesAll(w, 1<<uint(k)-d)
					c08BytesAll(w, (1<<24+d)<<uint(k%40))
					c08BytesAll(w, (1<<53+d)<<uint(k%11))
				}
			}
			w.ClassN("bytes-edge-sweep", 1)
		}
		for i := 0; i < nBytes/w.NShards; i++ {
			s := w.Rng.U64() >> uint(w.Rng.Intn(64))
			if i%3 == 0 { // few significant bits, shifted: representable floats
				s = (w.Rng.U64() >> uint(40+w.Rng.Intn(24))) << uint(w.Rng.Intn(40))
			}
			c08BytesAll(w, s)
		}
	})
	c.Require("bytes-edge-sweep", 1)
	c.Require("bytes-representable", 100000)
	c.Require("bytes-not-representable", 100000)

	c.Serial("constraint", func(w *rt.W) {
		chk := func(name string, ok bool, got, want any) {
			w.Eval(1)
			if !ok {
				w.Fail("constraint-"+name, "constraint", rt.Args("func", name), fmt.Sprint(got), fmt.Sprint(want), "constraint helper disagrees with the language's numeric limits")
			}
		}
		chk("Max[int8]", constraint.Max[int8]() == math.MaxInt8, constraint.Max[int8](), math.MaxInt8)
		chk("Max[dInt8]", constraint.Max[dInt8]() == math.MaxInt8, constraint.Max[dInt8](), math.MaxInt8)
		chk("Max[int16]", constraint.Max[int16]() == math.MaxInt16, constraint.Max[int16](), math.MaxInt16)
		chk("Max[dInt16]", constraint.Max[dInt16]() == math.MaxInt16, constraint.Max[dInt16](), math.MaxInt16)
		chk("Max[int32]", constraint.Max[int32]() == math.MaxInt32, constraint.Max[int32](), math.MaxInt32)
		chk("Max[dInt32]", constraint.Max[dInt32]() == math.MaxInt32, constraint.Max[dInt32](), math.MaxInt32)
		chk("Max[int64]", constraint.Max[int64]() == math.MaxInt64, constraint.Max[int64](), int64(math.MaxInt64))
		chk("Max[dInt64]", constraint.Max[dInt64]() == math.MaxInt64, constraint.Max[dInt64](), int64(math.MaxInt64))
		chk("Max[int]", constraint.Max[int]() == math.MaxInt, constraint.Max[int](), math.MaxInt)
		chk("Max[dInt]", constraint.Max[dInt]() == math.MaxInt, constraint.Max[dInt](), math.MaxInt)
		chk("Max[uint8]", constraint.Max[uint8]() == math.MaxUint8, constraint.Max[uint8](), math.MaxUint8)
		chk("Max[dU8]", constraint.Max[dU8]() == math.MaxUint8, constraint.Max[dU8](), math.MaxUint8)
		chk("Max[uint16]", constraint.Max[uint16]() == math.MaxUint16, constraint.Max[uint16](), math.MaxUint16)
		chk("Max[dU16]", constraint.Max[dU16]() == math.MaxUint16, constraint.Max[dU16](), math.MaxUint16)
		chk("Max[uint32]", constraint.Max[uint32]() == math.MaxUint32, constraint.Max[uint32](), uint32(math.MaxUint32))
		chk("Max[dU32]", constraint.Max[dU32]() == math.MaxUint32, constraint.Max[dU32](), uint32(math.MaxUint32))
		chk("Max[uint64]", constraint.Max[uint64]() == math.MaxUint64, constraint.Max[uint64](), uint64(math.MaxUint64))
		chk("Max[dU64]", constraint.Max[dU64]() == math.MaxUint64, constraint.Max[dU64](), uint64(math.MaxUint64))
		chk("Max[uint]", constraint.Max[uint]() == math.MaxUint, constraint.Max[uint](), uint(math.MaxUint))
		chk("Max[dUint]", constraint.Max[dUint]() == math.MaxUint, constraint.Max[dUint](), uint(math.MaxUint))
		chk("Max[float32]", constraint.Max[float32]() == math.MaxFloat32, constraint.Max[float32](), math.MaxFloat32)
		chk("Max[dF32]", constraint.Max[dF32]() == math.MaxFloat32, constraint.Max[dF32](), math.MaxFloat32)
		chk("Max[float64]", constraint.Max[float64]() == math.MaxFloat64, constraint.Max[float64](), math.MaxFloat64)
		chk("Max[dF64]", constraint.Max[dF64]() == math.MaxFloat64, constraint.Max[dF64](), math.MaxFloat64)
		chk("Min[int8]", constraint.Min[int8]() == math.MinInt8, constraint.Min[int8](), math.MinInt8)
		chk("Min[dInt16]", constraint.Min[dInt16]() == math.MinInt16, constraint.Min[dInt16](), math.MinInt16)
		chk("Min[int32]", constraint.Min[int32]() == math.MinInt32, constraint.Min[int32](), math.MinInt32)
		chk("Min[dInt64]", constraint.Min[dInt64]() == math.MinInt64, constraint.Min[dInt64](), int64(math.MinInt64))
		chk("Min[int]", constraint.Min[int]() == math.MinInt, constraint.Min[int](), math.MinInt)
		chk("Min[uint8]", constraint.Min[uint8]() == 0, constraint.Min[uint8](), 0)
		chk("Min[dU64]", constraint.Min[dU64]() == 0, constraint.Min[dU64](), 0)
		chk("Min[float32]", constraint.Min[float32]() == -math.MaxFloat32, constraint.Min[float32](), -math.MaxFloat32)
		chk("Min[dF64]", constraint.Min[dF64]() == -math.MaxFloat64, constraint.Min[dF64](), -math.MaxFloat64)
		chk("SizeBits", constraint.SizeBits[int8]() == 8 && constraint.SizeBits[dU16]() == 16 && constraint.SizeBits[float32]() == 32 && constraint.SizeBits[dF64]() == 64 && constraint.SizeBits[uint64]() == 64 && constraint.SizeBits[dInt32]() == 32 && constraint.SizeBits[int]() == strconv.IntSize && constraint.SizeBits[dUint]() == strconv.IntSize, "SizeBits", "8/16/32/64")
		chk("SizeBytes", constraint.SizeBytes[int8]() == 1 && constraint.SizeBytes[dU16]() == 2 && constraint.SizeBytes[dF32]() == 4 && constraint.SizeBytes[int64]() == 8, "SizeBytes", "1/2/4/8")
		chk("IsSigned", constraint.IsSigned[int]() && constraint.IsSigned[dInt8]() && constraint.IsSigned[float32]() && constraint.IsSigned[dF64]() && !constraint.IsSigned[uint]() && !constraint.IsSigned[dU8]() && !constraint.IsSigned[uint64](), "IsSigned", "signed kinds only")
		chk("IsFloat", constraint.IsFloat[float32]() && constraint.IsFloat[dF64]() && constraint.IsFloat[float64]() && !constraint.IsFloat[int]() && !constraint.IsFloat[dU64]() && !constraint.IsFloat[dInt64](), "IsFloat", "float kinds only")
		chk("SmallestNonzero", constraint.SmallestNonzero[float32]() == math.SmallestNonzeroFloat32 && constraint.SmallestNonzero[dF64]() == math.SmallestNonzeroFloat64 && constraint.SmallestNonzero[dInt8]() == 1 && constraint.SmallestNonzero[uint64]() == 1, "SmallestNonzero", "1 / smallest subnormal")
		w.ClassN("constraint-helpers", 1)
	})
}
