package main

import (
	"encoding/json"
	"encoding/xml"
	"errors"
	"fmt"
	"strings"

	"go.lstv.dev/util/roman"

	"verif/ref"
	"verif/rt"
)

// C10 — Roman parser recognises exactly the documented numerals with the right value.

func init() {
	props["C10"] = runC10
	replayers["C10/parse"] = func(v rt.Violation) string {
		c := rt.ReplayCtx("C10")
		if _, has := v.Args["max_input_length"]; has {
			old := roman.MaxInputLength
			roman.MaxInputLength = int(rt.ArgInt(v, "max_input_length"))
			defer func() { roman.MaxInputLength = old }()
		}
		c.Serial("replay", func(w *rt.W) { c10Case(w, rt.ArgString(v, "text"), roman.Rule(rt.ArgInt(v, "rule"))) })
		return c.Report()
	}
}

type (
	romanNamedS string
	romanNamedB []byte
)

// romanTyped: "a typed error" is any instantiation of the package's generic error type.
func romanTyped(err error) bool {
	var a *roman.NumberFormatError[string]
	var b *roman.NumberFormatError[[]byte]
	var c *roman.NumberFormatError[romanNamedS]
	var d *roman.NumberFormatError[romanNamedB]
	return errors.As(err, &a) || errors.As(err, &b) || errors.As(err, &c) || errors.As(err, &d)
}

func c10Fail(w *rt.W, key, text string, r roman.Rule, path, got, want string) {
	w.Fail(key, "parse", rt.Args("text", text, "rule", int(r), "path", path, "max_input_length", roman.MaxInputLength), got, want, path+" disagrees with the group-table reference evaluator")
}

// c10Case feeds one text to every parsing entry point and judges each result.
func c10Case(w *rt.W, text string, r roman.Rule) (accepted bool) {
	val, member, amb := ref.RomanEval(text)
	if amb {
		w.C.Inconclusive("reference evaluator found two values for " + text)
		return false
	}
	if text == "" {
		member, val = r&roman.RuleDisableEmptyAsZero == 0, 0
	}
	tooLong := roman.MaxInputLength != 0 && len(text) > roman.MaxInputLength
	type res struct {
		path    string
		val     roman.Number
		err     error
		isValid bool
		typed   bool
	}
	var out []res
	{
		g, err := roman.DefaultParser(text, r)
		out = append(out, res{"DefaultParser[string]", g, err, false, romanTyped(err)})
	}
	{
		g, err := roman.DefaultParser([]byte(text), r)
		out = append(out, res{"DefaultParser[[]byte]", g, err, false, romanTyped(err)})
	}
	{
		err := roman.Valid(text, r)
		out = append(out, res{"Valid[string]", 0, err, true, romanTyped(err)})
	}
	{
		err := roman.Valid([]byte(text), r)
		out = append(out, res{"Valid[[]byte]", 0, err, true, romanTyped(err)})
	}
	{ // named string / byte-slice types are legal instantiations of the generic entry points
		g, err := roman.DefaultParser(romanNamedS(text), r)
		out = append(out, res{"DefaultParser[named string]", g, err, false, romanTyped(err)})
		g, err = roman.DefaultParser(romanNamedB(text), r)
		out = append(out, res{"DefaultParser[named []byte]", g, err, false, romanTyped(err)})
		err = roman.Valid(romanNamedS(text), r)
		out = append(out, res{"Valid[named string]", 0, err, true, romanTyped(err)})
		err = roman.Valid(romanNamedB(text), r)
		out = append(out, res{"Valid[named []byte]", 0, err, true, romanTyped(err)})
		// named types that print themselves differently from what they contain
		g, err = roman.DefaultParser(loudS(text), r)
		out = append(out, res{"DefaultParser[string type with String()]", g, err, false, errTypeHas(err, "*roman.NumberFormatError[")})
		g, err = roman.DefaultParser(trimB(text), r)
		out = append(out, res{"DefaultParser[[]byte type with trimming String()]", g, err, false, errTypeHas(err, "*roman.NumberFormatError[")})
		err = roman.Valid(errS(text), r)
		out = append(out, res{"Valid[string type with Error()]", 0, err, true, errTypeHas(err, "*roman.NumberFormatError[")})
		err = roman.Valid(hexB(text), r)
		out = append(out, res{"Valid[[]byte type with hex String()]", 0, err, true, errTypeHas(err, "*roman.NumberFormatError[")})
		g, err = roman.DefaultParser(fmtS(text), r)
		out = append(out, res{"DefaultParser[string type with Format()]", g, err, false, errTypeHas(err, "*roman.NumberFormatError[")})
	}
	{ // the text sits inside a larger buffer: what follows it belongs to the caller
		rec := append(append(make([]byte, 0, len(text)+16), text...), "|VIX"...)
		g, err := roman.DefaultParser(rec[:len(text)], r)
		out = append(out, res{"DefaultParser[[]byte] on a sub-slice", g, err, false, romanTyped(err)})
		verr := roman.Valid(rec[:len(text)], r)
		out = append(out, res{"Valid[[]byte] on a sub-slice", 0, verr, true, romanTyped(verr)})
		if string(rec[len(text):]) != "|VIX" {
			c10Fail(w, "parser-wrote-behind-input", text, r, "DefaultParser/Valid on a sub-slice", string(rec), text+"|VIX")
		}
		// the exported Parser variable is an entry point of its own
		g, err = roman.Parser([]byte(text), r)
		out = append(out, res{"Parser variable", g, err, false, romanTyped(err)})
	}
	if r == 0 {
		u := roman.Number(777777)
		err := u.UnmarshalText([]byte(text))
		typed := romanTyped(err)
		if err != nil {
			if u != 777777 {
				c10Fail(w, "unmarshal-receiver-changed-on-error", text, r, "UnmarshalText", fmt.Sprint(uint64(u)), "777777 (untouched)")
			}
			u = 0
		}
		out = append(out, res{"UnmarshalText", u, err, false, typed})
	}
	w.Eval(int64(len(out)))
	for _, o := range out {
		switch {
		case tooLong:
			if o.err == nil || !errors.Is(o.err, roman.ErrInputTooLong) || !o.typed || o.val != 0 {
				c10Fail(w, "limit", text, r, o.path, fmt.Sprint(uint64(o.val), " err=", o.err), "typed ErrInputTooLong, zero value")
			}
		case member:
			if o.err != nil {
				c10Fail(w, "member-rejected", text, r, o.path, "err="+o.err.Error(), fmt.Sprint("accepted with value ", val))
			} else if !o.isValid && uint64(o.val) != val {
				key := "wrong-value"
				if text != strings.ToUpper(text) {
					key = "wrong-value-nonupper"
				}
				c10Fail(w, key, text, r, o.path, fmt.Sprint(uint64(o.val)), fmt.Sprint(val))
			}
		default:
			if o.err == nil {
				c10Fail(w, "nonmember-accepted", text, r, o.path, fmt.Sprint("accepted with value ", uint64(o.val)), "rejected")
			} else if !o.typed {
				c10Fail(w, "untyped-error", text, r, o.path, fmt.Sprintf("%T", o.err), "*roman.NumberFormatError[T]")
			} else if o.val != 0 {
				c10Fail(w, "nonzero-on-error", text, r, o.path, fmt.Sprint(uint64(o.val)), "0")
			}
		}
	}
	return member && !tooLong
}

func caseVariant(s string, variant int, h uint64) string {
	switch variant {
	case 0:
		return s
	case 1:
		return strings.ToLower(s)
	}
	b := []byte(s)
	x := rt.HashU(h, uint64(variant)) | 1<<uint(len(b)) // at least defined bits
	for i := range b {
		if x>>uint(i)&1 == 1 {
			b[i] += 'a' - 'A'
		}
	}
	return string(b)
}

// caseVariantLong: like caseVariant for texts of any length (the case pattern repeats every 61 bytes).
func caseVariantLong(s string, variant int, h uint64) string {
	switch variant {
	case 0:
		return s
	case 1:
		return strings.ToLower(s)
	}
	b := []byte(s)
	x := rt.HashU(h, uint64(variant)) | 1
	for i := range b {
		if x>>uint(i%61)&1 == 1 && b[i] >= 'A' && b[i] <= 'Z' {
			b[i] += 'a' - 'A'
		}
	}
	return string(b)
}

func runC10(c *rt.Ctx) {
	soloRun(c, "roman")
	callerEditsReturnedErrors(c, map[string]func() error{
		"roman.DefaultParser[string](VIIIII, 0)":                 func() error { _, err := roman.DefaultParser("VIIIII", 0); return err },
		"roman.DefaultParser[[]byte](IIX, 0)":                    func() error { _, err := roman.DefaultParser([]byte("IIX"), 0); return err },
		"roman.DefaultParser[string](empty, DisableEmptyAsZero)": func() error { _, err := roman.DefaultParser("", roman.RuleDisableEmptyAsZero); return err },
		"roman.Valid[string](abc, 0)":                            func() error { return roman.Valid("abc", 0) },
		"roman.Parser variable(MMMM IV, 0)":                      func() error { _, err := roman.Parser([]byte("MMMM IV"), 0); return err },
		"Number.UnmarshalText(XXXXX)":                            func() error { var n roman.Number; return n.UnmarshalText([]byte("XXXXX")) },
	})
	L := c.Pick(7, 9)
	c.SetRule(fmt.Sprintf("every string over {I,V,X,L,C,D,M} of length 0..%d is enumerated once (exhaustive) in upper case, lower case and two hash-determined mixed-case renderings, each through DefaultParser[string|[]byte], Valid[string|[]byte] and UnmarshalText, with and without RuleDisableEmptyAsZero; ", L) +
		"plus every single-byte substitution (256 values) and multi-byte case-fold look-alikes at each position of seeded valid numerals, and M-runs around the 128-byte limit. " +
		"distinct_nontrivial counts distinct accepted texts that contain a five-symbol or a subtractive pair (per case variant), each enumerated once")
	c.Assume("accepted language and values come from harness/ref/roman.go (explicit group tables, all splits tried, uniqueness asserted), independent of the library's regular expression")

	{
		v, ok, _ := ref.RomanEval("MDCCCCLXXXXVIIII")
		c.SelfTest("eval-additive-1999", ok && v == 1999)
		v, ok, _ = ref.RomanEval("mcmxcix")
		c.SelfTest("eval-subtractive-1999-lower", ok && v == 1999)
		_, a, _ := ref.RomanEval("IL")
		_, b, _ := ref.RomanEval("VIV")
		_, d, _ := ref.RomanEval("CMC")
		_, e, _ := ref.RomanEval("XM")
		_, f, _ := ref.RomanEval("MI M")
		c.SelfTest("eval-rejects-IL-VIV-CMC-XM", !a && !b && !d && !e && !f)
		v, ok, _ = ref.RomanEval("CCCCXXXXIIII")
		c.SelfTest("eval-444-long", ok && v == 444)
		sc := rt.ReplayCtx("C10")
		sc.Serial("selftest", func(w *rt.W) { c10Fail(w, "k", "iv", 0, "p", "2", "4") })
		c.SelfTest("monitor-records-a-mismatch", sc.Violations() == 1)
	}

	const alphabet = "IVXLCDM"
	// exhaustive enumeration, sharded by the first two letters
	type prefix struct{ s string }
	var prefixes []string
	prefixes = append(prefixes, "")
	for _, a := range alphabet {
		prefixes = append(prefixes, string(a))
	}
	var roots []string
	for _, a := range alphabet {
		for _, b := range alphabet {
			roots = append(roots, string(a)+string(b))
		}
	}
	c.Parallel("language", 0, func(w *rt.W) {
		visit := func(s string) {
			h := rt.Hash64(s)
			for variant := 0; variant < 4; variant++ {
				t := caseVariant(s, variant, h)
				if variant >= 2 && (t == s || t == strings.ToLower(s)) {
					continue
				}
				acc := c10Case(w, t, 0)
				if acc {
					w.Class(fmt.Sprintf("accepted-variant-%d", variant))
					if strings.ContainsAny(s, "VLD") || strings.Contains(s, "IX") || strings.Contains(s, "XC") || strings.Contains(s, "CM") {
						w.NT(1)
					}
					if variant == 2 && w.Class("sample-accepted-mixed") {
						v, _, _ := ref.RomanEval(t)
						w.Sample("accepted-mixed-case", map[string]any{"text": t, "value": v})
					}
				} else {
					w.ClassN("rejected", 1)
				}
			}
		}
		if w.Shard == 0 {
			for _, p := range prefixes {
				visit(p)
			}
			// the rule is a bit set: undefined extra bits must not switch the documented bit off (or on)
			for _, rv := range []roman.Rule{roman.RuleDisableEmptyAsZero, roman.RuleDisableEmptyAsZero | 2, roman.RuleDisableEmptyAsZero | 1<<8, ^roman.Rule(0), 2, 6, 1 << 20} {
				for _, t := range []string{"", "I", "iv", "MMXXIV", "IIII", "Q"} {
					c10Case(w, t, rv)
				}
				w.ClassN("rule-disable-empty", 1)
			}
		}
		buf := make([]byte, 0, 16)
		var rec func(depth int)
		rec = func(depth int) {
			visit(string(buf))
			if depth == L {
				return
			}
			for i := 0; i < len(alphabet); i++ {
				buf = append(buf, alphabet[i])
				rec(depth + 1)
				buf = buf[:len(buf)-1]
			}
		}
		for i := w.Shard; i < len(roots); i += w.NShards {
			buf = append(buf[:0], roots[i]...)
			rec(2)
		}
	})
	c.Exhaustive(fmt.Sprintf("all strings over {I,V,X,L,C,D,M} of length 0..%d x 4 case renderings x 5 entry points", L))

	// foreign bytes
	nValid := c.Pick(120, 500)
	lookalikes := []string{"ſ", "K", "İ", "ı", "Ⅿ", "ⅿ", "Ⅰ", "ⅰ", "Ｍ", "ͅ"}
	c.Parallel("foreign-byte", 0, func(w *rt.W) {
		for i := w.Shard; i < nValid; i += w.NShards {
			r := rt.NewRand(c.Seed, "C10/valid", uint64(i))
			n := uint64(r.Intn(4000))
			if r.Chance(1, 4) {
				n = uint64(r.Intn(40000))
			}
			_, rf := romanFlags(r.Intn(128))
			base := ref.RomanFormat(n, rf)
			for p := 0; p <= len(base); p++ {
				if p < len(base) {
					for b := 0; b < 256; b++ {
						t := base[:p] + string([]byte{byte(b)}) + base[p+1:]
						c10Case(w, t, roman.Rule(b&1))
						w.ClassN("single-byte-substitution", 1)
					}
				}
				for _, la := range lookalikes {
					c10Case(w, base[:p]+la+base[p:], 0)
					if p < len(base) { // the look-alike in place of a letter (Unicode-aware case mapping turns some into ASCII letters)
						c10Case(w, base[:p]+la+base[p+1:], 0)
					}
					w.ClassN("multibyte-lookalike-insertion", 1)
				}
				for _, ins := range []string{" ", "\n", "\x00", "i", "M", "m"} {
					c10Case(w, base[:p]+ins+base[p:], 0)
					w.ClassN("insertion", 1)
				}
			}
		}
	})
	// around the input limit
	c.Serial("limit", func(w *rt.W) {
		for k := 120; k <= 135; k++ {
			for _, tail := range []string{"", "CMXCIX", "DCCCCLXXXXVIIII", "I", "Q"} {
				if len(tail) > k {
					continue
				}
				t := strings.Repeat("M", k-len(tail)) + tail
				c10Case(w, t, 0)
				c10Case(w, strings.ToLower(t), 0)
				w.ClassN("around-limit", 2)
			}
		}
	})
	{ // call histories: valid numerals colliding under weak checksums, parsed back to back
		var texts []string
		for n := uint64(1); n <= 60000; n++ {
			for _, set := range []int{0, 63, 64, 127, 9} {
				_, rf := romanFlags(set)
				texts = append(texts, ref.RomanFormat(n, rf))
			}
		}
		collisionHistories(c, texts, 300, 100, func(w *rt.W, t string) { c10Case(w, t, 0) })
	}
	{
		oldL := roman.MaxInputLength
		for _, limit := range []int{0, 5000} {
			roman.MaxInputLength = limit
			c.Parallel(fmt.Sprintf("long-numerals-%d", limit), 0, func(w *rt.W) {
				for k := 0; k < 6000/w.NShards; k++ {
					n := uint64(110000 + w.Rng.Intn(900000))
					_, rf := romanFlags(w.Rng.Intn(128))
					base := ref.RomanFormat(n, rf)
					h := rt.Hash64(base)
					for variant := 0; variant < 4; variant++ {
						c10Case(w, caseVariantLong(base, variant, h), 0)
					}
					// lower-case tail behind an upper-case run and the other way round
					cut := len(base) - 1 - w.Rng.Intn(6)
					if cut > 0 {
						c10Case(w, base[:cut]+strings.ToLower(base[cut:]), 0)
						c10Case(w, strings.ToLower(base[:cut])+base[cut:], 0)
					}
					w.ClassN("long-numeral-with-limit-raised", 1)
				}
			})
		}
		// runs of one letter of every length around the widths of small counters (4, 8 and 16 bits), in every group
		// position, with the limit disabled: a run of five or more I, X, C, V, L or D is never a numeral
		roman.MaxInputLength = 0
		c.Parallel("long-runs-of-one-letter", 0, func(w *rt.W) {
			lens := []int{4, 5, 6, 15, 16, 17, 18, 19, 20, 21, 255, 256, 257, 258, 259, 260, 261, 511, 512, 513, 516, 65535, 65536, 65537, 65540}
			frames := [][2]string{{"", ""}, {"M", ""}, {"MD", "XL"}, {"MMCD", ""}, {"", "V"}, {"C", "IX"}, {"mm", "i"}, {"D", ""}}
			n := 0
			for _, L := range lens {
				for _, letter := range []string{"I", "X", "C", "V", "L", "D", "M", "i", "x", "c", "m"} {
					for _, fr := range frames {
						n++
						if n%w.NShards != w.Shard {
							continue
						}
						c10Case(w, fr[0]+strings.Repeat(letter, L)+fr[1], 0)
						c10Case(w, fr[0]+strings.Repeat(letter, L)+fr[1], roman.RuleDisableEmptyAsZero)
						w.ClassN("long-run-of-one-letter", 1)
					}
				}
			}
		})
		c.Require("long-run-of-one-letter", 2000)
		roman.MaxInputLength = oldL
		c.Require("long-numeral-with-limit-raised", 10000)
	}
	c.Require("accepted-variant-0", 1000)
	c.Require("accepted-variant-1", 1000)
	c.Require("accepted-variant-2", 1000)
	c.Require("rejected", 100000)
	{ // the numeral as other layers spell it (quoted, bracketed, escaped, padded, doubled, other scripts): not the numeral
		oldL := roman.MaxInputLength
		for _, limit := range []int{oldL, 0} {
			roman.MaxInputLength = limit
			c.Parallel(fmt.Sprintf("decorated-%d", limit), 0, func(w *rt.W) {
				bases := []string{"MCMXCIV", "mmxxiv", "IV", "i", "MMMM", "xlii", "DCCCLXXXVIII", ""}
				for bi := w.Shard; bi < len(bases); bi += w.NShards {
					for _, d := range decorate(bases[bi]) {
						c10Case(w, d, 0)
						c10Case(w, d, roman.RuleDisableEmptyAsZero)
						w.ClassN("decorated-valid-text", 1)
					}
				}
			})
		}
		roman.MaxInputLength = oldL
		c.Require("decorated-valid-text", 1500)
	}
	guardedInputs(c, "C10", "roman", []string{"MCMXCIV", "mmxxiv", "IV", "i", "MMMM", "xlii", "DCCCLXXXVIII", "IIII", "VX", "MCMXCIVx", "M", "MM", "MMM", "MMMMM", "MMMMMM", "MMMMMMM", "MMMMMMMM", "MMMMMMMMM", "ABC", "\xff"})
	{
		var steps []func(w *rt.W)
		for _, t := range []string{"XIV", "xiv", "", "IIII", "MCMXCIV", "IIIII", "XVI"} {
			for _, r := range []roman.Rule{0, roman.RuleDisableEmptyAsZero} {
				t, r := t, r
				steps = append(steps, func(w *rt.W) { c10Case(w, t, r) })
			}
		}
		tripleHistories(c, steps)
	}
	{
		// "UnmarshalText using global Parser function": a program that forbids the empty numeral everywhere configures
		// the Parser variable with the rule added; absent text in every spelling (nil, empty, empty with capacity,
		// an empty XML element, an empty JSON string) must then be refused and the receiver left alone
		oldP := roman.Parser
		calls := 0
		roman.Parser = func(in []byte, r roman.Rule) (roman.Number, error) {
			calls++
			return roman.DefaultParser(in, r|roman.RuleDisableEmptyAsZero)
		}
		c.Serial("empty-forbidden-through-the-parser-variable", func(w *rt.W) {
			type doc struct {
				N roman.Number `xml:"n" json:"n"`
			}
			for name, f := range map[string]func(n *roman.Number) error{
				"UnmarshalText(nil)":                 func(n *roman.Number) error { return n.UnmarshalText(nil) },
				"UnmarshalText([]byte{})":            func(n *roman.Number) error { return n.UnmarshalText([]byte{}) },
				"UnmarshalText(empty with capacity)": func(n *roman.Number) error { return n.UnmarshalText(make([]byte, 0, 16)) },
				"UnmarshalText(empty sub-slice)":     func(n *roman.Number) error { return n.UnmarshalText([]byte("XIV")[3:]) },
				"xml.Unmarshal(<n></n>)": func(n *roman.Number) error {
					d := doc{N: *n}
					err := xml.Unmarshal([]byte("<doc><n></n></doc>"), &d)
					*n = d.N
					return err
				},
				"xml.Unmarshal(<n/>)": func(n *roman.Number) error {
					d := doc{N: *n}
					err := xml.Unmarshal([]byte("<doc><n/></doc>"), &d)
					*n = d.N
					return err
				},
				"json.Unmarshal(\"\")": func(n *roman.Number) error {
					d := doc{N: *n}
					err := json.Unmarshal([]byte(`{"n":""}`), &d)
					*n = d.N
					return err
				},
			} {
				before := calls
				n := roman.Number(7)
				var err error
				panicked, msg := rt.Call(func() { err = f(&n) })
				w.Eval(1)
				args := rt.Args("path", name, "parser_calls", calls-before)
				switch {
				case panicked:
					w.Fail("panic-empty-under-configured-parser", "emptyconf", args, "panic: "+firstLine(msg), "an error", "see key")
				case err == nil:
					w.Fail("empty-accepted-although-the-configured-parser-forbids-it", "emptyconf", args, fmt.Sprint("accepted, receiver=", uint64(n)), "an error, receiver 7", "the Parser variable adds RuleDisableEmptyAsZero to every call; UnmarshalText uses the Parser variable")
				case n != 7:
					w.Fail("receiver-changed-by-refused-empty", "emptyconf", args, fmt.Sprint(uint64(n)), "7", "a refused unmarshal changed the receiver")
				}
				w.ClassN("empty-forbidden-through-the-parser-variable", 1)
			}
		})
		roman.Parser = oldP
		c.Require("empty-forbidden-through-the-parser-variable", 7)
	}
	c.Require("single-byte-substitution", 100000)
	c.Require("around-limit", 100)
}
