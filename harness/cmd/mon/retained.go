package main

import (
	"fmt"
	"runtime"
	"time"

	"verif/rt"
)

// retainedAcrossCollections: a result the caller keeps stays what it was while the program goes on - through garbage
// collections, finalizer runs (objects recycled by finalizers come back into use only then) and later calls on
// other values. produce returns the result of call number i and the text it must hold; results that are wrong
// from the start are left to the ordinary streams.
func retainedAcrossCollections(c *rt.Ctx, name string, n int, produce func(i int) (got []byte, want string)) {
	c.Serial("retained/"+name, func(w *rt.W) {
		type kept struct {
			b    []byte
			want string
			i    int
		}
		var ks []kept
		failed := false
		check := func(when string) {
			for _, k := range ks {
				w.Eval(1)
				if string(k.b) != k.want && !failed {
					failed = true
					w.Fail("kept-result-changed:"+name, "retained", rt.Args("producer", name, "call", k.i, "when", when), fmt.Sprintf("%q", k.b), fmt.Sprintf("%q", k.want),
						"a result kept by the caller changed after later calls, garbage collections and finalizer runs")
				}
			}
		}
		settle := func() {
			runtime.GC()
			runtime.GC()
			time.Sleep(2 * time.Millisecond) // the finalizer goroutine
			runtime.Gosched()
		}
		for i := 0; i < n; i++ {
			b, want := produce(i)
			w.Eval(1)
			if string(b) != want {
				continue
			}
			ks = append(ks, kept{b, want, i})
			if i%16 == 15 {
				settle()
				for j := 0; j < 64; j++ {
					_, _ = produce(n + i*64 + j) // results nobody keeps
				}
				settle()
				for j := 0; j < 64; j++ {
					_, _ = produce(n + n*64 + i*64 + j)
				}
				check("after collections, finalizer runs and 128 later calls")
			}
		}
		settle()
		check("at the end of the stream")
		w.ClassN("kept-results-rechecked-across-collections", int64(len(ks)))
	})
	c.Require("kept-results-rechecked-across-collections", int64(n/2))
}
