package main

import (
	"bytes"
	"encoding/json"
	"errors"
	"fmt"
	"reflect"
	"regexp"
	"strconv"
	"strings"

	"go.lstv.dev/util/test"

	"verif/rt"
)

// C20 — Marshal-test helpers report exactly the failing cases.

func init() {
	props["C20"] = runC20
	replayers["C20/list"] = func(v rt.Violation) string {
		c := rt.ReplayCtx("C20")
		var specs []c20Spec
		_ = json.Unmarshal([]byte(rt.ArgString(v, "specs")), &specs)
		c.Serial("replay", func(w *rt.W) {
			c20RunList(w, int(rt.ArgInt(v, "helper")), int(rt.ArgInt(v, "type")), v.Args["with_type_helper"] == true, specs)
		})
		return c.Report()
	}
}

// ---- recording TestingT

type c20T struct {
	errorf  int
	failNow int
	first   string
}

func (t *c20T) Errorf(format string, args ...any) {
	t.errorf++
	if t.first == "" {
		t.first = strings.TrimSpace(fmt.Sprintf(format, args...))
		if len(t.first) > 300 {
			t.first = t.first[:300]
		}
	}
}
func (t *c20T) FailNow() { t.failNow++ } // does not unwind, as a mock would not
// Failed is what *testing.T also has: a helper may look at it, but an earlier failure on the same t is no reason to
// stay silent about the next one.
func (t *c20T) Failed() bool { return t.errorf > 0 || t.failNow > 0 }
func (t *c20T) Helper()      {}

// ---- scripted types. The behaviour is a function of the payload.

// SV: Marshal* on the value receiver, Unmarshal* on the pointer receiver.
type SV struct{ ID, MBeh int }

// SP is used as T = *SP: all methods on the pointer receiver.
type SP struct{ ID, MBeh int }

// NoIface lacks all the interfaces.
type NoIface struct{ ID, MBeh int }

// the scripted data is valid JSON (an array of three numbers), so that a helper which
// normalises JSON before comparing is also exercised
func c20Data(id, mbeh, ubeh int) string {
	if id%5 == 0 && id%7 != 0 { // characters that JSON writers may or may not escape
		return fmt.Sprintf("[%d,%d,%d,%q]", ubeh, id, mbeh, "a<b&c>d")
	}
	if id%7 == 0 { // long payload (several KiB): the interesting part of a difference may sit in the middle
		return fmt.Sprintf("[%d,%d,%d,%q]", ubeh, id, mbeh, strings.Repeat("payload-", 400))
	}
	return fmt.Sprintf("[%d,%d,%d]", ubeh, id, mbeh)
}
func c20ErrText(id int) string { return fmt.Sprintf("boom %d", id) }

// c20Evil is an error whose Error method itself panics (a typed nil pointer whose method dereferences it).
type c20Evil struct{ msg string }

func (e *c20Evil) Error() string { return e.msg }

// c20NilSafe is an error type whose methods work on a nil pointer: a marshaler that ends in
// "var e *c20NilSafe; return data, e" returns a non-nil error (err != nil holds) whose dynamic value is nil.
type c20NilSafe struct{}

func (e *c20NilSafe) Error() string { return c20ErrText(0) }

// marshal behaviours: 0 right data; 1 error; 2 error together with data; 3 panic; 4 wrapped error; 5 panic with a value whose Error method panics.
// The unmarshal behaviour travelling inside the data is always 0 for marshalled output.
func c20Marshal(id, mbeh int) ([]byte, error) {
	switch mbeh {
	case 0:
		return []byte(c20Data(id, mbeh, 0)), nil
	case 1:
		return nil, errors.New(c20ErrText(id))
	case 2:
		return []byte(c20Data(id, mbeh, 0)), errors.New(c20ErrText(id))
	case 4: // an error with its own text that wraps an inner error carrying the plain scripted text
		return nil, fmt.Errorf("outer layer: %w", errors.New(c20ErrText(id)))
	case 5:
		var e *c20Evil
		panic(error(e))
	case 6: // right data together with a non-nil error interface holding a nil pointer
		var e *c20NilSafe
		return []byte(c20Data(id, mbeh, 0)), e
	case 7: // nothing to write: a nil slice and no error (the empty text)
		return nil, nil
	case 8: // nothing to write: an empty, non-nil slice and no error
		return []byte{}, nil
	}
	panic(fmt.Sprintf("kaboom %d", id))
}

// unmarshal behaviours (first field of the data): 0 set the encoded value; 1 set a
// different value; 2 error only; 3 error and a value; 4 panic.
func c20Unmarshal(data []byte) (id, mbeh int, set bool, err error) {
	defer func() { // decoded in place, as hex.Decode(text, text) style unmarshalers do: the bytes handed over are used up
		for i := range data {
			data[i] = '#'
		}
	}()
	s := strings.TrimSuffix(string(data), "#other")
	s = strings.NewReplacer(" ", "", "\n", "", "[", "", "]", "").Replace(s)
	parts := strings.Split(s, ",")
	if len(parts) == 4 {
		parts = parts[:3]
	}
	if len(parts) != 3 {
		return 0, 0, false, fmt.Errorf("unparsable scripted data %q", data)
	}
	ubeh, _ := strconv.Atoi(parts[0])
	id, _ = strconv.Atoi(parts[1])
	mbeh, _ = strconv.Atoi(parts[2])
	switch ubeh {
	case 0:
		return id, mbeh, true, nil
	case 1:
		return id + 1000, mbeh, true, nil
	case 2, 10: // 10: an error, and a receiver of map or slice kind reset to an empty, non-nil container (see c20Emptied)
		return 0, 0, false, errors.New(c20ErrText(id))
	case 3:
		return id, mbeh, true, errors.New(c20ErrText(id))
	case 5:
		return 0, 0, false, fmt.Errorf("outer layer: %w", errors.New(c20ErrText(id)))
	case 6:
		var e *c20Evil
		panic(error(e))
	case 7: // the right identity, but the second field differs: only a full comparison of the value sees it
		return id, mbeh + 100, true, nil
	case 8: // nothing set, and a non-nil error interface holding a nil pointer
		var e *c20NilSafe
		return 0, 0, false, e
	case 9: // success without touching the receiver (an empty or null document)
		return 0, 0, false, nil
	}
	panic(fmt.Sprintf("kaboom %d", id))
}

// c20Emptied: does the scripted data ask for unmarshal behaviour 10 (refuse, and leave an empty container that is
// not nil behind, as an unmarshaler that starts with `*l = (*l)[:0]` or `*m = map...{}` does)? Read before
// c20Unmarshal uses the bytes up.
func c20Emptied(data []byte) bool { return bytes.HasPrefix(bytes.TrimLeft(data, " \n"), []byte("[10,")) }

func (s SV) MarshalText() ([]byte, error)   { return c20Marshal(s.ID, s.MBeh) }
func (s SV) MarshalBinary() ([]byte, error) { return c20Marshal(s.ID, s.MBeh) }
func (s SV) MarshalJSON() ([]byte, error)   { return c20Marshal(s.ID, s.MBeh) }
func (s *SV) unmarshal(data []byte) error {
	id, mb, set, err := c20Unmarshal(data)
	if set {
		s.ID, s.MBeh = id, mb
	}
	return err
}
func (s *SV) UnmarshalText(data []byte) error   { return s.unmarshal(data) }
func (s *SV) UnmarshalBinary(data []byte) error { return s.unmarshal(data) }
func (s *SV) UnmarshalJSON(data []byte) error   { return s.unmarshal(data) }

func (s *SP) marshal() ([]byte, error) {
	if s == nil {
		return nil, errors.New(c20ErrText(0))
	}
	return c20Marshal(s.ID, s.MBeh)
}
func (s *SP) MarshalText() ([]byte, error)   { return s.marshal() }
func (s *SP) MarshalBinary() ([]byte, error) { return s.marshal() }
func (s *SP) MarshalJSON() ([]byte, error)   { return s.marshal() }
func (s *SP) unmarshal(data []byte) error {
	id, mb, set, err := c20Unmarshal(data)
	if set {
		s.ID, s.MBeh = id, mb
	}
	return err
}
func (s *SP) UnmarshalText(data []byte) error   { return s.unmarshal(data) }
func (s *SP) UnmarshalBinary(data []byte) error { return s.unmarshal(data) }
func (s *SP) UnmarshalJSON(data []byte) error   { return s.unmarshal(data) }

// SE describes itself loosely: its Equal, Compare and String look at the identity only. A helper
// must compare the whole value all the same (T = SE, Marshal* on the value, Unmarshal* on the pointer).
type SE struct{ ID, MBeh int }

func (s SE) Equal(o SE) bool                { return s.ID == o.ID }
func (s SE) Compare(o SE) int               { return s.ID - o.ID }
func (s SE) String() string                 { return fmt.Sprintf("SE#%d", s.ID) }
func (s SE) MarshalText() ([]byte, error)   { return c20Marshal(s.ID, s.MBeh) }
func (s SE) MarshalBinary() ([]byte, error) { return c20Marshal(s.ID, s.MBeh) }
func (s SE) MarshalJSON() ([]byte, error)   { return c20Marshal(s.ID, s.MBeh) }
func (s *SE) unmarshal(data []byte) error {
	id, mb, set, err := c20Unmarshal(data)
	if set {
		s.ID, s.MBeh = id, mb
	}
	return err
}
func (s *SE) UnmarshalText(data []byte) error   { return s.unmarshal(data) }
func (s *SE) UnmarshalBinary(data []byte) error { return s.unmarshal(data) }
func (s *SE) UnmarshalJSON(data []byte) error   { return s.unmarshal(data) }

// c20Map and c20Slice: T of map kind and of slice kind (zero value nil, which is not the same as empty).
type c20Map map[string]int
type c20Slice []int

func (m c20Map) MarshalText() ([]byte, error)   { return c20Marshal(m["id"], m["mbeh"]) }
func (m c20Map) MarshalBinary() ([]byte, error) { return c20Marshal(m["id"], m["mbeh"]) }
func (m c20Map) MarshalJSON() ([]byte, error)   { return c20Marshal(m["id"], m["mbeh"]) }
func (m *c20Map) unmarshal(data []byte) error {
	emptied := c20Emptied(data)
	id, mb, set, err := c20Unmarshal(data)
	if set {
		*m = c20Map{"id": id, "mbeh": mb}
	}
	if emptied {
		*m = c20Map{}
	}
	return err
}
func (m *c20Map) UnmarshalText(data []byte) error   { return m.unmarshal(data) }
func (m *c20Map) UnmarshalBinary(data []byte) error { return m.unmarshal(data) }
func (m *c20Map) UnmarshalJSON(data []byte) error   { return m.unmarshal(data) }

func (l c20Slice) ids() (int, int) {
	if len(l) < 2 {
		return 0, 0
	}
	return l[0], l[1]
}
func (l c20Slice) MarshalText() ([]byte, error)   { return c20Marshal(l.ids()) }
func (l c20Slice) MarshalBinary() ([]byte, error) { return c20Marshal(l.ids()) }
func (l c20Slice) MarshalJSON() ([]byte, error)   { return c20Marshal(l.ids()) }
func (l *c20Slice) unmarshal(data []byte) error {
	emptied := c20Emptied(data)
	id, mb, set, err := c20Unmarshal(data)
	if set {
		*l = c20Slice{id, mb}
	}
	if emptied {
		*l = make(c20Slice, 0, 4)
	}
	return err
}
func (l *c20Slice) UnmarshalText(data []byte) error   { return l.unmarshal(data) }
func (l *c20Slice) UnmarshalBinary(data []byte) error { return l.unmarshal(data) }
func (l *c20Slice) UnmarshalJSON(data []byte) error   { return l.unmarshal(data) }

// c20Iface: T itself is an interface type; one list then holds values of several implementing types
// (SV by value, *SP by pointer). Only the marshal helpers are run with it (an unmarshal helper has no
// way to make a new value of an interface type without a TypeHelper, which the statement leaves open).
type c20Iface interface {
	MarshalText() ([]byte, error)
	MarshalBinary() ([]byte, error)
	MarshalJSON() ([]byte, error)
}

// TextOnly implements only the text interfaces, JSONOnly only the JSON ones, and Mixed has
// its text methods on the value receiver and its JSON/binary unmarshalers on the pointer receiver.
type TextOnly struct{ ID, MBeh int }

func (s TextOnly) MarshalText() ([]byte, error) { return c20Marshal(s.ID, s.MBeh) }
func (s *TextOnly) UnmarshalText(data []byte) error {
	id, mb, set, err := c20Unmarshal(data)
	if set {
		s.ID, s.MBeh = id, mb
	}
	return err
}

type JSONOnly struct{ ID, MBeh int }

func (s JSONOnly) MarshalJSON() ([]byte, error) { return c20Marshal(s.ID, s.MBeh) }
func (s *JSONOnly) UnmarshalJSON(data []byte) error {
	id, mb, set, err := c20Unmarshal(data)
	if set {
		s.ID, s.MBeh = id, mb
	}
	return err
}

type BinaryOnly struct{ ID, MBeh int }

func (s *BinaryOnly) MarshalBinary() ([]byte, error) { return c20Marshal(s.ID, s.MBeh) }
func (s *BinaryOnly) UnmarshalBinary(data []byte) error {
	id, mb, set, err := c20Unmarshal(data)
	if set {
		s.ID, s.MBeh = id, mb
	}
	return err
}

// c20Implements: does scripted type typ implement the interface helper h needs?
// types: 0 SV, 1 *SP, 2 NoIface, 3 TextOnly, 4 JSONOnly, 5 *BinaryOnly, 6 SE, 7 c20Iface (an interface type), 8 c20Map (map kind), 9 c20Slice (slice kind)
func c20Implements(typ, helper int) bool {
	switch typ {
	case 0, 1, 6, 8, 9:
		return true
	case 7:
		return helper%2 == 0
	case 3:
		return helper/2 == 0
	case 4:
		return helper/2 == 2
	case 5:
		return helper/2 == 1
	}
	return false
}

// ---- case specification (serialisable, so a failing list can be replayed)

type c20Spec struct {
	Constraint int  // 0 both, 1 OnlyMarshal, 2 OnlyUnmarshal
	ID         int  // payload identity
	MBeh       int  // 0..6 (see c20Marshal)
	UBeh       int  // 0..10 (see c20Unmarshal)
	DataRight  bool // marshal: expected Data equals the marshaler's output
	ValueRight bool // unmarshal: expected Value equals what the unmarshaler sets for behaviour 0
	ErrKind    int  // 0 none, 1 AnyError, 2 Error(exact), 3 Error(other), 4 prefix hit, 5 prefix miss, 6 suffix hit, 7 suffix miss, 8 match hit, 9 match miss, 10 invalid pattern, 11 hand-written, content with anything
	Before     int  // 0 nil, 1 pass, 2 returns error, 3 panics, 4 panics with an evil value, 5/6 rewrites the case, 7 run-time error, 8 supplies the data
	After      int
	NilValue   bool // T = *SP only: Value is a nil pointer (unmarshal-only cases)
	ZeroValue  bool // unmarshal-only cases of non-pointer types: the expected Value is the zero value of T (a nil map, a nil slice, an all-zero struct)
	Wildcard   bool // unmarshal-only cases run with the asymmetric TypeHelper: the expected Value's second field means "any"
	EmptyData  bool // marshal-only cases: the expected Data is empty
}

// predicates that do not depend on the case are built once and shared by all cases, lists and helper calls of the
// process, as a test file's package-level `var errBad = test.ErrorMatch(...)` is (state kept inside a predicate value -
// a lazily compiled pattern, a report-once flag - shows only then)
var c20SharedPreds = map[int]test.AssertErrorFunc{
	3: test.Error("some other text"), 4: test.ErrorHasPrefix("boom "), 5: test.ErrorHasPrefix("zzz"), 7: test.ErrorHasSuffix("zzz"),
	8: test.ErrorMatch(`^boom \d+$`), 9: test.ErrorMatch(`^nope$`), 10: test.ErrorMatch(`ab(.`),
}

func c20ErrFunc(s c20Spec) test.AssertErrorFunc {
	if p, ok := c20SharedPreds[s.ErrKind]; ok && s.ID%2 == 0 {
		return p
	}
	switch s.ErrKind {
	case 1:
		return test.AnyError
	case 2:
		return test.Error(c20ErrText(s.ID))
	case 3:
		return test.Error("some other text")
	case 4:
		return test.ErrorHasPrefix("boom ")
	case 5:
		return test.ErrorHasPrefix("zzz")
	case 6:
		return test.ErrorHasSuffix(" " + strconv.Itoa(s.ID))
	case 7:
		return test.ErrorHasSuffix("zzz")
	case 8:
		return test.ErrorMatch(`^boom \d+$`)
	case 9:
		return test.ErrorMatch(`^nope$`)
	case 10:
		return test.ErrorMatch(`ab(.`)
	case 11: // a hand-written predicate for an optional error: content with any error and with none
		return func(t test.TestingT, err error, failInfo string) bool { return true }
	}
	return nil
}

// predicateMet: does a non-nil, non-panic error of the scripted text satisfy the predicate?
func c20PredicateMet(kind int, errText string, id int) bool {
	switch kind {
	case 1:
		return true
	case 2:
		return errText == c20ErrText(id)
	case 4:
		return strings.HasPrefix(errText, "boom ")
	case 6:
		return strings.HasSuffix(errText, " "+strconv.Itoa(id))
	case 8:
		return regexp.MustCompile(`^boom \d+$`).MatchString(errText)
	}
	return false
}

func c20Hook[C any](kind int, rewrite func(*C)) func(int, *C) error {
	switch kind {
	case 1:
		return func(int, *C) error { return nil }
	case 2:
		return func(int, *C) error { return errors.New("hook failed") }
	case 3:
		return func(int, *C) error { panic("hook panicked") }
	case 4:
		return func(int, *C) error {
			var e *c20Evil
			panic(error(e))
		}
	case 5, 6, 8:
		return func(_ int, c *C) error { rewrite(c); return nil }
	case 7: // a hook that dies with a run-time error (a nil map written, an empty slice indexed): a panic like any other
		return func(i int, _ *C) error {
			if i%2 == 0 {
				var m map[string]int
				m["x"] = 1
			}
			var l []int
			_ = l[i]
			return nil
		}
	}
	return nil
}

func c20ExpectedData(s c20Spec) string {
	if s.EmptyData && s.Constraint == 1 {
		return ""
	}
	d := c20Data(s.ID, s.MBeh, s.UBeh)
	// the marshaler always writes unmarshal-behaviour 0 into its output; a case that is used in both
	// directions and wants another unmarshal behaviour therefore cannot also expect the right data
	if !s.DataRight {
		if s.ID%5 == 0 && s.ID%7 != 0 { // the same JSON value with the HTML-sensitive characters escaped: other data
			return strings.NewReplacer("<", `\u003c`, ">", `\u003e`, "&", `\u0026`).Replace(d)
		}
		if s.ID%7 == 0 { // same length, same head and tail, one byte in the middle differs
			b := []byte(d)
			b[len(b)/2] ^= 1
			return string(b)
		}
		if s.ID%2 == 0 { // differs only in insignificant JSON whitespace
			return strings.ReplaceAll(d, ",", ", ") + "\n"
		}
		d += "#other"
	}
	return d
}

// ---- oracle

const (
	oPass = iota
	oFail
	oOpen
)

type c20Judgement struct {
	verdict int
	reason  string
}

func c20JudgeCase(s c20Spec, marshalDir bool) (applicable bool, j c20Judgement) {
	if marshalDir && s.Constraint == 2 || !marshalDir && s.Constraint == 1 {
		return false, c20Judgement{oPass, "not applicable"}
	}
	if (s.Before >= 2 && s.Before <= 4) || s.Before == 7 {
		return true, c20Judgement{oFail, "before hook"}
	}
	if s.After == 2 || s.After == 3 || s.After == 7 { // After kinds above 3 are mapped to a passing hook when the cases are built
		return true, c20Judgement{oFail, "after hook"}
	}
	// a Before hook receives the case by pointer and may prepare it: what counts is the case after the hook
	switch s.Before {
	case 5:
		s.DataRight, s.ValueRight = true, true
	case 6:
		s.DataRight, s.ValueRight = false, false
	}
	var panics, hasErr, hasResult, rightResult bool
	errText := c20ErrText(s.ID)
	if marshalDir { // the marshaler's error text carries the identity of the value it was called on
		errText = c20ErrText(c20MarID(s))
	}
	if marshalDir && s.MBeh == 4 || !marshalDir && s.UBeh == 5 {
		errText = "outer layer: " + errText
	}
	if marshalDir && s.MBeh == 6 || !marshalDir && s.UBeh == 8 {
		errText = c20ErrText(0) // the nil-pointer error knows no identity
	}
	if marshalDir {
		panics, hasErr, hasResult = s.MBeh == 3 || s.MBeh == 5, s.MBeh == 1 || s.MBeh == 2 || s.MBeh == 4 || s.MBeh == 6, s.MBeh == 0 || s.MBeh == 2 || s.MBeh == 6
		// what the marshaler writes is c20Data(ID, MBeh, 0); the case expects c20ExpectedData
		rightResult = s.DataRight && s.ValueRight && s.UBeh == 0
		if s.MBeh == 7 || s.MBeh == 8 || (s.EmptyData && s.Constraint == 1) { // empty output: right exactly when empty data is expected (nil or not)
			rightResult = (s.MBeh == 7 || s.MBeh == 8) && s.EmptyData && s.Constraint == 1
		}
	} else {
		panics, hasErr, hasResult = s.UBeh == 4 || s.UBeh == 6, s.UBeh == 2 || s.UBeh == 3 || s.UBeh == 5 || s.UBeh == 8 || s.UBeh == 10, s.UBeh == 0 || s.UBeh == 1 || s.UBeh == 3 || s.UBeh == 7
		rightResult = s.UBeh == 0 && s.ValueRight && !s.ZeroValue
		if s.ZeroValue { // the expected value is the zero value: satisfied exactly by an unmarshaler that leaves the new receiver alone
			rightResult = s.UBeh == 9
		}
		if s.Wildcard && !s.ZeroValue { // the asymmetric TypeHelper ignores the second field of the expected value
			rightResult = (s.UBeh == 0 || s.UBeh == 7) && s.ValueRight
		}
	}
	if s.ErrKind != 0 {
		if panics {
			return true, c20Judgement{oOpen, "panic judged by an error predicate"}
		}
		if s.ErrKind == 11 { // the predicate is met whatever comes; what remains is "no result alongside an expected error"
			if hasResult {
				return true, c20Judgement{oFail, "non-empty result alongside an expected error"}
			}
			return true, c20Judgement{oPass, "optional error"}
		}
		if !hasErr {
			return true, c20Judgement{oFail, "missing error"}
		}
		if !c20PredicateMet(s.ErrKind, errText, s.ID) {
			if s.ErrKind == 9 || s.ErrKind == 8 {
				return true, c20Judgement{oFail, "errormatch-valid-pattern-nonmatching-nonnil-error"}
			}
			return true, c20Judgement{oFail, "unmet error predicate"}
		}
		if hasResult {
			return true, c20Judgement{oFail, "non-empty result alongside an expected error"}
		}
		return true, c20Judgement{oPass, "expected error"}
	}
	if panics || hasErr {
		return true, c20Judgement{oFail, "unexpected error"}
	}
	if !rightResult {
		return true, c20Judgement{oFail, "differing data or value"}
	}
	return true, c20Judgement{oPass, "ok"}
}

type c20ListJudgement struct {
	verdict int
	reasons []string
}

func c20JudgeList(specs []c20Spec, marshalDir bool, lacksInterface bool) c20ListJudgement {
	anyApplicable := false
	out := c20ListJudgement{verdict: oPass}
	open := false
	for _, s := range specs {
		app, j := c20JudgeCase(s, marshalDir)
		if !app {
			continue
		}
		anyApplicable = true
		switch j.verdict {
		case oFail:
			out.verdict = oFail
			out.reasons = append(out.reasons, j.reason)
		case oOpen:
			open = true
		}
	}
	if lacksInterface {
		switch {
		case len(specs) == 0:
			return c20ListJudgement{verdict: oOpen}
		case anyApplicable:
			return c20ListJudgement{verdict: oFail, reasons: []string{"type lacks the interface"}}
		}
		return c20ListJudgement{verdict: oOpen}
	}
	if out.verdict == oPass && open {
		out.verdict = oOpen
	}
	return out
}

// ---- drivers for the three case kinds and three scripted types

type c20TypeHelper[T any] struct {
	newValue func() T
	wild     bool // AssertEqual is asymmetric: a second field of c20Any in the EXPECTED value matches anything
}

const c20Any = -7

func c20Fields(v any) (id, mbeh int, ok bool) {
	rv := reflect.ValueOf(v)
	if rv.Kind() == reflect.Ptr {
		if rv.IsNil() {
			return 0, 0, false
		}
		rv = rv.Elem()
	}
	if rv.Kind() != reflect.Struct {
		return 0, 0, false
	}
	f1, f2 := rv.FieldByName("ID"), rv.FieldByName("MBeh")
	if !f1.IsValid() || !f2.IsValid() {
		return 0, 0, false
	}
	return int(f1.Int()), int(f2.Int()), true
}

func (h c20TypeHelper[T]) New(T) T { return h.newValue() }
func (h c20TypeHelper[T]) AssertEmpty(t test.TestingT, value T, failInfo string) {
	v := reflect.ValueOf(value)
	if v.Kind() == reflect.Ptr {
		if v.IsNil() {
			return
		}
		v = v.Elem()
	}
	if v.Kind() == reflect.Map || v.Kind() == reflect.Slice { // empty is empty, nil or not
		if v.Len() != 0 {
			t.Errorf("not empty: %v (%s)", value, failInfo)
		}
		return
	}
	if !v.IsZero() {
		t.Errorf("not empty: %v (%s)", value, failInfo)
	}
}
func (h c20TypeHelper[T]) AssertEqual(t test.TestingT, expected, actual T, failInfo string) {
	if h.wild {
		eid, emb, ok1 := c20Fields(expected)
		aid, _, ok2 := c20Fields(actual)
		if ok1 && ok2 && emb == c20Any {
			if eid != aid {
				t.Errorf("not equal: %v vs %v (%s)", expected, actual, failInfo)
			}
			return
		}
	}
	if !reflect.DeepEqual(expected, actual) {
		t.Errorf("not equal: %v vs %v (%s)", expected, actual, failInfo)
	}
}

// helper numbers: 0 MarshalText 1 UnmarshalText 2 MarshalBinary 3 UnmarshalBinary 4 MarshalJSON 5 UnmarshalJSON
var c20HelperNames = []string{"MarshalText", "UnmarshalText", "MarshalBinary", "UnmarshalBinary", "MarshalJSON", "UnmarshalJSON"}

func c20Invoke[T any](t *c20T, helper int, withHelper bool, specs []c20Spec, mk func(c20Spec) T, newValue func() T) (tableModified string) {
	var th test.TypeHelper[T]
	if withHelper {
		wild := false
		for _, s := range specs {
			wild = wild || s.Wildcard
		}
		th = c20TypeHelper[T]{newValue, wild}
	}
	mkInner := mk
	mk = func(s c20Spec) T {
		if s.ZeroValue && s.Constraint == 2 {
			var z T
			return z
		}
		return mkInner(s)
	}
	cons := func(s c20Spec) test.Constraint { return test.Constraint(s.Constraint) }
	// initial / final content of a case whose Before hook rewrites it (kind 5: wrong -> right, kind 6: right -> wrong)
	initial := func(s c20Spec) c20Spec {
		switch s.Before {
		case 5:
			s.DataRight, s.ValueRight = false, false
		case 6:
			s.DataRight, s.ValueRight = true, true
		}
		return s
	}
	final := func(s c20Spec) c20Spec {
		switch s.Before {
		case 5:
			s.DataRight, s.ValueRight = true, true
		case 6:
			s.DataRight, s.ValueRight = false, false
		}
		return s
	}
	// kind 8: the hook supplies the data (a table whose Data is filled in by its Before hooks): what stands there before
	// the hook runs belongs to another identity, the Value is right all along
	initData := func(s c20Spec) string {
		if s.Before == 8 {
			t := s
			t.ID = s.ID + 1
			return c20ExpectedData(t)
		}
		return c20ExpectedData(initial(s))
	}
	noAfter := func(k int) int {
		if k > 3 && k != 7 {
			return 1
		}
		return k
	}
	switch helper / 2 {
	case 0:
		cases := make([]test.CaseText[T], len(specs))
		for i, s := range specs {
			s := s
			cases[i] = test.CaseText[T]{Constraint: cons(s), Before: c20Hook(s.Before, func(c *test.CaseText[T]) { c.Data, c.Value = c20ExpectedData(final(s)), mk(final(s)) }), After: c20Hook[test.CaseText[T]](noAfter(s.After), nil), Error: c20ErrFunc(s), Data: initData(s), Value: mk(initial(s))}
		}
		if helper%2 == 0 {
			test.MarshalText(t, cases)
		} else {
			test.UnmarshalText(t, cases, th)
		}
		for i, s := range specs {
			if want := initData(s); cases[i].Data != want {
				tableModified = fmt.Sprintf("case %d Data is now %q", i, clipStr(cases[i].Data, 80))
			}
		}
	case 1:
		cases := make([]test.CaseBinary[T], len(specs))
		for i, s := range specs {
			s := s
			cases[i] = test.CaseBinary[T]{Constraint: cons(s), Before: c20Hook(s.Before, func(c *test.CaseBinary[T]) { c.Data, c.Value = []byte(c20ExpectedData(final(s))), mk(final(s)) }), After: c20Hook[test.CaseBinary[T]](noAfter(s.After), nil), Error: c20ErrFunc(s), Data: []byte(initData(s)), Value: mk(initial(s))}
		}
		if helper%2 == 0 {
			test.MarshalBinary(t, cases)
		} else {
			test.UnmarshalBinary(t, cases, th)
		}
		// (CaseBinary.Data is a byte slice handed to the unmarshaler as it is: an unmarshaler that decodes in place
		// changes it, and nothing in the contract says otherwise. Only the string-typed Data of the text and JSON
		// cases is checked: a string must never change.)
	default:
		cases := make([]test.CaseJSON[T], len(specs))
		for i, s := range specs {
			s := s
			cases[i] = test.CaseJSON[T]{Constraint: cons(s), Before: c20Hook(s.Before, func(c *test.CaseJSON[T]) { c.Data, c.Value = c20ExpectedData(final(s)), mk(final(s)) }), After: c20Hook[test.CaseJSON[T]](noAfter(s.After), nil), Error: c20ErrFunc(s), Data: initData(s), Value: mk(initial(s))}
		}
		if helper%2 == 0 {
			test.MarshalJSON(t, cases)
		} else {
			test.UnmarshalJSON(t, cases, th)
		}
		for i, s := range specs {
			if want := initData(s); cases[i].Data != want {
				tableModified = fmt.Sprintf("case %d Data is now %q", i, clipStr(cases[i].Data, 80))
			}
		}
	}
	return tableModified
}

// c20MarID: the identity of the value handed to a marshal helper. A case with a "wrong value"
// carries a value that marshals to other data than the case expects.
func c20MarID(s c20Spec) int {
	if s.ValueRight {
		return s.ID
	}
	return s.ID + 3001 // keeps ID%7 and ID%2 classes apart from the expected one on purpose
}

// expectedValue: what the case expects the unmarshaler to produce.
func c20ExpID(s c20Spec) int {
	if s.ValueRight {
		return s.ID
	}
	return s.ID + 5000
}

// c20RunList runs one helper on one list (type: 0 SV, 1 *SP, 2 NoIface) and compares with the oracle.
func c20RunList(w *rt.W, helper, typ int, withHelper bool, specs []c20Spec) c20ListJudgement {
	return c20RunListOn(w, &c20T{}, helper, typ, withHelper, specs)
}

// c20RunListOn runs the list on a TestingT that may already have recorded failures of earlier helper calls.
func c20RunListOn(w *rt.W, t *c20T, helper, typ int, withHelper bool, specs []c20Spec) c20ListJudgement {
	marshalDir := helper%2 == 0
	e0, f0 := t.errorf, t.failNow
	modified := ""
	panicked, msg := rt.Call(func() {
		switch typ {
		case 0:
			modified = c20Invoke(t, helper, withHelper, specs, func(s c20Spec) SV {
				if marshalDir || s.Constraint == 1 {
					return SV{ID: c20MarID(s), MBeh: s.MBeh}
				}
				if s.Wildcard {
					return SV{ID: c20ExpID(s), MBeh: c20Any}
				}
				return SV{ID: c20ExpID(s), MBeh: s.MBeh}
			}, func() SV { return SV{} })
		case 1:
			modified = c20Invoke(t, helper, withHelper, specs, func(s c20Spec) *SP {
				if s.NilValue && s.Constraint == 2 {
					return nil
				}
				if marshalDir || s.Constraint == 1 {
					return &SP{ID: c20MarID(s), MBeh: s.MBeh}
				}
				if s.Wildcard {
					return &SP{ID: c20ExpID(s), MBeh: c20Any}
				}
				return &SP{ID: c20ExpID(s), MBeh: s.MBeh}
			}, func() *SP { return &SP{} })
		case 6:
			modified = c20Invoke(t, helper, withHelper, specs, func(s c20Spec) SE {
				if marshalDir || s.Constraint == 1 {
					return SE{ID: c20MarID(s), MBeh: s.MBeh}
				}
				return SE{ID: c20ExpID(s), MBeh: s.MBeh}
			}, func() SE { return SE{} })
		case 8:
			modified = c20Invoke(t, helper, withHelper, specs, func(s c20Spec) c20Map {
				if marshalDir || s.Constraint == 1 {
					return c20Map{"id": c20MarID(s), "mbeh": s.MBeh}
				}
				return c20Map{"id": c20ExpID(s), "mbeh": s.MBeh}
			}, func() c20Map { return nil })
		case 9:
			modified = c20Invoke(t, helper, withHelper, specs, func(s c20Spec) c20Slice {
				if marshalDir || s.Constraint == 1 {
					return c20Slice{c20MarID(s), s.MBeh}
				}
				return c20Slice{c20ExpID(s), s.MBeh}
			}, func() c20Slice { return nil })
		case 7:
			modified = c20Invoke(t, helper, withHelper, specs, func(s c20Spec) c20Iface {
				if s.ID%2 == 0 {
					return SV{ID: c20MarID(s), MBeh: s.MBeh}
				}
				return &SP{ID: c20MarID(s), MBeh: s.MBeh}
			}, func() c20Iface { return nil })
		case 3:
			modified = c20Invoke(t, helper, withHelper, specs, func(s c20Spec) TextOnly {
				if marshalDir || s.Constraint == 1 {
					return TextOnly{ID: c20MarID(s), MBeh: s.MBeh}
				}
				return TextOnly{ID: c20ExpID(s), MBeh: s.MBeh}
			}, func() TextOnly { return TextOnly{} })
		case 4:
			modified = c20Invoke(t, helper, withHelper, specs, func(s c20Spec) JSONOnly {
				if marshalDir || s.Constraint == 1 {
					return JSONOnly{ID: c20MarID(s), MBeh: s.MBeh}
				}
				return JSONOnly{ID: c20ExpID(s), MBeh: s.MBeh}
			}, func() JSONOnly { return JSONOnly{} })
		case 5:
			modified = c20Invoke(t, helper, withHelper, specs, func(s c20Spec) *BinaryOnly {
				if marshalDir || s.Constraint == 1 {
					return &BinaryOnly{ID: c20MarID(s), MBeh: s.MBeh}
				}
				return &BinaryOnly{ID: c20ExpID(s), MBeh: s.MBeh}
			}, func() *BinaryOnly { return &BinaryOnly{} })
		default:
			modified = c20Invoke(t, helper, withHelper, specs, func(s c20Spec) NoIface { return NoIface{ID: s.ID, MBeh: s.MBeh} }, func() NoIface { return NoIface{} })
		}
	})
	w.Eval(1)
	j := c20JudgeList(specs, marshalDir, !c20Implements(typ, helper))
	reported := t.errorf > e0 || t.failNow > f0
	args := func() map[string]any {
		b, _ := json.Marshal(specs)
		return rt.Args("helper", helper, "helper_name", c20HelperNames[helper], "type", typ, "with_type_helper", withHelper, "specs", string(b), "oracle_reasons", strings.Join(j.reasons, "; "), "testing_t_had_failed_before", e0+f0 > 0)
	}
	if panicked {
		w.Fail("panic-escaped:"+c20HelperNames[helper], "list", args(), "panic: "+strings.SplitN(msg, "\n", 2)[0], "no panic", "a panic escaped the helper\n"+msg)
		return j
	}
	if modified != "" {
		w.Fail("case-table-modified:"+c20HelperNames[helper], "list", args(), modified, "the caller's case table as it was", c20HelperNames[helper]+" let the (un)marshaler write into the caller's case table: the next use of the table is judged against other data")
	}
	switch j.verdict {
	case oFail:
		if !reported {
			key := "missed-failure:" + strings.Join(dedup(j.reasons), "+")
			if only(j.reasons, "errormatch-valid-pattern-nonmatching-nonnil-error") {
				key = "errormatch-valid-pattern-nonmatching-nonnil-error"
			}
			w.Fail(key, "list", args(), "no failure reported (0 Errorf, 0 FailNow)", "a reported failure: "+strings.Join(dedup(j.reasons), "; "), c20HelperNames[helper]+" reported nothing although a case is not satisfied")
		}
	case oPass:
		if reported {
			w.Fail("spurious-failure:"+c20HelperNames[helper], "list", args(), "failure reported: "+t.first, "no failure", c20HelperNames[helper]+" reported a failure although every applicable case is satisfied")
		}
	default:
		w.DontCare("panicking (un)marshaler judged by an error predicate / no applicable case for a type lacking the interface")
	}
	return j
}

func only(rs []string, r string) bool {
	if len(rs) == 0 {
		return false
	}
	for _, x := range rs {
		if x != r {
			return false
		}
	}
	return true
}

func dedup(rs []string) []string {
	seen := map[string]bool{}
	var out []string
	for _, r := range rs {
		if !seen[r] {
			seen[r] = true
			out = append(out, r)
		}
	}
	return out
}

func c20GenSpec(r *rt.Rand, id int) c20Spec {
	s := c20Spec{ID: id, DataRight: true, ValueRight: true}
	s.Constraint = []int{0, 0, 1, 2, 2}[r.Intn(5)]
	// most cases satisfied, each defect introduced with moderate probability so single-defect lists are common
	switch r.Intn(10) {
	case 0:
		s.MBeh = 1 + r.Intn(8)
	case 1:
		s.DataRight = false
	}
	switch r.Intn(10) {
	case 0:
		s.UBeh = 1 + r.Intn(9)
	case 1:
		s.ValueRight = false
	}
	switch r.Intn(8) {
	case 0: // a case that expects an error and gets it
		s.ErrKind = []int{1, 2, 4, 6, 8}[r.Intn(5)]
		s.MBeh, s.UBeh = 1, 2
		if r.Chance(1, 3) { // refused, and an empty container that is not nil left behind: still nothing alongside the error
			s.UBeh = 10
		}
	case 1: // expects an error with an arbitrary predicate and arbitrary behaviour
		s.ErrKind = 1 + r.Intn(11)
		s.MBeh, s.UBeh = r.Intn(7), r.Intn(10)
	case 2: // expects the plain text and gets an error that only wraps it
		s.ErrKind = []int{2, 4, 6, 8, 1}[r.Intn(5)]
		s.MBeh, s.UBeh = 4, 5
	case 3: // an optional error (hand-written predicate) and a method that returns a result without an error
		if r.Chance(1, 3) {
			s.ErrKind = 11
			s.MBeh, s.UBeh = 0, r.Intn(2)
		}
	}
	if r.Chance(1, 4) {
		s.Before = r.Intn(9)
		if ((s.Before >= 2 && s.Before <= 4) || s.Before == 7) && r.Chance(2, 3) {
			s.Before = 1
		}
	}
	if r.Chance(1, 4) {
		s.After = []int{0, 1, 2, 3, 7}[r.Intn(5)]
		if s.After >= 2 && r.Chance(2, 3) {
			s.After = 1
		}
	}
	if s.Constraint == 2 && s.ErrKind != 0 && r.Bool() {
		s.NilValue = true
	}
	if s.Constraint == 1 && r.Chance(1, 6) { // the empty text expected; most often from a marshaler that writes nothing
		s.EmptyData = true
		if r.Chance(3, 4) && s.ErrKind == 0 {
			s.MBeh = 7 + r.Intn(2)
		}
	}
	if s.Constraint == 2 && r.Chance(1, 5) { // the zero value expected; most often from an unmarshaler that leaves the receiver alone
		s.ZeroValue = true
		if r.Chance(2, 3) && s.ErrKind == 0 {
			s.UBeh = 9
		}
	}
	return s
}

func runC20(c *rt.Ctx) {
	nLists := c.Pick(60000, 3000000)
	c.SetRule(fmt.Sprintf("%d seeded case lists of length 0..6 over scripted types (value type with pointer-receiver Unmarshal*, pointer type, type lacking the interfaces) whose Marshal*/Unmarshal* behave per the payload (right data, wrong data, a value that differs in one field only, error, wrapped error, non-nil error holding a nil pointer, error with data/value, panic); a type whose own Equal/Compare/String look at part of the value only; ", nLists) +
		"cases vary constraint, expected data/value right or wrong, twelve error-predicate variants (AnyError, Error exact/other, prefix/suffix hit/miss, regexp hit/miss/invalid, a hand-written predicate content with any outcome), Before/After hooks (nil, pass, error, panic), nil pointer values, with and without a TypeHelper; each list is run whole and case by case through all six helpers with a recording TestingT whose FailNow does not unwind, inside a panic guard. " +
		"distinct_nontrivial counts distinct (helper, type, list) runs (by hash) in which exactly one condition is unmet")
	c.Assume("oracle is an independent re-statement of the helper contract (harness c20JudgeCase/c20JudgeList); testify's ObjectsAreEqual/Empty semantics are avoided by never generating empty payloads; a refused unmarshal that leaves an empty map or slice that is not nil behind counts as an empty result")
	{
		_, j1 := c20JudgeCase(c20Spec{ID: 1, DataRight: true, ValueRight: true}, true)
		_, j2 := c20JudgeCase(c20Spec{ID: 1, DataRight: false, ValueRight: true}, true)
		_, j3 := c20JudgeCase(c20Spec{ID: 1, MBeh: 2, ErrKind: 1}, true)
		_, j4 := c20JudgeCase(c20Spec{ID: 1, UBeh: 2, ErrKind: 9}, false)
		app, _ := c20JudgeCase(c20Spec{ID: 1, Constraint: 2, MBeh: 3}, true)
		_, j6 := c20JudgeCase(c20Spec{ID: 1, MBeh: 3, ErrKind: 1}, true)
		c.SelfTest("oracle-vectors", j1.verdict == oPass && j2.verdict == oFail && j3.verdict == oFail && j3.reason == "non-empty result alongside an expected error" && j4.verdict == oFail && !app && j6.verdict == oOpen)
		sc := rt.ReplayCtx("C20")
		sc.Serial("selftest", func(w *rt.W) {
			w.Fail("missed-failure:x", "list", nil, "no failure reported", "a failure", "synthetic")
		})
		c.SelfTest("monitor-records-a-mismatch", sc.Violations() == 1)
	}
	c.Parallel("lists", 0, func(w *rt.W) {
		r := w.Rng
		for i := 0; i < nLists/w.NShards; i++ {
			n := []int{0, 1, 1, 2, 2, 3, 3, 4, 5, 6}[r.Intn(10)]
			specs := make([]c20Spec, n)
			for k := range specs {
				specs[k] = c20GenSpec(r, 1+r.Intn(900))
			}
			typ := []int{0, 0, 0, 1, 1, 2, 3, 4, 5, 6, 6, 7, 7, 8, 8, 9}[r.Intn(16)]
			if typ != 1 {
				for k := range specs {
					specs[k].NilValue = false
				}
			}
			withHelper := r.Chance(1, 3)
			for k := range specs {
				if typ == 1 || typ == 5 || typ == 7 { // zero value of a pointer or interface type: what a helper makes of it is left open
					specs[k].ZeroValue = false
				}
				if withHelper && (typ == 0 || typ == 1) && specs[k].Constraint == 2 && !specs[k].ZeroValue && !specs[k].NilValue && r.Chance(1, 3) {
					specs[k].Wildcard = true
				}
				if specs[k].ZeroValue && specs[k].UBeh == 9 && (typ == 8 || typ == 9) {
					w.ClassN("nil-map-or-slice-expected-and-left-alone", 1)
				}
				if specs[k].Wildcard {
					w.ClassN("asymmetric-type-helper-case", 1)
				}
			}
			for _, sp := range specs {
				if typ == 6 && sp.UBeh == 7 && sp.Constraint != 1 && !withHelper {
					w.ClassN("loosely-self-comparing-type-with-partial-difference", 1)
				}
				if sp.MBeh == 6 || sp.UBeh == 8 {
					w.ClassN("non-nil-error-holding-nil-pointer", 1)
				}
				if sp.Before == 8 {
					w.ClassN("before-hook-supplies-the-data", 1)
				}
				if sp.UBeh == 10 && sp.Constraint != 1 && (typ == 8 || typ == 9) {
					w.ClassN("empty-non-nil-container-alongside-expected-error", 1)
				}
			}
			for helper := 0; helper < 6; helper++ {
				if typ == 7 {
					if helper%2 == 1 {
						continue
					}
					w.ClassN("interface-typed-T", 1)
				}
				j := c20RunList(w, helper, typ, withHelper && helper%2 == 1, specs)
				switch j.verdict {
				case oFail:
					w.ClassN("list-must-fail", 1)
					if len(j.reasons) == 1 {
						w.NTHash(rt.Hash64(fmt.Sprint(helper, typ, specs)))
						w.ClassN("single-unmet-condition:"+j.reasons[0], 1)
					}
				case oPass:
					w.ClassN("list-must-pass", 1)
				default:
					w.ClassN("list-open", 1)
				}
				// case-by-case attribution
				if n > 1 && i%4 == 0 {
					for k := range specs {
						c20RunList(w, helper, typ, withHelper && helper%2 == 1, specs[k:k+1])
					}
					w.ClassN("case-by-case-runs", int64(n))
				}
			}
			if i%3 == 0 && n > 0 && typ != 7 { // one *testing.T for a whole test function: an earlier helper call has failed on it
				t := &c20T{}
				t.Errorf("an earlier check of the same test failed")
				for _, helper := range []int{r.Intn(6), r.Intn(6)} {
					c20RunListOn(w, t, helper, typ, withHelper && helper%2 == 1, specs)
				}
				w.ClassN("helper-called-on-an-already-failed-t", 2)
			}
			if i%5003 == 0 && w.Class("sample-list") {
				b, _ := json.Marshal(specs)
				w.Sample("list", map[string]any{"type": typ, "with_type_helper": withHelper, "specs": json.RawMessage(b)})
			}
		}
	})
	c.Require("list-must-fail", 10000)
	c.Require("list-must-pass", 10000)
	c.Require("case-by-case-runs", 10000)
	c.Require("interface-typed-T", 1000)
	c.Require("helper-called-on-an-already-failed-t", 10000)
	c.Require("nil-map-or-slice-expected-and-left-alone", 200)
	c.Require("asymmetric-type-helper-case", 200)
	c.Require("loosely-self-comparing-type-with-partial-difference", 50)
	c.Require("non-nil-error-holding-nil-pointer", 200)
	c.Require("empty-non-nil-container-alongside-expected-error", 100)
	c.Require("before-hook-supplies-the-data", 1000)
	for _, r := range []string{"before hook", "after hook", "missing error", "unmet error predicate", "non-empty result alongside an expected error", "unexpected error", "differing data or value", "type lacks the interface", "errormatch-valid-pattern-nonmatching-nonnil-error"} {
		c.Require("single-unmet-condition:"+r, 50)
	}
}
