package main

import (
	"fmt"
	"strings"

	"go.lstv.dev/util/sem"

	"verif/ref"
	"verif/rt"
)

// C14 — Version comparison is a coherent order and next/latest respect it.

func init() {
	props["C14"] = runC14
	replayers["C14/laws"] = func(v rt.Violation) string {
		c := rt.ReplayCtx("C14")
		c.Serial("replay", func(w *rt.W) {
			a := sem.Ver{Major: rt.ArgUint(v, "a_major"), Minor: rt.ArgUint(v, "a_minor"), Patch: rt.ArgUint(v, "a_patch"), PreRelease: rt.ArgString(v, "a_pre"), Build: rt.ArgString(v, "a_build")}
			b := sem.Ver{Major: rt.ArgUint(v, "b_major"), Minor: rt.ArgUint(v, "b_minor"), Patch: rt.ArgUint(v, "b_patch"), PreRelease: rt.ArgString(v, "b_pre"), Build: rt.ArgString(v, "b_build")}
			c14Pair(w, a, b)
			// the same pair with the pre-release strings sharing memory, when one is a prefix or suffix of the other
			switch {
			case a.PreRelease != "" && strings.HasPrefix(b.PreRelease, a.PreRelease):
				a.PreRelease = b.PreRelease[:len(a.PreRelease)]
			case a.PreRelease != "" && strings.HasSuffix(b.PreRelease, a.PreRelease):
				a.PreRelease = b.PreRelease[len(b.PreRelease)-len(a.PreRelease):]
			case b.PreRelease != "" && strings.HasPrefix(a.PreRelease, b.PreRelease):
				b.PreRelease = a.PreRelease[:len(b.PreRelease)]
			case b.PreRelease != "" && strings.HasSuffix(a.PreRelease, b.PreRelease):
				b.PreRelease = a.PreRelease[len(a.PreRelease)-len(b.PreRelease):]
			default:
				return
			}
			c14Pair(w, a, b)
		})
		return c.Report()
	}
	replayers["C14/helpers"] = func(v rt.Violation) string {
		c := rt.ReplayCtx("C14")
		c.Serial("replay", func(w *rt.W) { c14Helpers(w, rt.ArgString(v, "a"), rt.ArgString(v, "b")) })
		return c.Report()
	}
	replayers["C14/next"] = func(v rt.Violation) string {
		c := rt.ReplayCtx("C14")
		c.Serial("replay", func(w *rt.W) {
			c14Next(w, sem.Ver{Major: rt.ArgUint(v, "a_major"), Minor: rt.ArgUint(v, "a_minor"), Patch: rt.ArgUint(v, "a_patch"), PreRelease: rt.ArgString(v, "a_pre"), Build: rt.ArgString(v, "a_build")})
		})
		return c.Report()
	}
}

var c14Builds = []string{"", "b", "001.x", "z-9"}

// c14Pair checks the order laws on one ordered pair of valid versions.
// c14StatedOrder: the order in force is the one the statement describes (false while a replacement
// ComparePreRelease is installed: then "lower" is what Ver.Compare, which consults the hook, says)
var c14StatedOrder = true

func c14Pair(w *rt.W, a, b sem.Ver) {
	defer func() {
		if r := recover(); r != nil {
			w.Fail("panic", "laws", verArgs(a, b, "?"), fmt.Sprint("panic: ", r), "a result", "comparison panicked on valid versions")
		}
	}()
	fail := func(key, entry, got, want string) {
		w.Fail(key, "laws", verArgs(a, b, entry), got, want, "order law violated: "+key)
	}
	r := a.Compare(b)
	rb := b.Compare(a)
	w.Eval(2)
	if r < -1 || r > 1 {
		fail("range", "Ver.Compare", fmt.Sprint(r), "-1, 0 or 1")
	}
	if r != -rb {
		fail("antisymmetry", "Ver.Compare", fmt.Sprintf("cmp(a,b)=%d cmp(b,a)=%d", r, rb), "cmp(a,b) == -cmp(b,a)")
	}
	if x := a.Compare(a); x != 0 {
		fail("reflexivity", "Ver.Compare(a,a)", fmt.Sprint(x), "0")
	}
	w.Eval(1)
	sameCore := a.Major == b.Major && a.Minor == b.Minor && a.Patch == b.Patch
	if sameCore && a.PreRelease == b.PreRelease && r != 0 {
		fail("equal-core-and-prerelease", "Ver.Compare", fmt.Sprint(r), "0")
	}
	for _, ba := range c14Builds {
		for _, bb := range c14Builds {
			a2, b2 := a, b
			a2.Build, b2.Build = ba, bb
			w.Eval(1)
			if x := a2.Compare(b2); x != r {
				fail("build-metadata-affects-result", fmt.Sprintf("Ver.Compare with builds %q %q", ba, bb), fmt.Sprint(x), fmt.Sprint(r))
			}
		}
	}
	l := a.Latest(b)
	w.Eval(1)
	if l != a && l != b {
		fail("latest-not-an-argument", "Ver.Latest", fmt.Sprintf("%+v", l), "a or b")
	} else {
		other := b
		if l == b && l != a {
			other = a
		}
		if x := l.Compare(other); x < 0 {
			fail("latest-returned-lower", "Ver.Latest", fmt.Sprintf("returned %+v which compares %d to the other", l, x), "never the lower one")
		}
	}
	// "never the lower one" by the order the statement names, not only by the library's own Compare (a Compare that
	// calls two different versions equal is consistent with itself and with a Latest that returns either)
	if c14StatedOrder && !(sameCore && ref.ExcludedPair(a.PreRelease, b.PreRelease)) && (l == a || l == b) && a != b {
		want := 0
		for _, p := range [][2]uint64{{a.Major, b.Major}, {a.Minor, b.Minor}, {a.Patch, b.Patch}} {
			if want == 0 && p[0] != p[1] {
				want = 1
				if p[0] < p[1] {
					want = -1
				}
			}
		}
		if want == 0 {
			want = ref.ComparePre(a.PreRelease, b.PreRelease)
		}
		w.Eval(1)
		if (want > 0 && l != a) || (want < 0 && l != b) {
			fail("latest-returned-lower-by-the-stated-order", "Ver.Latest", fmt.Sprintf("returned %+v", l), fmt.Sprintf("the higher one (reference order says cmp(a,b)=%d)", want))
		}
		if want != 0 {
			w.ClassN("latest-judged-by-reference-order", 1)
		}
	}
	if sameCore && ref.ExcludedPair(a.PreRelease, b.PreRelease) {
		w.ClassN("pair-in-C06-excluded-zone", 1)
	}
	if len(a.PreRelease) != len(b.PreRelease) {
		w.ClassN("pair-different-byte-lengths", 1)
	}
}

func textValidFor(s string, version, tag bool) bool {
	hasV := strings.HasPrefix(s, "v")
	body := strings.TrimPrefix(s, "v")
	if s == "" || len(s) > 1024 {
		return false
	}
	rv, ok := ref.RecogniseSemVer(body)
	if !ok || !rv.FitsU64() {
		return false
	}
	return (hasV && tag) || (!hasV && version)
}

// c14Helpers checks each string helper against comparing the parsed values.
func c14Helpers(w *rt.W, ta, tb string) {
	defer func() {
		if r := recover(); r != nil {
			w.Fail("panic", "helpers", rt.Args("a", ta, "b", tb), fmt.Sprint("panic: ", r), "a result or an error", "string helper panicked")
		}
	}()
	type helper struct {
		name         string
		version, tag bool
		cmp          func() (int, error)
		latest       func() (sem.Ver, error)
		parse        func(string) (sem.Ver, error)
	}
	hs := []helper{
		{"Compare", true, true, func() (int, error) { return sem.Compare(ta, tb) }, nil, func(s string) (sem.Ver, error) { return sem.Parse(s) }},
		{"CompareVersion", true, false, func() (int, error) { return sem.CompareVersion[string, string](ta, tb) }, nil, func(s string) (sem.Ver, error) { return sem.ParseVersion(s) }},
		{"CompareTag", false, true, func() (int, error) { return sem.CompareTag([]byte(ta), tb) }, nil, func(s string) (sem.Ver, error) { return sem.ParseTag(s) }},
		{"Latest", true, true, nil, func() (sem.Ver, error) { return sem.Latest(ta, []byte(tb)) }, func(s string) (sem.Ver, error) { return sem.Parse(s) }},
		{"LatestVersion", true, false, nil, func() (sem.Ver, error) { return sem.LatestVersion(ta, tb) }, func(s string) (sem.Ver, error) { return sem.ParseVersion(s) }},
		{"LatestTag", false, true, nil, func() (sem.Ver, error) { return sem.LatestTag([]byte(ta), []byte(tb)) }, func(s string) (sem.Ver, error) { return sem.ParseTag(s) }},
	}
	// both texts as adjacent fields of one record buffer, handed over as sub-slices
	rec := []byte(ta + tb + "|END")
	ra, rb := rec[:len(ta)], rec[len(ta):len(ta)+len(tb)]
	hs = append(hs,
		helper{"Compare on adjacent sub-slices", true, true, func() (int, error) { return sem.Compare(ra, rb) }, nil, func(s string) (sem.Ver, error) { return sem.Parse(s) }},
		helper{"CompareTag on adjacent sub-slices", false, true, func() (int, error) { return sem.CompareTag(ra, rb) }, nil, func(s string) (sem.Ver, error) { return sem.ParseTag(s) }},
		helper{"LatestVersion on adjacent sub-slices", true, false, nil, func() (sem.Ver, error) { return sem.LatestVersion(ra, rb) }, func(s string) (sem.Ver, error) { return sem.ParseVersion(s) }},
	)
	defer func() {
		if string(rec) != ta+tb+"|END" {
			w.Fail("helper-modified-its-input", "helpers", rt.Args("a", ta, "b", tb), string(rec), ta+tb+"|END", "a string helper wrote into the byte slices it was given")
		}
	}()
	for _, h := range hs {
		wantErr := !textValidFor(ta, h.version, h.tag) || !textValidFor(tb, h.version, h.tag)
		fail := func(key, got, want string) {
			w.Fail(key, "helpers", rt.Args("a", ta, "b", tb, "helper", h.name), got, want, h.name+": "+key)
		}
		w.Eval(1)
		if h.cmp != nil {
			got, err := h.cmp()
			switch {
			case wantErr && err == nil:
				fail("helper-accepted-invalid-text", fmt.Sprint(got), "an error")
			case !wantErr && err != nil:
				fail("helper-rejected-valid-texts", err.Error(), "a result")
			case wantErr:
				if got != 0 {
					fail("helper-nonzero-with-error", fmt.Sprint(got), "0")
				}
				w.ClassN("helper-error-case", 1)
			default:
				av, _ := h.parse(ta)
				bv, _ := h.parse(tb)
				if want := av.Compare(bv); got != want {
					fail("helper-differs-from-parsed-compare", fmt.Sprint(got), fmt.Sprint(want))
				}
				w.ClassN("helper-value-case", 1)
			}
			continue
		}
		got, err := h.latest()
		switch {
		case wantErr && err == nil:
			fail("helper-accepted-invalid-text", fmt.Sprintf("%+v", got), "an error")
		case !wantErr && err != nil:
			fail("helper-rejected-valid-texts", err.Error(), "a result")
		case wantErr:
			if got != (sem.Ver{}) {
				fail("helper-nonzero-with-error", fmt.Sprintf("%+v", got), "zero Ver")
			}
			w.ClassN("helper-error-case", 1)
		default:
			av, _ := h.parse(ta)
			bv, _ := h.parse(tb)
			if got != av && got != bv {
				fail("latest-not-an-argument", fmt.Sprintf("%+v", got), "one of the parsed arguments")
			} else if want := av.Latest(bv); got != want {
				fail("helper-differs-from-parsed-latest", fmt.Sprintf("%+v", got), fmt.Sprintf("%+v", want))
			}
			w.ClassN("helper-value-case", 1)
		}
	}
}

// c14Next checks the three Next* methods on one version.
func c14Next(w *rt.W, v sem.Ver) {
	type nx struct {
		name string
		call func() sem.Ver
		comp uint64
		want sem.Ver
	}
	ns := []nx{
		{"NextMajor", v.NextMajor, v.Major, sem.Ver{Major: v.Major + 1}},
		{"NextMinor", v.NextMinor, v.Minor, sem.Ver{Major: v.Major, Minor: v.Minor + 1}},
		{"NextPatch", v.NextPatch, v.Patch, sem.Ver{Major: v.Major, Minor: v.Minor, Patch: v.Patch + 1}},
	}
	for _, n := range ns {
		var got sem.Ver
		panicked, msg := rt.Call(func() { got = n.call() })
		w.Eval(1)
		fail := func(key, g, want string) {
			w.Fail(key, "next", verArgs(v, sem.Ver{}, n.name), g, want, n.name+": "+key)
		}
		if n.comp == ^uint64(0) {
			if !panicked {
				fail("next-no-panic-at-max", fmt.Sprintf("%+v", got), "panic (component is 2^64-1)")
			}
			w.ClassN("next-at-max-component", 1)
			continue
		}
		if panicked {
			fail("next-unexpected-panic", "panic: "+strings.SplitN(msg, "\n", 2)[0], fmt.Sprintf("%+v", n.want))
			continue
		}
		if got != n.want {
			fail("next-wrong-result", fmt.Sprintf("%+v", got), fmt.Sprintf("%+v", n.want))
		}
		if got.PreRelease != "" || got.Build != "" {
			fail("next-not-plain-release", fmt.Sprintf("%+v", got), "empty pre-release and build")
		}
		if x := got.Compare(v); x != 1 {
			fail("next-not-strictly-above", fmt.Sprint("cmp(next, v) = ", x), "1")
		}
		if x := v.Compare(got); x != -1 {
			fail("next-not-strictly-above", fmt.Sprint("cmp(v, next) = ", x), "-1")
		}
		w.ClassN("next-ok", 1)
	}
}

func runC14(c *rt.Ctx) {
	L := c.Pick(3, 4)
	c.SetRule(fmt.Sprintf("all ordered pairs of the C06 universe U_%d (valid pre-releases over {0,1,2,9,a,B,-,.}, including the mixed identifiers C06 excludes) plus explicit mixed identifiers (a01, a1, a0x, rc9, rc10, ...) through the order laws (range, reflexivity, antisymmetry, build independence over 16 build combinations, equal core+pre => 0, Latest in {a,b} and never lower); ", L) +
		"seeded valid versions with full-range uint64 components; Next* on every version of the universe and at 2^64-1 / 2^64-2 / 0; the six string helpers on valid x valid, valid x invalid, invalid x valid texts per helper's notion of validity. " +
		"distinct_nontrivial counts distinct ordered pairs with different byte lengths or inside the C06-excluded zone (enumerated once each; seeded pairs by hash)")
	c.Assume("laws need no external order; helper validity comes from harness/ref/semver.go")
	{
		sc := rt.ReplayCtx("C14")
		sc.Serial("selftest", func(w *rt.W) {
			w.Fail("antisymmetry", "laws", nil, "cmp(a,b)=-1 cmp(b,a)=-1", "opposite signs", "synthetic")
		})
		c.SelfTest("monitor-records-a-mismatch", sc.Violations() == 1)
		c.SelfTest("helper-validity-oracle", textValidFor("v1.2.3", false, true) && !textValidFor("v1.2.3", true, false) && textValidFor("1.2.3-a", true, true) && !textValidFor("1.2", true, true) && !textValidFor("18446744073709551616.0.0", true, true))
	}

	u := preUniverse("0129aB-.", L)
	u = append(u, "a01", "a1", "a0x", "rc10", "rc9", "rc09", "rc02", "a10", "a02", "a100", "a020", "alpha.a01", "alpha.a1", "x.rc10.1", "x.rc9.2", "a00", "a0", "a", "1a", "01a", "0a1", "a-1", "a-01")
	c.Extra("universe_size", len(u))
	c.Parallel("laws", 0, func(w *rt.W) {
		for i := w.Shard; i < len(u); i += w.NShards {
			for j := range u {
				a := sem.Ver{Major: 1, Minor: 2, Patch: 3, PreRelease: u[i], Build: c14Builds[(i+j)%4]}
				b := sem.Ver{Major: 1, Minor: 2, Patch: 3, PreRelease: u[j], Build: c14Builds[(i*5+j)%4]}
				c14Pair(w, a, b)
				if len(u[i]) != len(u[j]) || ref.ExcludedPair(u[i], u[j]) {
					w.NT(1)
				}
			}
			if w.Class("sample-law-pair") {
				w.Sample("law-pair", map[string]any{"a": "1.2.3-" + u[i], "b": "1.2.3-" + u[(i*31+7)%len(u)], "cmp": sem.Ver{Major: 1, Minor: 2, Patch: 3, PreRelease: u[i]}.Compare(sem.Ver{Major: 1, Minor: 2, Patch: 3, PreRelease: u[(i*31+7)%len(u)]})})
			}
		}
	})
	c.Exhaustive(fmt.Sprintf("all ordered pairs of U_%d plus the explicit mixed identifiers (%d strings)", L, len(u)))
	c.Require("pair-in-C06-excluded-zone", 1000)
	c.Require("latest-judged-by-reference-order", 100000)
	c.Require("pair-different-byte-lengths", 10000)

	// identifier lists built from identifiers of different lengths that the comparator may rank equal
	// (rc / rc0 / rc00, a1 / a01) followed by tails of different lengths: every way of walking two lists
	// in step has to agree under the swap of the arguments
	{
		idents := []string{"rc", "rc0", "rc00", "a1", "a01", "x", "1", "11", "b", "bb", "0"}
		if !c.Quick() {
			idents = append(idents, "a001", "x0", "10", "-")
		}
		var lists []string
		for _, i1 := range idents {
			lists = append(lists, i1)
			for _, i2 := range idents {
				lists = append(lists, i1+"."+i2)
				for _, i3 := range idents {
					lists = append(lists, i1+"."+i2+"."+i3)
				}
			}
		}
		c.Extra("identifier_list_universe", len(lists))
		c.Parallel("identifier-lists", 0, func(w *rt.W) {
			for i := w.Shard; i < len(lists); i += w.NShards {
				for j := range lists {
					a := sem.Ver{Major: 1, PreRelease: lists[i]}
					b := sem.Ver{Major: 1, PreRelease: lists[j]}
					c14Pair(w, a, b)
					if len(lists[i]) == len(lists[j]) && lists[i] != lists[j] {
						w.ClassN("identifier-lists-same-byte-length-different-shape", 1)
						w.NT(1)
					}
				}
			}
		})
		c.Exhaustive(fmt.Sprintf("all ordered pairs of the %d identifier lists of 1..3 identifiers over %v", len(lists), idents))
		c.Require("identifier-lists-same-byte-length-different-shape", 100000)
	}

	// pre-release strings sharing memory (prefix and suffix slices of one string)
	c.Parallel("shared-backing-strings", 0, func(w *rt.W) {
		for i := w.Shard; i < len(u); i += w.NShards {
			s := u[i]
			for cut := 1; cut < len(s); cut++ {
				for _, part := range []string{s[:cut], s[cut:]} {
					if ref.ValidPre(part) {
						c14Pair(w, sem.Ver{Major: 1, PreRelease: part, Build: s[:cut]}, sem.Ver{Major: 1, PreRelease: s, Build: s[:cut]})
						w.ClassN("pre-releases-sharing-memory", 1)
					}
				}
			}
		}
	})
	c.Require("pre-releases-sharing-memory", 1000)

	nRand := c.Pick(400000, 20000000)
	c.Parallel("random-versions", 0, func(w *rt.W) {
		comp := func() uint64 {
			switch w.Rng.Intn(6) {
			case 0:
				return uint64(w.Rng.Intn(3))
			case 1:
				return ^uint64(0) - uint64(w.Rng.Intn(3))
			case 2:
				return 1<<63 + uint64(w.Rng.Intn(5)) - 2
			case 3:
				return w.Rng.U64() >> uint(w.Rng.Intn(64))
			}
			return w.Rng.U64()
		}
		for k := 0; k < nRand/w.NShards; k++ {
			pa, pb := genPrePair(w.Rng)
			a := sem.Ver{Major: comp(), Minor: comp(), Patch: comp(), PreRelease: pa}
			b := sem.Ver{Major: comp(), Minor: comp(), Patch: comp(), PreRelease: pb}
			switch k % 4 {
			case 0:
				b.Major = a.Major
			case 1:
				b.Major, b.Minor = a.Major, a.Minor
			case 2:
				b.Major, b.Minor, b.Patch = a.Major, a.Minor, a.Patch
			}
			c14Pair(w, a, b)
			w.ClassN("random-version-pair", 1)
			if a.Major != b.Major && (a.Major^b.Major)>>63 == 1 {
				w.ClassN("random-core-differs-by-2^63-or-more", 1)
			}
			w.NTHash(rt.Hash64(a.String(), b.String()))
			if k%16 == 0 {
				c14Next(w, a)
			}
		}
	})
	c.Require("random-version-pair", 100000)
	c.Require("random-core-differs-by-2^63-or-more", 1000)

	c.Parallel("next", 0, func(w *rt.W) {
		edge := []uint64{0, 1, ^uint64(0), ^uint64(0) - 1, 1 << 63, 1<<63 - 1}
		for i := w.Shard; i < len(u); i += w.NShards {
			for _, x := range edge {
				for pos := 0; pos < 3; pos++ {
					v := sem.Ver{Major: 4, Minor: 5, Patch: 6, PreRelease: u[i], Build: c14Builds[i%4]}
					switch pos {
					case 0:
						v.Major = x
					case 1:
						v.Minor = x
					default:
						v.Patch = x
					}
					c14Next(w, v)
				}
			}
		}
	})
	c.Require("next-at-max-component", 100)
	c.Require("next-ok", 1000)

	// string helpers
	nTexts := c.Pick(260, 900)
	c.Parallel("helpers", 0, func(w *rt.W) {
		r := rt.NewRand(c.Seed, "C14/texts", 0)
		var pool []string
		for len(pool) < nTexts {
			s := genVersionText(r)
			if len(s) < 200 {
				pool = append(pool, s)
			}
		}
		pool = append(pool, "", "v", "1.0", "v1.0", "1.0.0", "v1.0.0", "1.0.0-rc10", "1.0.0-rc9", "v1.0.0-a01", "v1.0.0-a1", "1.0.0+b", "1.0.0-a+b", "01.0.0", "1.0.0-01", "1.0.0 ", "V1.0.0", "vv1.0.0",
			"18446744073709551615.0.0", "18446744073709551616.0.0", "0.18446744073709551615.0", "v0.0.18446744073709551616",
			"30000000000000000000.0.0", "0.50000000000000000000.0", "0.0.27670116110564327424", "v99999999999999999999.1.1", "1.184467440737095516150.1", "1.1.36893488147419103232", "20000000000000000000.0.0-rc.1", "0.0.18446744073709551620")
		for d := 0; d < 12; d++ { // 20- and 21-digit numbers with every leading digit
			pool = append(pool, fmt.Sprintf("%d%s.0.0", 1+d%9, strings.Repeat("0", 19+d/9)), fmt.Sprintf("0.0.%d%s", 2+d%8, r.StringFrom("0123456789", 19)))
		}
		_ = 0
		for i := w.Shard; i < len(pool); i += w.NShards {
			for j := range pool {
				c14Helpers(w, pool[i], pool[j])
				if j%7 == 0 {
					c14Helpers(w, "v"+pool[i], "v"+pool[j])
				}
			}
		}
	})
	// configuration: a caller-supplied ComparePreRelease (natural order of digit runs). Whatever order is
	// configured, every helper must return what comparing the parsed values returns.
	{
		old := sem.ComparePreRelease
		sem.ComparePreRelease = func(a, b string) int {
			switch {
			case a == b:
				return 0
			case a == "":
				return 1
			case b == "":
				return -1
			case len(a) != len(b): // deliberately different from the default order: shorter text is lower
				if len(a) < len(b) {
					return -1
				}
				return 1
			case a < b:
				return 1 // and reversed within one length
			}
			return -1
		}
		c14StatedOrder = false
		c.Parallel("custom-compare-prerelease", 0, func(w *rt.W) {
			pool := []string{"1.0.0-rc9", "1.0.0-rc10", "1.0.0-rc.9", "1.0.0-rc.10", "1.0.0", "1.0.0-a", "1.0.0-b", "1.0.0-ab", "v1.0.0-rc9", "v1.0.0-rc10", "v1.0.0-b", "v1.0.0-a", "1.0.1-a", "1.0.0-a+x", "v1.0.0"}
			for i := w.Shard; i < len(pool); i += w.NShards {
				for _, b := range pool {
					c14Helpers(w, pool[i], b)
					w.ClassN("helpers-under-custom-compare-prerelease", 1)
					// the laws under the replacement order: Latest must follow the order Compare follows
					va, ea := sem.Parse(pool[i])
					vb, eb := sem.Parse(b)
					if ea == nil && eb == nil {
						c14Pair(w, va, vb)
						w.ClassN("laws-under-custom-compare-prerelease", 1)
					}
				}
			}
		})
		sem.ComparePreRelease = old
		c14StatedOrder = true
		c.Require("laws-under-custom-compare-prerelease", 200)
		c.Require("helpers-under-custom-compare-prerelease", 200)
	}
	c.Require("helper-error-case", 10000)
	c.Require("helper-value-case", 10000)
}
