// solo_roman links package roman and nothing else of the library (plus the independent reference models): tables
// filled in by other packages' init functions, shared helpers registered elsewhere, are absent here. It prints one
// line per disagreement with the reference and a final DONE line.
package main

import (
	"fmt"

	"go.lstv.dev/util/roman"

	"verif/ref"
)

func main() {
	events, fails := 0, 0
	fail := func(key, detail string) {
		fails++
		if fails <= 20 {
			fmt.Printf("FAIL key=%s %s\n", key, detail)
		}
	}
	flagSets := []struct {
		f  roman.Format
		rf ref.RomanFlags
	}{
		{0, ref.RomanFlags{}},
		{roman.FormatLowerCase, ref.RomanFlags{Lower: true}},
		{roman.FormatLong, ref.RomanFlags{Long4: true, Long40: true, Long400: true, Long9: true, Long90: true, Long900: true}},
		{roman.FormatLong | roman.FormatLowerCase, ref.RomanFlags{Long4: true, Long40: true, Long400: true, Long9: true, Long90: true, Long900: true, Lower: true}},
	}
	ns := []uint64{}
	for n := uint64(0); n < 5000; n++ {
		ns = append(ns, n)
	}
	ns = append(ns, 12494, 99999, 123456)
	for _, n := range ns {
		for _, fs := range flagSets {
			want := ref.RomanFormat(n, fs.rf)
			out, err := roman.DefaultFormatter(nil, roman.Number(n), fs.f)
			events++
			if err != nil || string(out) != want {
				fail("format", fmt.Sprintf("n=%d flags=%d got=%q err=%v want=%q", n, fs.f, out, err, want))
			}
			if len(want) > roman.MaxInputLength && roman.MaxInputLength != 0 {
				continue
			}
			g, err := roman.DefaultParser(want, 0)
			g2, err2 := roman.DefaultParser([]byte(want), 0)
			events += 2
			if err != nil || err2 != nil || uint64(g) != n || uint64(g2) != n {
				fail("parse-back", fmt.Sprintf("text=%q got=%d,%d err=%v,%v want=%d", want, g, g2, err, err2, n))
			}
			if verr := roman.Valid(want, 0); verr != nil {
				fail("valid", fmt.Sprintf("text=%q err=%v", want, verr))
			}
			var rn roman.Number
			if uerr := rn.UnmarshalText([]byte(want)); uerr != nil || uint64(rn) != n {
				fail("unmarshaltext", fmt.Sprintf("text=%q got=%d err=%v", want, rn, uerr))
			}
		}
	}
	// every string over the seven letters in both cases up to length 4, and mixed case for length <= 3
	letters := "IVXLCDMivxlcdm"
	var rec func(prefix string, depth int)
	rec = func(prefix string, depth int) {
		v, ok, amb := ref.RomanEval(prefix)
		if !amb {
			g, err := roman.DefaultParser(prefix, 0)
			events++
			if ok != (err == nil) || (ok && uint64(g) != v) || (!ok && g != 0) {
				fail("recogniser", fmt.Sprintf("text=%q got=%d err=%v reference: member=%v value=%d", prefix, g, err, ok, v))
			}
			if (roman.Valid(prefix, 0) == nil) != (err == nil) {
				fail("valid-vs-parser", fmt.Sprintf("text=%q", prefix))
			}
		}
		if depth == 0 {
			return
		}
		for i := 0; i < len(letters); i++ {
			rec(prefix+string(letters[i]), depth-1)
		}
	}
	rec("", 4)
	fmt.Printf("DONE events=%d fails=%d\n", events, fails)
}
