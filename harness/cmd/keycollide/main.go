// Command keycollide searches, offline, for lower-case object keys that collide with
// "value" or "unit" under the cheap 32-bit hash functions of cmd/mon/collide.go. A parser
// that classifies keys by such a hash instead of by their text misreads exactly these
// keys, and no random key ever is one (1 in 2^32). The result is pasted into
// cmd/mon/collide_keys.go; the monitor re-verifies every listed key against the named
// hash function at start-up, so the table needs no trust.
//
//	go run ./cmd/keycollide > /tmp/keys.txt     (about two minutes on 16 cores)
package main

import (
	"fmt"
	"hash/crc32"
	"runtime"
	"sort"
	"sync"
)

var ieee = crc32.MakeTable(crc32.IEEE)
var cast = crc32.MakeTable(crc32.Castagnoli)

const nHash = 11

var names = [nHash]string{"fnv1a-32", "fnv1-32", "crc32-ieee", "crc32-castagnoli", "adler32", "java-31", "djb2-33", "byte-sum", "byte-xor-rotate", "fnv1a-64-folded", "fnv1a-64-low"}

func all(s []byte) (h [nHash]uint32) {
	a, b := uint32(2166136261), uint32(2166136261)
	ci, cc := ^uint32(0), ^uint32(0)
	s1, s2 := uint32(1), uint32(0)
	var j, sum, xr uint32
	d := uint32(5381)
	f64 := uint64(14695981039346656037)
	for _, c := range s {
		a = (a ^ uint32(c)) * 16777619
		b = (b * 16777619) ^ uint32(c)
		ci = ieee[byte(ci)^c] ^ (ci >> 8)
		cc = cast[byte(cc)^c] ^ (cc >> 8)
		s1 = (s1 + uint32(c)) % 65521
		s2 = (s2 + s1) % 65521
		j = j*31 + uint32(c)
		d = d*33 + uint32(c)
		sum += uint32(c)
		xr = (xr<<5 | xr>>27) ^ uint32(c)
		f64 = (f64 ^ uint64(c)) * 1099511628211
	}
	return [nHash]uint32{a, b, ^ci, ^cc, s2<<16 | s1, j, d, sum, xr, uint32(f64) ^ uint32(f64>>32), uint32(f64)}
}

func main() {
	targets := []string{"value", "unit"}
	var th [][nHash]uint32
	for _, t := range targets {
		th = append(th, all([]byte(t)))
	}
	type hit struct{ hash, target, key string }
	var mu sync.Mutex
	var hits []hit
	var wg sync.WaitGroup
	jobs := make(chan [2]byte, 26*26)
	for a := byte('a'); a <= 'z'; a++ {
		for b := byte('a'); b <= 'z'; b++ {
			jobs <- [2]byte{a, b}
		}
	}
	close(jobs)
	for w := 0; w < runtime.GOMAXPROCS(0); w++ {
		wg.Add(1)
		go func() {
			defer wg.Done()
			for j := range jobs {
				for L := 3; L <= 7; L++ {
					s := make([]byte, L)
					s[0], s[1] = j[0], j[1]
					for i := 2; i < L; i++ {
						s[i] = 'a'
					}
					for {
						h := all(s)
						for ti := range targets {
							for k := 0; k < nHash; k++ {
								if h[k] == th[ti][k] && string(s) != targets[ti] {
									mu.Lock()
									hits = append(hits, hit{names[k], targets[ti], string(s)})
									mu.Unlock()
								}
							}
						}
						i := L - 1
						for i >= 2 {
							if s[i] < 'z' {
								s[i]++
								break
							}
							s[i] = 'a'
							i--
						}
						if i < 2 {
							break
						}
					}
				}
			}
		}()
	}
	wg.Wait()
	sort.Slice(hits, func(i, j int) bool {
		if hits[i].hash != hits[j].hash {
			return hits[i].hash < hits[j].hash
		}
		if hits[i].target != hits[j].target {
			return hits[i].target < hits[j].target
		}
		if len(hits[i].key) != len(hits[j].key) {
			return len(hits[i].key) < len(hits[j].key)
		}
		return hits[i].key < hits[j].key
	})
	n := map[string]int{}
	for _, h := range hits {
		k := h.hash + "/" + h.target
		if n[k] >= 4 {
			continue
		}
		n[k]++
		fmt.Printf("\t{%q, %q, %q},\n", h.hash, h.target, h.key)
	}
}
