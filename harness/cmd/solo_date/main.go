// solo_date links package date and nothing else of the library; see solo_roman.
package main

import (
	"fmt"
	"time"

	"go.lstv.dev/util/date"

	"verif/ref"
)

func main() {
	events, fails := 0, 0
	fail := func(key, detail string) {
		fails++
		if fails <= 20 {
			fmt.Printf("FAIL key=%s %s\n", key, detail)
		}
	}
	years := []int64{0, 1, 4, 100, 400, 1582, 1600, 1899, 1900, 1999, 2000, 2001, 2024, 2100, 9999}
	for _, y := range years {
		for m := 1; m <= 12; m++ {
			for d := 1; d <= ref.DaysIn(y, m); d++ {
				dt := date.New(int(y), time.Month(m), d)
				for _, basic := range []bool{false, true} {
					want := ref.DateText(y, m, d, basic)
					f := date.Format(0)
					if basic {
						f = date.FormatBasic
					}
					out, err := date.DefaultFormatter(nil, dt, f)
					events++
					if err != nil || string(out) != want {
						fail("format", fmt.Sprintf("date=%d-%d-%d basic=%v got=%q err=%v want=%q", y, m, d, basic, out, err, want))
					}
					if y < 0 || (date.MaxInputLength != 0 && len(want) > date.MaxInputLength) {
						continue
					}
					g, perr := date.DefaultParser(want, 0)
					g2, perr2 := date.DefaultParser([]byte(want), 0)
					events += 2
					if perr != nil || perr2 != nil || !g.Equal(dt) || !g2.Equal(dt) {
						fail("parse-back", fmt.Sprintf("text=%q got=%v,%v err=%v,%v", want, g, g2, perr, perr2))
					}
				}
				b, err := dt.MarshalBinary()
				var back date.Date
				uerr := back.UnmarshalBinary(b)
				events++
				if err != nil || uerr != nil || !back.Equal(dt) || len(b) != 7 {
					fail("binary", fmt.Sprintf("date=%d-%d-%d bytes=%x err=%v,%v back=%v", y, m, d, b, err, uerr, back))
				}
				if int64(dt.Year()) != y || int(dt.Month()) != m || dt.Day() != d {
					fail("components", fmt.Sprintf("date=%d-%d-%d got=%d-%d-%d", y, m, d, dt.Year(), dt.Month(), dt.Day()))
				}
			}
		}
	}
	for _, bad := range []string{"2021-02-30", "2021-13-01", "2021-00-10", "20210230", "2021-1-01", "x", "", "2021-02-28x", "1900-02-29", "2100-02-29"} {
		g, err := date.DefaultParser(bad, 0)
		events++
		if err == nil || !g.IsZero() {
			fail("invalid-accepted", fmt.Sprintf("text=%q got=%v", bad, g))
		}
	}
	if _, err := date.DefaultParser("20200101", date.RuleDisableBasic); err == nil {
		fail("basic-accepted-although-disabled", "20200101")
	}
	fmt.Printf("DONE events=%d fails=%d\n", events, fails)
}
