package main

import (
	"fmt"
	"reflect"
	"sort"

	"go.lstv.dev/util/date"
	"go.lstv.dev/util/roman"
	"go.lstv.dev/util/sem"
	"go.lstv.dev/util/size"
	"go.lstv.dev/util/uu"
)

func main() {
	vals := []any{date.Date{}, &date.Date{}, date.Format(0), date.Rule(0), date.Month(1), roman.Number(0), new(roman.Number), roman.Format(0), roman.Rule(0), sem.Ver{}, &sem.Ver{}, sem.Format(0), sem.Rule(0), size.Size(0), new(size.Size), size.Format(0), size.Rule(0), uu.ID{}, &uu.ID{}, uu.Format(0), uu.Rule(0)}
	_, e1 := date.DefaultParser("x", 0)
	_, e2 := roman.DefaultParser("x!", 0)
	_, e3 := sem.Parse("x")
	_, e4 := size.DefaultParser("1xb", 0)
	_, e5 := uu.DefaultParser("x", 0)
	_, e6 := size.New(5, "kb")
	_, e7 := uu.DefaultParser("f81d4fae-7dec-11d0-a765-00a0c91e6bfg", 0)
	for _, e := range []error{e1, e2, e3, e4, e5, e6, e7} {
		for x := e; x != nil; {
			vals = append(vals, x)
			u, ok := x.(interface{ Unwrap() error })
			if !ok {
				break
			}
			x = u.Unwrap()
		}
	}
	seen := map[string]bool{}
	var out []string
	for _, v := range vals {
		t := reflect.TypeOf(v)
		for i := 0; i < t.NumMethod(); i++ {
			k := t.String() + "." + t.Method(i).Name
			if !seen[k] {
				seen[k] = true
				out = append(out, k)
			}
		}
	}
	sort.Strings(out)
	for _, k := range out {
		fmt.Printf("\t%q: true,\n", k)
	}
}
