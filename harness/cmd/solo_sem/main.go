// solo_sem links package sem and nothing else of the library; see solo_roman.
package main

import (
	"fmt"

	"go.lstv.dev/util/sem"

	"verif/ref"
)

func main() {
	events, fails := 0, 0
	fail := func(key, detail string) {
		fails++
		if fails <= 20 {
			fmt.Printf("FAIL key=%s %s\n", key, detail)
		}
	}
	pres := []string{"", "alpha", "alpha.1", "alpha.beta", "beta", "beta.2", "beta.11", "rc.1", "0", "1", "10", "a-b", "0a", "x.7.z.92", "A", "Z9", "-"}
	builds := []string{"", "b7", "001", "exp.sha.5114f85", "x-y"}
	cores := [][3]uint64{{0, 0, 0}, {0, 0, 1}, {1, 0, 0}, {1, 2, 3}, {1, 10, 0}, {2, 0, 0}, {10, 0, 0}, {18446744073709551615, 0, 1}}
	var texts []string
	var vers []sem.Ver
	for _, c := range cores {
		for _, p := range pres {
			for _, b := range builds {
				t := fmt.Sprintf("%d.%d.%d", c[0], c[1], c[2])
				if p != "" {
					t += "-" + p
				}
				if b != "" {
					t += "+" + b
				}
				v, err := sem.Parse(t)
				vt, errT := sem.Parse("v" + t)
				vb, errB := sem.ParseVersion([]byte(t))
				events += 3
				if err != nil || errT != nil || errB != nil || v != vt || v != vb || v.Major != c[0] || v.Minor != c[1] || v.Patch != c[2] || v.PreRelease != p || v.Build != b {
					fail("parse", fmt.Sprintf("text=%q got=%+v err=%v,%v,%v", t, v, err, errT, errB))
					continue
				}
				if v.String() != t || v.StringTag() != "v"+t {
					fail("format", fmt.Sprintf("text=%q String=%q StringTag=%q", t, v.String(), v.StringTag()))
				}
				if verr := v.Valid(); verr != nil {
					fail("valid", fmt.Sprintf("text=%q err=%v", t, verr))
				}
				if _, e := sem.ParseTag(t); e == nil {
					fail("tag-form-accepted-without-v", t)
				}
				if _, e := sem.ParseVersion("v" + t); e == nil {
					fail("version-form-accepted-with-v", t)
				}
				texts = append(texts, t)
				vers = append(vers, v)
			}
		}
	}
	for i := range vers {
		for j := i % 7; j < len(vers); j += 7 {
			ra, _ := ref.RecogniseSemVer(texts[i])
			rb, _ := ref.RecogniseSemVer(texts[j])
			if ref.ExcludedPair(ra.Pre, rb.Pre) {
				continue
			}
			want := ref.CompareSemVer(ra, rb)
			got := vers[i].Compare(vers[j])
			gs, err := sem.Compare(texts[i], "v"+texts[j])
			events += 2
			if got != want || err != nil || gs != want {
				fail("compare", fmt.Sprintf("a=%q b=%q method=%d helper=%d err=%v reference=%d", texts[i], texts[j], got, gs, err, want))
			}
		}
	}
	for _, bad := range []string{"", "1", "1.2", "1.2.3.4", "01.2.3", "1.02.3", "1.2.3-", "1.2.3+", "1.2.3-01", "1.2.3-a..b", "v", "vv1.2.3", "1.2.3 ", "18446744073709551616.0.0", "1.2.3-é"} {
		v, err := sem.Parse(bad)
		events++
		if err == nil || !v.IsZero() {
			fail("invalid-accepted", fmt.Sprintf("text=%q got=%+v", bad, v))
		}
	}
	fmt.Printf("DONE events=%d fails=%d\n", events, fails)
}
