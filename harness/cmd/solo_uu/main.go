// solo_uu links package uu and nothing else of the library; see solo_roman.
package main

import (
	"fmt"
	"strings"

	"go.lstv.dev/util/uu"

	"verif/ref"
)

func main() {
	events, fails := 0, 0
	fail := func(key, detail string) {
		fails++
		if fails <= 20 {
			fmt.Printf("FAIL key=%s %s\n", key, detail)
		}
	}
	x := uint64(0x9e3779b97f4a7c15)
	next := func() uint64 { x ^= x << 13; x ^= x >> 7; x ^= x << 17; return x }
	ids := []uu.ID{{}, {Higher: ^uint64(0), Lower: ^uint64(0)}, {Higher: 0xf81d4fae7dec11d0, Lower: 0xa76500a0c91e6bf6}, {Higher: 0xabcdefabcdefabcd, Lower: 0xdcbafedcbafedcba}}
	for i := 0; i < 4000; i++ {
		ids = append(ids, uu.ID{Higher: next(), Lower: next()})
	}
	for _, id := range ids {
		want := ref.UUIDText(id.Higher, id.Lower)
		out, err := uu.DefaultFormatter(nil, id, 0)
		urn, err2 := uu.DefaultFormatter(nil, id, uu.FormatURN)
		events += 2
		if err != nil || err2 != nil || string(out) != want || string(urn) != "urn:uuid:"+want || id.String() != want || id.URN() != "urn:uuid:"+want {
			fail("format", fmt.Sprintf("id=%016x%016x got=%q,%q want=%q", id.Higher, id.Lower, out, urn, want))
		}
		for _, text := range []string{want, strings.ToUpper(want), "urn:uuid:" + want, "urn:uuid:" + strings.ToUpper(want)} {
			g, perr := uu.DefaultParser(text, 0)
			g2, perr2 := uu.DefaultParser([]byte(text), 0)
			events += 2
			if perr != nil || perr2 != nil || g != id || g2 != id {
				fail("parse-back", fmt.Sprintf("text=%q got=%v,%v err=%v,%v", text, g, g2, perr, perr2))
			}
		}
		if _, e := uu.DefaultParser(strings.ToUpper(want), uu.RuleDisableUpperCaseDigits); e == nil && strings.ToUpper(want) != want {
			fail("upper-case-accepted-although-disabled", want)
		}
		if _, e := uu.DefaultParser("urn:uuid:"+want, uu.RuleDisableURN); e == nil {
			fail("urn-accepted-although-disabled", want)
		}
		bad := []byte(want)
		bad[int(id.Lower%36)] = 'g'
		if g, e := uu.DefaultParser(bad, 0); e == nil || g != (uu.ID{}) {
			fail("invalid-accepted", string(bad))
		}
	}
	seen := map[uu.ID]bool{}
	for i := 0; i < 200000; i++ {
		id := uu.RandomID()
		events++
		if id.Version() != 4 || id.Variant() != 1 || id.Higher>>12&0xf != 4 || id.Lower>>62 != 2 {
			fail("random-id-bits", id.String())
		}
		if seen[id] {
			fail("random-id-duplicate", id.String())
		}
		seen[id] = true
	}
	fmt.Printf("DONE events=%d fails=%d\n", events, fails)
}
