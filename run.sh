#!/bin/bash
# Single entry point of the verification machinery.
#   ./run.sh Cxx quick|thorough     run one property's workload under its monitor
#   ./run.sh --replay <file>        re-execute one recorded refuting event
#   ./run.sh --build                build only (MANIFEST.setup_cmd)
# Exit: 0 held on everything observed; 1 violation (prints VIOLATION property=.. replay=..);
#       2 inconclusive (build failure, watchdog, monitor observed too little).
# The monitor binary is rebuilt from /repo's current working tree on every call
# (go's build cache is content addressed, so any edit under /repo is picked up).
# VERIF_REPO=<dir> builds against another checkout (used only for calibration).
set -u
ROOT="$(cd "$(dirname "$0")" && pwd)"
export VERIF_ROOT="$ROOT"
export GOFLAGS=-mod=mod GOPROXY=off GOSUMDB=off GOTOOLCHAIN=local
export GOMAXPROCS="${GOMAXPROCS:-$(nproc)}"
REPO="${VERIF_REPO:-/repo}"
BIN="$ROOT/bin"
mkdir -p "$BIN" "$ROOT/evidence" "$ROOT/replays"

build() { # $1 = output name, rest = extra go build flags
  local out="$1"; shift
  local modflag=()
  local tmpmod=""
  if [ "$REPO" != "/repo" ]; then
    tmpmod="$(mktemp -d /tmp/verifmod.XXXXXX)"
    sed "s#=> /repo#=> $REPO#" "$ROOT/harness/go.mod" > "$tmpmod/go.mod"
    cp "$ROOT/harness/go.sum" "$tmpmod/go.sum"
    modflag=(-modfile="$tmpmod/go.mod")
  fi
  (cd "$ROOT/harness" && go build "${modflag[@]}" "$@" -o "$out" ./cmd/mon) 2>&1
  local rc=$?
  [ -n "$tmpmod" ] && rm -rf "$tmpmod"
  return $rc
}

suffix=""
[ "$REPO" != "/repo" ] && suffix="-$(echo "$REPO" | md5sum | cut -c1-8)"

case "${1:-}" in
  --build)
    build "$BIN/mon" || exit 2
    build "$BIN/mon-race" -race || exit 2
    exit 0 ;;
  --replay)
    build "$BIN/mon$suffix" || { echo "INCONCLUSIVE build failed"; exit 2; }
    exec "$BIN/mon$suffix" --replay "$2" ;;
esac

PROP="${1:?usage: run.sh Cxx quick|thorough}"
TIER="${2:-quick}"
export VERIF_TIER="$TIER"
export VERIF_SEED="${VERIF_SEED:-1}"

MON="$BIN/mon$suffix"
FLAGS=()
if [ "$PROP" = "C19" ]; then MON="$BIN/mon-race$suffix"; FLAGS=(-race); fi
if ! build "$MON" "${FLAGS[@]}"; then
  echo "INCONCLUSIVE property=$PROP reason=harness build failed against $REPO"
  exit 2
fi
export VERIF_MON="$MON"

# generous wall-clock watchdog; its firing is inconclusive, never a violation
WD=1800; [ "$TIER" = "thorough" ] && WD=10800
timeout -s QUIT -k 30 "$WD" "$MON" "$PROP"
rc=$?
if [ $rc -eq 124 ] || [ $rc -eq 137 ] || [ $rc -eq 131 ]; then
  echo "INCONCLUSIVE property=$PROP reason=watchdog fired after ${WD}s (rc=$rc)"
  exit 2
fi
if [ $rc -ne 0 ] && [ $rc -ne 1 ] && [ $rc -ne 2 ]; then
  echo "INCONCLUSIVE property=$PROP reason=monitor process died rc=$rc"
  exit 2
fi
[ -n "$suffix" ] && rm -f "$MON"
exit $rc
