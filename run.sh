#!/bin/bash
# Single entry point of the verification machinery.
#   ./run.sh Cxx quick|thorough     run one property's workload under its monitor
#   ./run.sh --replay <file>        re-execute one recorded refuting event
#   ./run.sh --build                build only (MANIFEST.setup_cmd)
# Exit: 0 held on everything observed; 1 violation (prints VIOLATION property=.. replay=..);
#       2 inconclusive (build failure, watchdog, monitor observed too little).
# The monitor binary is rebuilt from /repo's current working tree on every call
# (go's build cache is content addressed, so any edit under /repo is picked up).
# VERIF_REPO=<dir> builds against another checkout and VERIF_OUT=<dir> redirects
# evidence/replays (both used only for calibration against scratch copies).
set -u
ROOT="$(cd "$(dirname "$0")" && pwd)"
export VERIF_ROOT="$ROOT"
export GOFLAGS=-mod=mod GOPROXY=off GOSUMDB=off GOTOOLCHAIN=local
export GOMAXPROCS="${GOMAXPROCS:-$(nproc)}"
REPO="${VERIF_REPO:-/repo}"
BIN="$ROOT/bin"
OUTDIR="${VERIF_OUT:-$ROOT}"
mkdir -p "$BIN" "$OUTDIR/evidence" "$OUTDIR/replays"

MODFLAG=()
TMPMOD=""
suffix=""
if [ "$REPO" != "/repo" ]; then
  TMPMOD="$(mktemp -d /tmp/verifmod.XXXXXX)"
  sed "s#=> /repo#=> $REPO#" "$ROOT/harness/go.mod" > "$TMPMOD/go.mod"
  cp "$ROOT/harness/go.sum" "$TMPMOD/go.sum"
  MODFLAG=(-modfile="$TMPMOD/go.mod")
  suffix="-$(echo "$REPO" | md5sum | cut -c1-8)"
fi
cleanup() {
  [ -n "$TMPMOD" ] && rm -rf "$TMPMOD"
  if [ -n "$suffix" ]; then rm -f "$BIN/mon$suffix" "$BIN/mon-race$suffix" "$BIN/mon-cover$suffix" "$BIN"/solo-*"$suffix"; fi
}
trap cleanup EXIT

# What the code under test prints itself (a trace switched on by a tag or a variable) must not fill the disk or
# slow the run through a pipe: output goes to a file opened for appending, and a side loop keeps the first 16 MB
# in <file>.head and empties the file whenever it passes 64 MB (the verdict lines at the end survive).
watch_size() { # $1 = file
  ( while sleep 2; do
      sz=$(stat -c %s "$1" 2>/dev/null || echo 0)
      if [ "$sz" -gt 64000000 ]; then
        [ -f "$1.head" ] || head -c 16000000 "$1" > "$1.head"
        : > "$1"
      fi
    done ) >/dev/null 2>&1 &
  WATCHER=$!
}
run_capped() { # $1 = log file, rest = command; stdout and stderr of the command are appended to the file
  local log="$1"; shift
  : > "$log"
  watch_size "$log"
  local w=$WATCHER
  "$@" >> "$log" 2>&1
  local r=$?
  kill "$w" 2>/dev/null; wait "$w" 2>/dev/null
  return $r
}

build() { # $1 = output name, rest = extra go build flags
  local out="$1"; shift
  (cd "$ROOT/harness" && go build "${MODFLAG[@]}" "$@" -o "$out" ./cmd/mon) 2>&1
}

case "${1:-}" in
  --build)
    build "$BIN/mon" || exit 2
    build "$BIN/mon-race" -race || exit 2
    for sp in date roman sem size uu; do (cd "$ROOT/harness" && go build "${MODFLAG[@]}" -o "$BIN/solo-$sp" ./cmd/solo_$sp) || exit 2; done
    exit 0 ;;
  --replay)
    build "$BIN/mon$suffix" || { echo "INCONCLUSIVE build failed"; exit 2; }
    "$BIN/mon$suffix" --replay "$2"; exit $? ;;
esac

PROP="${1:?usage: run.sh Cxx quick|thorough}"
TIER="${2:-quick}"
export VERIF_TIER="$TIER"
export VERIF_SEED="${VERIF_SEED:-1}"

MON="$BIN/mon$suffix"
FLAGS=()
if [ "$PROP" = "C19" ]; then
  MON="$BIN/mon-race$suffix"; FLAGS=(-race)
  # C19 also drives a long uninstrumented run (tens of millions of draws) through the plain build
  if build "$BIN/mon$suffix"; then export VERIF_MON_FAST="$BIN/mon$suffix"; fi
fi
if ! build "$MON" "${FLAGS[@]}"; then
  echo "INCONCLUSIVE property=$PROP reason=harness build failed against $REPO"
  exit 2
fi
export VERIF_MON="$MON"

# single-package programs (harness/cmd/solo_<pkg>): the property's package linked without its siblings
case "$PROP" in
  C01|C09) SOLO=date;; C02|C10) SOLO=roman;; C03|C06) SOLO=sem;; C04|C08|C13) SOLO=size;; C05) SOLO=uu;; *) SOLO="";;
esac
if [ -n "$SOLO" ]; then
  if (cd "$ROOT/harness" && go build "${MODFLAG[@]}" -o "$BIN/solo-$SOLO$suffix" ./cmd/solo_$SOLO) 2>&1; then
    export "VERIF_SOLO_$(echo "$SOLO" | tr a-z A-Z)=$BIN/solo-$SOLO$suffix"
  else
    echo "INCONCLUSIVE property=$PROP reason=single-package program of $SOLO does not build against $REPO"
    exit 2
  fi
fi

# generous wall-clock watchdog; its firing is inconclusive, never a violation
WD=1800; [ "$TIER" = "thorough" ] && WD=10800
T0=$(date +%s)
ERRF="$(mktemp /tmp/veriferr.XXXXXX)"
watch_size "$ERRF"
timeout -s QUIT -k 30 "$WD" "$MON" "$PROP" 2>> "$ERRF"
rc=$?
kill "$WATCHER" 2>/dev/null; wait "$WATCHER" 2>/dev/null
{ [ -f "$ERRF.head" ] && cat "$ERRF.head"; tail -c 4000000 "$ERRF"; } >&2
rm -f "$ERRF" "$ERRF.head"
if [ $rc -eq 124 ] || [ $rc -eq 137 ] || [ $rc -eq 131 ]; then
  ran=$(( $(date +%s) - T0 ))
  if [ $rc -eq 137 ] && [ $ran -lt $WD ]; then
    echo "INCONCLUSIVE property=$PROP reason=the monitor process was killed from outside after ${ran}s (SIGKILL: the kernel's out-of-memory killer on a machine shared with other work?)"
  else
    echo "INCONCLUSIVE property=$PROP reason=watchdog fired after ${WD}s (rc=$rc)"
  fi
  exit 2
fi
if [ $rc -ne 0 ] && [ $rc -ne 1 ] && [ $rc -ne 2 ]; then
  echo "INCONCLUSIVE property=$PROP reason=monitor process died rc=$rc"
  exit 2
fi

# ---- thorough tier of C18: coverage-guided native fuzzing on top of the seeded workload.
# One target per package (harness/cmd/mon/fuzz_test.go), iteration-counted (-fuzztime=Nx),
# same monitor as the seeded workload. A crasher becomes the replay file and a VIOLATION.
if [ "$PROP" = "C18" ] && [ "$TIER" = "thorough" ] && [ $rc -eq 0 ] && [ "${VERIF_NO_FUZZ:-0}" != "1" ]; then
  FUZZN="${VERIF_FUZZ_EXECS:-4000000}"
  FUZZLOG="$(mktemp /tmp/veriffuzz.XXXXXX)"
  fuzzjson="[]"
  for target in FuzzC18Date FuzzC18Roman FuzzC18Sem FuzzC18Size FuzzC18UU; do
    (cd "$ROOT/harness" && timeout -s KILL 3600 go test "${MODFLAG[@]}" -run='^$' -fuzz="^${target}\$" -fuzztime="${FUZZN}x" ./cmd/mon) > "$FUZZLOG" 2>&1
    frc=$?
    if [ $frc -ne 0 ] && ! grep -qE "C18 monitor:|panic:|fatal error:" "$FUZZLOG"; then
      # the fuzzing engine gave up on a worker ("hung or terminated unexpectedly") without any report from the monitor or
      # the runtime: on a machine busy with other work its workers are starved. The input it blames is kept aside and the
      # target is run once more; only a second failure of this kind makes the run inconclusive.
      crasher="$(ls -t "$ROOT/harness/cmd/mon/testdata/fuzz/$target/"* 2>/dev/null | head -1)"
      [ -n "$crasher" ] && rm -f "$crasher"
      echo "fuzz $target: engine failure without a report (starved worker?), running the target once more"
      (cd "$ROOT/harness" && timeout -s KILL 3600 go test "${MODFLAG[@]}" -run='^$' -fuzz="^${target}\$" -fuzztime="${FUZZN}x" -parallel=8 ./cmd/mon) > "$FUZZLOG" 2>&1
      frc=$?
    fi
    last="$(grep -E '^fuzz: elapsed' "$FUZZLOG" | tail -1)"
    execs="$(echo "$last" | sed -nE 's/.*execs: ([0-9]+).*/\1/p')"; interesting="$(echo "$last" | sed -nE 's/.*total: ([0-9]+).*/\1/p')"
    echo "fuzz $target: rc=$frc execs=${execs:-0} corpus=${interesting:-0}"
    fuzzjson="$(python3 -c 'import json,sys; a=json.loads(sys.argv[1]); a.append({"target":sys.argv[2],"execs":int(sys.argv[3] or 0),"interesting_inputs_in_corpus":int(sys.argv[4] or 0),"exit":int(sys.argv[5])}); print(json.dumps(a))' "$fuzzjson" "$target" "${execs:-0}" "${interesting:-0}" "$frc")"
    if [ $frc -ne 0 ]; then
      crasher="$(ls -t "$ROOT/harness/cmd/mon/testdata/fuzz/$target/"* 2>/dev/null | head -1)"
      replay="$OUTDIR/replays/C18-fuzz-$target-$(date +%s).txt"
      { echo "# go test -fuzz=$target found an input on which the C18 monitor reports a violation"; echo "# crasher file (go fuzz corpus format):"; [ -n "$crasher" ] && cat "$crasher"; echo "# go test output:"; tail -60 "$FUZZLOG"; } > "$replay"
      # a crasher left in testdata would fail every later run, the replay file keeps it
      [ -n "$crasher" ] && rm -f "$crasher"
      if grep -q "C18 monitor:" "$FUZZLOG" || grep -qE "panic:|fatal error:" "$FUZZLOG"; then
        grep -m3 -E "C18 monitor:|REPRODUCED|key=" "$FUZZLOG" | cut -c1-600
        echo "VIOLATION property=C18 replay=$replay"
        rc=1
      else
        echo "INCONCLUSIVE property=C18 reason=fuzz run of $target failed without a monitor report (see $replay)"
        rc=2
      fi
      break
    fi
  done
  python3 - "$OUTDIR/evidence/C18.json" "$fuzzjson" "$rc" <<'PYEOF'
import json,sys
p,fz,rc=sys.argv[1],json.loads(sys.argv[2]),int(sys.argv[3])
try:
    ev=json.load(open(p))
    ev["coverage"]["native_fuzzing"]={"how":"go test -fuzz, one coverage-guided target per package, iteration counted, 16 workers, same monitor as the seeded workload","targets":fz}
    ev["coverage"]["evaluations"]+=sum(t["execs"] for t in fz)
    if rc==1: ev["violations"]=ev.get("violations",0)+1
    json.dump(ev,open(p,"w"),indent=1)
except Exception as e:
    print("could not add fuzz statistics to evidence:",e)
PYEOF
  rm -f "$FUZZLOG"
fi

# ---- platform pass: the same monitor built for a 32-bit platform (GOARCH=386: int and uint are 32 bits
# wide) runs this property's quick-size workload; arithmetic done in int instead of a fixed-width type
# only shows there. Thorough tier: every property; quick tier: the three where it matters most
# (C08 numeric limits, C19 bit layout, C11 alignment of the 8-byte value). Its verdict counts: a violation there is a violation.
plat=0
if [ "$TIER" = "thorough" ] || [ "$PROP" = "C08" ] || [ "$PROP" = "C19" ] || [ "$PROP" = "C11" ]; then plat=1; fi
if [ $plat -eq 1 ] && [ $rc -eq 0 ] && [ "${VERIF_NO_PLATFORM:-0}" != "1" ]; then
  PDIR="$(mktemp -d /tmp/verif386.XXXXXX)"
  if (cd "$ROOT/harness" && GOARCH=386 go build "${MODFLAG[@]}" -o "$PDIR/mon386" ./cmd/mon) >/dev/null 2>&1; then
    VERIF_TIER=quick VERIF_OUT="$PDIR/out" VERIF_PLATFORM_PASS=386 VERIF_MON="$PDIR/mon386" VERIF_MON_FAST="$PDIR/mon386" \
      run_capped "$PDIR/log" timeout -s KILL 1800 "$PDIR/mon386" "$PROP"
    prc=$?
    pline="$(grep -aE '^(HELD|VIOLATION|INCONCLUSIVE)' "$PDIR/log" | head -1)"
    echo "platform 386: rc=$prc $pline" | cut -c1-220
    if [ $prc -eq 1 ]; then
      grep -aE '^witness' "$PDIR/log" | head -3 | cut -c1-600
      for f in "$PDIR"/out/replays/*.json; do [ -f "$f" ] && cp "$f" "$OUTDIR/replays/386-$(basename "$f")"; done
      first="$(ls "$OUTDIR"/replays/386-"$PROP"-*.json 2>/dev/null | head -1)"
      echo "VIOLATION property=$PROP replay=${first:-$OUTDIR/replays}"
      rc=1
    fi
    python3 - "$OUTDIR/evidence/$PROP.json" "$PDIR/out/evidence/$PROP.json" "$prc" <<'PYEOF'
import json,sys
p,q,prc=sys.argv[1],sys.argv[2],int(sys.argv[3])
try:
    ev=json.load(open(p))
    info={"how":"the same monitor built with GOARCH=386 (32-bit int/uint), quick-size workload, same seed","exit":prc}
    try:
        e2=json.load(open(q)); info["evaluations"]=e2["coverage"]["evaluations"]; info["violations"]=e2.get("violations",0)
    except Exception: pass
    ev["coverage"]["platform_386"]=info
    if prc==1: ev["violations"]=ev.get("violations",0)+info.get("violations",1)
    json.dump(ev,open(p,"w"),indent=1)
except Exception as e:
    print("could not add platform pass to evidence:",e)
PYEOF
  else
    echo "platform 386: build failed (pass skipped)"
    python3 - "$OUTDIR/evidence/$PROP.json" <<'PYEOF'
import json,sys
try:
    ev=json.load(open(sys.argv[1]))
    ev["coverage"]["platform_386"]={"skipped":"the GOARCH=386 build of the monitor against this tree failed; the pass did not run"}
    json.dump(ev,open(sys.argv[1],"w"),indent=1)
except Exception as e:
    print("could not record the skipped platform pass:",e)
PYEOF
  fi
  rm -rf "$PDIR"
fi

# ---- generic extra pass: the same monitor built differently runs this property's quick-size workload.
#   extra_pass <label> <evidence key> <how> <GOARCH or ""> <extra go build flags...>
# Its verdict counts: a violation there is a violation (its witnesses are copied to replays/<label>-...).
PASS_ENV=(VERIF_PASS_ENV=none)
extra_pass() {
  local label="$1" key="$2" how="$3" arch="$4"; shift 4
  local pdir; pdir="$(mktemp -d /tmp/verifpass.XXXXXX)"
  if (cd "$ROOT/harness" && GOARCH="${arch:-$(go env GOARCH)}" go build "${MODFLAG[@]}" "$@" -o "$pdir/mon" ./cmd/mon) >/dev/null 2>&1; then
    VERIF_TIER=quick VERIF_OUT="$pdir/out" VERIF_PLATFORM_PASS="$label" VERIF_MON="$pdir/mon" VERIF_MON_FAST="$pdir/mon" \
      GORACE="halt_on_error=0 log_path=$pdir/race" run_capped "$pdir/log" env "${PASS_ENV[@]}" timeout -s KILL 3600 "$pdir/mon" "$PROP"
    local prc=$?
    local races=0
    if ls "$pdir"/race.* >/dev/null 2>&1; then
      races=$(cat "$pdir"/race.* | awk 'BEGIN{RS="=================="} /WARNING: DATA RACE/ && /go\.lstv\.dev\/util\// {n++} END{print n+0}')
    fi
    echo "$label pass: rc=$prc races_in_util=$races $(grep -aE '^(HELD|VIOLATION|INCONCLUSIVE)' "$pdir/log" | head -1)" | cut -c1-230
    if [ "$races" -gt 0 ]; then
      local rr="$OUTDIR/replays/$label-$PROP-race-$(date +%s).txt"
      cat "$pdir"/race.* | head -120 > "$rr"
      echo "witness: $races data race report(s) with go.lstv.dev/util frames while the $PROP workload ran under the race detector"
      echo "VIOLATION property=$PROP replay=$rr"
      rc=1
    fi
    if [ $prc -eq 1 ]; then
      grep -aE '^witness' "$pdir/log" | head -3 | cut -c1-600
      for f in "$pdir"/out/replays/*.json; do [ -f "$f" ] && cp "$f" "$OUTDIR/replays/$label-$(basename "$f")"; done
      local first; first="$(ls "$OUTDIR"/replays/"$label"-"$PROP"-*.json 2>/dev/null | head -1)"
      echo "VIOLATION property=$PROP replay=${first:-$OUTDIR/replays}"
      rc=1
    fi
    python3 - "$OUTDIR/evidence/$PROP.json" "$pdir/out/evidence/$PROP.json" "$prc" "$key" "$how" "$races" <<'PYEOF'
import json,sys
p,q,prc,key,how,races=sys.argv[1],sys.argv[2],int(sys.argv[3]),sys.argv[4],sys.argv[5],int(sys.argv[6])
try:
    ev=json.load(open(p))
    info={"how":how,"exit":prc,"race_reports_in_util":races}
    try:
        e2=json.load(open(q)); info["evaluations"]=e2["coverage"]["evaluations"]; info["violations"]=e2.get("violations",0)
    except Exception: pass
    ev["coverage"][key]=info
    if prc==1 or races>0: ev["violations"]=ev.get("violations",0)+max(info.get("violations",0),1)
    json.dump(ev,open(p,"w"),indent=1)
except Exception as e:
    print("could not add the pass to evidence:",e)
PYEOF
  else
    echo "$label pass: build failed (pass skipped)"
  fi
  rm -rf "$pdir"
}

# ---- build-tag pass (every tier): custom build tags named in the repository's own //go:build lines select
# other source files; the property must hold for those builds too. No custom tag, no cost.
if [ $rc -eq 0 ] && [ "${VERIF_NO_TAGS:-0}" != "1" ]; then
  known=" aix android darwin dragonfly freebsd hurd illumos ios js linux nacl netbsd openbsd plan9 solaris wasip1 windows zos unix 386 amd64 arm arm64 loong64 mips mips64 mips64le mipsle ppc64 ppc64le riscv64 s390x wasm cgo race msan asan gc gccgo ignore purego appengine go tools integration verif "
  tags="$(grep -rhE '^//go:build |^// \+build ' --include='*.go' "$REPO" 2>/dev/null | sed -E 's#^//go:build |^// \+build ##' | tr -c 'A-Za-z0-9_.\n' ' ' | tr ' ' '\n' | grep -E '^[A-Za-z_][A-Za-z0-9_.]*$' | grep -vE '^go1\.' | sort -u)"
  n=0
  for t in $tags; do
    case "$known" in *" $t "*) continue;; esac
    n=$((n+1)); [ $n -gt 3 ] && break
    extra_pass "tag-$t" "build_tag_$t" "the same monitor built with -tags $t (a build tag named in the repository's own build constraints), quick-size workload" "" -tags "$t"
    [ $rc -ne 0 ] && break
  done
fi

# ---- environment pass (every tier): environment variables that the repository's own non-test sources read
# by name (os.Getenv / os.LookupEnv with a literal) switch code paths at start-up or per call; the property must hold for a
# process started with them set too. The names come from the tree under test (literals in the sources, and the
# look-ups a probe run of every entry point actually makes); the sources never touch the environment, no cost.
if [ $rc -eq 0 ] && [ "${VERIF_NO_ENV_PASS:-0}" != "1" ]; then
  envnames="$(grep -rhoE --include='*.go' --exclude='*_test.go' '(Getenv|LookupEnv)\("[A-Za-z_][A-Za-z0-9_]*"\)' "$REPO" 2>/dev/null | sed -E 's/.*\("([^"]*)"\)/\1/' | sort -u | head -8)"
  # names that are not literals at the call (constants, tables): observed at run time. A test binary of the monitor
  # package calls every entry point once; Go's own test log (-test.testlogfile) lists each variable looked up.
  if grep -rqE --include='*.go' --exclude='*_test.go' '(Getenv|LookupEnv|Environ)\(' "$REPO" 2>/dev/null; then
    EDIR="$(mktemp -d /tmp/verifenv.XXXXXX)"
    if (cd "$ROOT/harness" && go test -c "${MODFLAG[@]}" -o "$EDIR/probe.test" ./cmd/mon) >/dev/null 2>&1; then
      (cd "$EDIR" && timeout -s KILL 300 ./probe.test -test.run='^TestEnvProbe$' -test.testlogfile="$EDIR/testlog" >/dev/null 2>&1)
      seen="$(grep -E '^getenv ' "$EDIR/testlog" 2>/dev/null | cut -d' ' -f2 | grep -E '^[A-Za-z_][A-Za-z0-9_]*$' | grep -vE '^(GO|LC_|LANG|TZ$|ZONEINFO|HOME$|TMPDIR$|PATH$|USER$|PWD$|XDG_|SSL_|VERIF_|NO_COLOR$|TERM$)' | sort -u)"
      envnames="$(printf '%s\n%s\n' "$envnames" "$seen" | grep -v '^$' | sort -u | head -8)"
    else
      echo "environment probe: build failed (names taken from the sources only)"
    fi
    rm -rf "$EDIR"
  fi
  if [ -n "$envnames" ]; then
    for val in 1 true; do
      PASS_ENV=()
      for n in $envnames; do PASS_ENV+=("$n=$val"); done
      label="env-$val"
      extra_pass "$label" "environment_pass_$val" "the same monitor, quick-size workload, started with the environment variables the repository's sources read by name ($(echo $envnames | tr '\n' ' ')) each set to '$val'" ""
      [ $rc -ne 0 ] && break
    done
    PASS_ENV=(VERIF_PASS_ENV=none)
  fi
fi

# ---- test-binary pass (every tier): a tree whose non-test sources ask whether they run under `go test`
# (testing.Testing(), the test.* flags, the ".test" suffix of os.Args[0]) behaves differently there; programs' own
# tests use the library too, so the property must hold in a test binary. The same monitor, compiled as the test
# binary of its package (go test -c), runs the quick-size workload; children start from the
# same file. Nothing in the pinned tree asks, so no pass and no cost there.
if [ $rc -eq 0 ] && [ "${VERIF_NO_TESTBIN_PASS:-0}" != "1" ] && \
   grep -rqE --include='*.go' --exclude='*_test.go' 'testing\.Testing\(|flag\.Lookup\("test\.|"testing"|\.test"|-test\.' "$REPO" 2>/dev/null; then
  tdir="$(mktemp -d /tmp/veriftestbin.XXXXXX)"
  TFLAGS=()
  if (cd "$ROOT/harness" && go test -c "${MODFLAG[@]}" "${TFLAGS[@]}" -o "$tdir/mon.test" ./cmd/mon) >/dev/null 2>&1; then
    VERIF_TESTBIN=1 VERIF_TIER=quick VERIF_OUT="$tdir/out" VERIF_PLATFORM_PASS="testbin" VERIF_MON="$tdir/mon.test" VERIF_MON_FAST="$tdir/mon.test" \
      run_capped "$tdir/log" timeout -s KILL 3600 "$tdir/mon.test" "$PROP"
    trc=$?
    echo "test-binary pass: rc=$trc $(grep -aE '^(HELD|VIOLATION|INCONCLUSIVE)' "$tdir/log" | head -1)" | cut -c1-230
    if [ $trc -eq 1 ]; then
      grep -aE '^witness' "$tdir/log" | head -3 | cut -c1-600
      for f in "$tdir"/out/replays/*.json; do [ -f "$f" ] && cp "$f" "$OUTDIR/replays/testbin-$(basename "$f")"; done
      first="$(ls "$OUTDIR"/replays/testbin-"$PROP"-*.json 2>/dev/null | head -1)"
      echo "VIOLATION property=$PROP replay=${first:-$OUTDIR/replays}"
      rc=1
    fi
    python3 - "$OUTDIR/evidence/$PROP.json" "$tdir/out/evidence/$PROP.json" "$trc" <<'PYEOF'
import json,sys
p,q,prc=sys.argv[1],sys.argv[2],int(sys.argv[3])
try:
    ev=json.load(open(p))
    info={"how":"the same monitor compiled as the test binary of its package (testing.Testing() is true), quick-size workload, children started from the same file","exit":prc}
    try:
        e2=json.load(open(q)); info["evaluations"]=e2["coverage"]["evaluations"]; info["violations"]=e2.get("violations",0)
    except Exception: pass
    ev["coverage"]["test_binary_pass"]=info
    if prc==1: ev["violations"]=ev.get("violations",0)+max(info.get("violations",0),1)
    json.dump(ev,open(p,"w"),indent=1)
except Exception as e:
    print("could not add the test-binary pass to evidence:",e)
PYEOF
  else
    echo "test-binary pass: build failed (pass skipped)"
  fi
  rm -rf "$tdir"
fi

# ---- race pass (thorough tier): the whole quick-size workload of this property under the race detector. The
# library promises no shared mutable state outside uu; sixteen workers calling every entry point concurrently
# must not produce a single report with library frames. (C19 is decided by the race detector anyway.)
if [ "$TIER" = "thorough" ] && [ "$PROP" != "C19" ] && [ $rc -eq 0 ] && [ "${VERIF_NO_RACE_PASS:-0}" != "1" ]; then
  extra_pass "race" "race_pass" "the same monitor built with -race, quick-size workload, GORACE halt_on_error=0 log_path; reports with go.lstv.dev/util frames are counted" "" -race
fi

# ---- thorough tier: reach evidence. A cover-instrumented build of the same monitor runs this
# property's quick-size workload once (same generators, same seed); the statement coverage
# of the property's anchored files goes into the evidence as coverage.anchor_coverage.
# Its verdict is not used (the instrumented run only measures what the workload executes).
if [ "$TIER" = "thorough" ] && { [ $rc -eq 0 ] || [ $rc -eq 1 ]; } && [ "${VERIF_NO_COVER:-0}" != "1" ]; then
  COVDIR="$(mktemp -d /tmp/verifcov.XXXXXX)"
  CFLAGS=(-cover "-coverpkg=go.lstv.dev/util/...,verif/cmd/mon")
  [ "$PROP" = "C19" ] && CFLAGS+=(-race)
  if build "$BIN/mon-cover$suffix" "${CFLAGS[@]}" >/dev/null; then
    mkdir -p "$COVDIR/data" "$COVDIR/out"
    GOCOVERDIR="$COVDIR/data" VERIF_TIER=quick VERIF_OUT="$COVDIR/out" VERIF_MON="$BIN/mon-cover$suffix" \
      timeout -s KILL 1800 "$BIN/mon-cover$suffix" "$PROP" >/dev/null 2>&1
    if (cd "$ROOT/harness" && go tool covdata textfmt -i="$COVDIR/data" -o="$COVDIR/cov.txt") >/dev/null 2>&1; then
      python3 "$ROOT/tools/anchorcov.py" "$PROP" "$COVDIR/cov.txt" "$OUTDIR/evidence/$PROP.json" || true
    fi
  fi
  rm -rf "$COVDIR"
fi
exit $rc
